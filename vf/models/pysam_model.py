"""Executable model of the part of pysam 0.24.1's VCF API that whatshap uses
(VariantFile / VariantHeader / VariantRecord / VariantRecordSample).

htslib cannot be executed symbolically, so the repo's functions are driven
against this model; every explored path is replayed through REAL pysam on a
materialised file (vf/models/materialise.py) and the two results are compared
in a common normal form ("doc"), which is what validates the model.  Every
behaviour encoded here was observed with a probe against real pysam (see
DESIGN.md appendix A; additional facts are marked [probe] below).  Anything
that was not probed raises `Unsupported` (harness error, never a pass).

doc (plain Python, values may be PySym proxies where nothing stringifies them)

    {"samples": [name, ...],
     "header":  [("GENERIC", key, value) | ("FILTER", id) | ("INFO", id, number, type)
                 | ("FORMAT", id, number, type) | ("contig", id), ...],        # in file order
     "records": [{"chrom", "pos" (1-based), "id", "ref", "alts" (tuple | None), "qual",
                  "filter": [ids], "info": {key: value}, "format": [keys],
                  "calls": [{"phased": bool, key: value, ...} per sample]}, ...]}

Values are what pysam returns on reading: GT -> tuple of int/None, Integer
Number=1 -> int/None, Float Number=1 -> number/None, String/Integer Number=. ->
tuple (missing: ('.',) for String, (None,) for Integer).  "phased" is pysam's
`call.phased` (True for every haploid GT, False when the record has no GT).
"""
import copy

from vf.pysym.engine import Unsupported, SymInt, SymBool

# path (or MemFile) -> doc ; harnesses register their inputs here
FS = {}

VECTOR_MISSING = {"String": (".",), "Integer": (None,), "Float": (None,)}


class MemFile:
    """Stands for an open text file handed to VariantFile(..., mode='w')."""

    def __init__(self, name="<mem>"):
        self.name = name
        self.doc = None


def _isint(x):
    return (isinstance(x, int) and not isinstance(x, bool)) or isinstance(x, SymInt)


# ---------------------------------------------------------------------------
# header
# ---------------------------------------------------------------------------
class _HLine:
    __slots__ = ("type", "key", "value", "attrs")

    def __init__(self, type, key, value=None, attrs=None):
        self.type = type  # GENERIC / FILTER / INFO / FORMAT / CONTIG
        self.key = key  # 'phasing', 'FILTER', 'INFO', 'FORMAT', 'contig'
        self.value = value
        self.attrs = dict(attrs or {})

    def copy(self):
        return _HLine(self.type, self.key, self.value, self.attrs)


class VariantHeaderRecord:
    def __init__(self, header, line):
        self._header = header
        self._line = line

    @property
    def type(self):
        return self._line.type

    @property
    def key(self):
        return self._line.key

    @property
    def value(self):
        return self._line.value

    def get(self, k, default=None):
        return self._line.attrs.get(k, default)

    def __getitem__(self, k):
        return self._line.attrs[k]

    def items(self):
        return list(self._line.attrs.items())

    def keys(self):
        return list(self._line.attrs)

    def remove(self):
        # [probe] the line disappears from the header text; the ID dictionary keeps the id
        self._header._lines = [l for l in self._header._lines if l is not self._line]


class VariantMetadata:
    def __init__(self, header, kind, id):
        self._header = header
        self._kind = kind
        self.name = id

    def _meta(self):
        return self._header._dict[self._kind][self.name]

    @property
    def number(self):
        # [probe] fixed counts come back as int, the others as str ('.', 'A', 'G', 'R')
        n = self._meta()["Number"]
        try:
            return int(n)
        except (TypeError, ValueError):
            return n

    @property
    def type(self):
        return self._meta()["Type"]

    @property
    def description(self):
        return self._meta().get("Description")

    def remove_header(self):
        self._header._remove(self._kind, self.name)


class VariantHeaderMetadata:
    """header.formats / header.info / header.filters"""

    def __init__(self, header, kind):
        self._header = header
        self._kind = kind

    def __contains__(self, id):
        # [probe] still True after remove_header(): htslib's id dictionary keeps the key
        return id in self._header._dict[self._kind]

    def __iter__(self):
        return iter(self.keys())

    def keys(self):
        # [probe] FILTER/INFO/FORMAT share one id dictionary: keys come in the order in which the
        # ids were first defined under ANY of the three kinds
        d = self._header._dict[self._kind]
        return [k for k in self._header._idorder if k in d]

    def __len__(self):
        return len(self._header._dict[self._kind])

    def __getitem__(self, id):
        if id not in self._header._dict[self._kind]:
            raise KeyError("invalid key: {}".format(id))
        return VariantMetadata(self._header, self._kind, id)

    def get(self, id, default=None):
        return self[id] if id in self else default

    def items(self):
        return [(k, self[k]) for k in self.keys()]

    def values(self):
        return [self[k] for k in self.keys()]

    def remove_header(self, id):
        if id not in self._header._dict[self._kind]:
            raise KeyError("Invalid key: {}".format(id))  # [probe]
        self._header._remove(self._kind, id)

    def add(self, id, number, type, description, **kwargs):
        raise Unsupported("pysam model: header.%s.add()" % self._kind)


class VariantHeaderContigs:
    def __init__(self, header):
        self._header = header

    def _ids(self):
        return [l.attrs["ID"] for l in self._header._lines if l.type == "CONTIG"]

    def __contains__(self, id):
        return id in self._ids()

    def __iter__(self):
        return iter(self._ids())

    def keys(self):
        return self._ids()

    def __len__(self):
        return len(self._ids())

    def add(self, id, length=None, **kwargs):
        if id in self._ids():
            raise ValueError("Header already exists for contig {}".format(id))
        attrs = {"ID": id}
        if length is not None:
            attrs["length"] = str(length)
        self._header._lines.append(_HLine("CONTIG", "contig", None, attrs))


class VariantHeader:
    def __init__(self, doc=None):
        self._lines = []
        self._dict = {"FORMAT": {}, "INFO": {}, "FILTER": {}}
        self._idorder = []
        self._samples = []
        if doc is not None:
            self._samples = list(doc["samples"])
            for hl in doc["header"]:
                self._add(hl)

    def _add(self, hl):
        kind = hl[0]
        if kind == "GENERIC":
            self._lines.append(_HLine("GENERIC", hl[1], hl[2]))
        elif kind == "FILTER":
            self._define("FILTER", {"ID": hl[1], "Description": '"%s"' % hl[1]})
        elif kind in ("INFO", "FORMAT"):
            self._define(kind, {"ID": hl[1], "Number": str(hl[2]), "Type": hl[3], "Description": '"d"'})
        elif kind == "contig":
            self._lines.append(_HLine("CONTIG", "contig", None, {"ID": hl[1]}))
        else:
            raise Unsupported("pysam model: header line kind %r" % (kind,))

    def _define(self, kind, attrs):
        id = attrs["ID"]
        live = [l for l in self._lines if l.type == kind and l.attrs["ID"] == id]
        if live:
            # [probe] a second definition of a live ID is dropped, the first one stays
            return
        self._lines.append(_HLine(kind, kind, None, attrs))
        # [probe] re-definition after remove_header(): the dictionary entry is updated in place (keeps its position)
        self._dict[kind][id] = dict(attrs)
        if id not in self._idorder:
            self._idorder.append(id)

    def _remove(self, kind, id):
        self._lines = [l for l in self._lines if not (l.type == kind and l.attrs.get("ID") == id)]

    def _defined(self, kind, id):
        """definition present in the header *text* (what a writer / a copy sees)"""
        return any(l.type == kind and l.attrs.get("ID") == id for l in self._lines)

    # -- public API ------------------------------------------------------------
    @property
    def records(self):
        return [VariantHeaderRecord(self, l) for l in list(self._lines)]

    @property
    def formats(self):
        return VariantHeaderMetadata(self, "FORMAT")

    @property
    def info(self):
        return VariantHeaderMetadata(self, "INFO")

    @property
    def filters(self):
        return VariantHeaderMetadata(self, "FILTER")

    @property
    def contigs(self):
        return VariantHeaderContigs(self)

    @property
    def samples(self):
        return list(self._samples)

    def copy(self):
        # [probe] a copy is made through the header text: removed definitions are gone from its dictionaries
        h = VariantHeader()
        h._samples = list(self._samples)
        h._lines = [l.copy() for l in self._lines]
        for l in h._lines:
            if l.type in h._dict:
                h._dict[l.type][l.attrs["ID"]] = dict(l.attrs)
                if l.attrs["ID"] not in h._idorder:
                    h._idorder.append(l.attrs["ID"])
        return h

    def add_meta(self, key, value=None, items=None):
        if items is not None:
            raise Unsupported("pysam model: add_meta(items=...)")
        self._lines.append(_HLine("GENERIC", key, value))

    def add_line(self, line):
        line = line.strip()
        if not line.startswith("##"):
            raise Unsupported("pysam model: add_line(%r)" % line)
        body = line[2:]
        key, _, rest = body.partition("=")
        if rest.startswith("<") and rest.endswith(">"):
            attrs = _parse_attrs(rest[1:-1])
            if key in ("FORMAT", "INFO", "FILTER"):
                self._define(key, attrs)
            elif key == "contig":
                if attrs["ID"] not in self.contigs:
                    self._lines.append(_HLine("CONTIG", "contig", None, attrs))
            else:
                raise Unsupported("pysam model: structured header line %r" % key)
        else:
            self._lines.append(_HLine("GENERIC", key, rest))

    def add_sample(self, name):
        raise Unsupported("pysam model: add_sample")

    def _doc_lines(self):
        out = []
        for l in self._lines:
            if l.type == "GENERIC":
                if l.key == "fileformat":
                    continue
                out.append(("GENERIC", l.key, l.value))
            elif l.type == "FILTER":
                if l.attrs["ID"] != "PASS":
                    out.append(("FILTER", l.attrs["ID"]))
            elif l.type in ("INFO", "FORMAT"):
                out.append((l.type, l.attrs["ID"], l.attrs["Number"], l.attrs["Type"]))
            elif l.type == "CONTIG":
                out.append(("contig", l.attrs["ID"]))
        return out


def _parse_attrs(s):
    attrs = {}
    i = 0
    n = len(s)
    while i < n:
        j = s.index("=", i)
        k = s[i:j]
        i = j + 1
        if i < n and s[i] == '"':
            e = s.index('"', i + 1)
            v = s[i : e + 1]
            i = e + 1
        else:
            e = s.find(",", i)
            if e < 0:
                e = n
            v = s[i:e]
            i = e
        attrs[k] = v
        if i < n and s[i] == ",":
            i += 1
    return attrs


# ---------------------------------------------------------------------------
# records
# ---------------------------------------------------------------------------
class VariantRecordFormat:
    def __init__(self, record):
        self._r = record

    def __contains__(self, key):
        return key in self._r._fmt

    def __iter__(self):
        return iter(list(self._r._fmt))

    def keys(self):
        return list(self._r._fmt)

    def __len__(self):
        return len(self._r._fmt)

    def __delitem__(self, key):
        if key not in self._r._fmt:
            raise KeyError("Unknown format: {}".format(key))  # [probe]
        self._r._fmt.remove(key)
        for c in self._r._calls:
            c.pop(key, None)
            if key == "GT":
                c["phased"] = False

    def clear(self):
        for k in list(self._r._fmt):
            del self[k]


class VariantRecordFilter:
    def __init__(self, record):
        self._r = record

    def keys(self):
        return list(self._r._filter)

    def __iter__(self):
        return iter(list(self._r._filter))

    def __contains__(self, k):
        return k in self._r._filter

    def __len__(self):
        return len(self._r._filter)


class VariantRecordInfo:
    def __init__(self, record):
        self._r = record

    def keys(self):
        return list(self._r._info)

    def __iter__(self):
        return iter(list(self._r._info))

    def __contains__(self, k):
        return k in self._r._info

    def __len__(self):
        return len(self._r._info)

    def __getitem__(self, k):
        return self._r._info[k]

    def get(self, k, default=None):
        return self._r._info.get(k, default)

    def items(self):
        return list(self._r._info.items())


class VariantRecordSamples:
    def __init__(self, record):
        self._r = record

    def _index(self, key):
        names = self._r.header._samples
        if isinstance(key, str):
            if key not in names:
                raise KeyError("Invalid sample name: {}".format(key))  # [probe]
            return names.index(key)
        if isinstance(key, int):
            if not 0 <= key < len(names):
                raise IndexError("invalid sample index")
            return key
        raise TypeError("invalid sample key")

    def __getitem__(self, key):
        return VariantRecordSample(self._r, self._index(key))

    def __len__(self):
        return len(self._r.header._samples)

    def __iter__(self):
        return iter(list(self._r.header._samples))

    def __contains__(self, key):
        return key in self._r.header._samples

    def keys(self):
        return list(self._r.header._samples)

    def values(self):
        return [VariantRecordSample(self._r, i) for i in range(len(self))]

    def items(self):
        return [(n, VariantRecordSample(self._r, i)) for i, n in enumerate(self._r.header._samples)]


class VariantRecordSample:
    def __init__(self, record, index):
        self._r = record
        self.index = index

    @property
    def name(self):
        return self._r.header._samples[self.index]

    @property
    def _d(self):
        return self._r._calls[self.index]

    def _type(self, key):
        meta = self._r.header._dict["FORMAT"].get(key)
        if meta is None:
            raise Unsupported("pysam model: FORMAT %s is not defined in the header" % key)
        return meta["Number"], meta["Type"]

    def _missing(self, key):
        if key == "GT":
            return ()
        number, typ = self._type(key)
        if number == "1":
            return None
        return (None,)  # [probe] in memory an unset vector value reads (None,) for every type

    # -- mapping -----------------------------------------------------------------
    def __contains__(self, key):
        return key in self._r._fmt

    def keys(self):
        return list(self._r._fmt)

    def __iter__(self):
        return iter(list(self._r._fmt))

    def __len__(self):
        return len(self._r._fmt)

    def __getitem__(self, key):
        if key not in self._r._fmt:
            raise KeyError("invalid FORMAT: {}".format(key))  # [probe]
        return self._d[key]

    def get(self, key, default=None):
        # [probe] the default is used only when the key is not in the record's FORMAT
        if key not in self._r._fmt:
            return default
        return self._d[key]

    def values(self):
        return [self._d[k] for k in self._r._fmt]

    def items(self):
        return [(k, self._d[k]) for k in self._r._fmt]

    def __delitem__(self, key):
        if key not in self._r._fmt:
            raise KeyError("invalid FORMAT: {}".format(key))
        if key == "GT":
            raise Unsupported("pysam model: del call['GT']")
        self._d[key] = self._missing(key)

    def __setitem__(self, key, value):
        r = self._r
        if key == "GT":
            self._set_gt(value)
            return
        number, typ = self._type(key)
        if number == "1":
            if value is None:
                v = None
            elif typ == "Integer":
                if not _isint(value):
                    raise Unsupported("pysam model: %s=%r" % (key, value))
                v = value
            elif typ == "Float":
                v = value
            else:
                raise Unsupported("pysam model: %s=%r (Number=1 %s)" % (key, value, typ))
        else:
            if value is None:
                v = (None,)
            elif typ == "String":
                if not isinstance(value, str):
                    raise Unsupported("pysam model: %s=%r" % (key, value))
                v = tuple(value.split(","))  # [probe] 'a-1,a-2' reads back as ('a-1', 'a-2')
            elif typ == "Integer":
                v = tuple(value)
                if not all(_isint(x) for x in v) or not v:
                    raise Unsupported("pysam model: %s=%r" % (key, value))
            else:
                raise Unsupported("pysam model: %s=%r" % (key, value))
        if key not in r._fmt:
            # [probe] a new key is appended to the record's FORMAT for all samples
            r._fmt.append(key)
            r._new_keys.add(key)
            for c in r._calls:
                c[key] = self._missing(key)
        self._d[key] = v

    def _set_gt(self, value):
        r = self._r
        if value is None:
            raise Unsupported("pysam model: call['GT'] = None")
        alleles = tuple(value)
        if len(alleles) == 0:
            raise Unsupported("pysam model: call['GT'] = ()")
        nalleles = 1 + (len(r.alts) if r.alts else 0)
        for a in alleles:
            if a is None:
                continue
            if not _isint(a):
                raise Unsupported("pysam model: GT allele %r" % (a,))
            if a < 0 or a >= nalleles:
                raise ValueError("Invalid allele index")  # [probe]
        if "GT" not in r._fmt:
            # [probe] GT becomes the first FORMAT key; the other samples get an empty GT
            r._fmt.insert(0, "GT")
            for c in r._calls:
                c["GT"] = ()
                c["phased"] = False
        self._d["GT"] = alleles
        self._d["phased"] = False  # [probe] assigning GT always resets the phased flag

    @property
    def alleles(self):
        raise Unsupported("pysam model: call.alleles")

    @property
    def phased(self):
        if "GT" not in self._r._fmt:
            return False
        gt = self._d["GT"]
        if len(gt) == 0:
            return False
        if len(gt) == 1:
            return True  # [probe] a haploid GT always reports phased
        return self._d["phased"]

    @phased.setter
    def phased(self, value):
        if "GT" not in self._r._fmt:
            raise ValueError("Cannot set phased before genotype is set")  # [probe]
        self._d["phased"] = value if isinstance(value, SymBool) else bool(value)


class VariantRecord:
    def __init__(self, header, d):
        self.header = header
        self.chrom = d["chrom"]
        self.pos = d["pos"]
        self.id = d.get("id")
        self.ref = d["ref"]
        self.alts = tuple(d["alts"]) if d.get("alts") else None
        self.qual = d.get("qual")
        self._filter = list(d.get("filter") or [])
        self._info = dict(d.get("info") or {})
        self._fmt = list(d.get("format") or [])
        self._new_keys = set()  # FORMAT keys added in memory (not present when the record was read)
        self._calls = []
        for c in d["calls"]:
            cc = {}
            for k, v in c.items():
                cc[k] = tuple(v) if isinstance(v, (list, tuple)) else v
            if "GT" not in self._fmt:
                cc["phased"] = False
            self._calls.append(cc)
        if len(self._calls) != len(header._samples):
            raise Unsupported("pysam model: record with a wrong number of calls")
        if "GT" in self._fmt and self._fmt[0] != "GT":
            raise Unsupported("pysam model: GT must be the first FORMAT key")

    @property
    def contig(self):
        return self.chrom

    @property
    def start(self):
        return self.pos - 1

    @property
    def stop(self):
        return self.pos - 1 + len(self.ref)

    @property
    def alleles(self):
        return (self.ref,) + (self.alts or ())

    @property
    def format(self):
        return VariantRecordFormat(self)

    @property
    def filter(self):
        return VariantRecordFilter(self)

    @property
    def info(self):
        return VariantRecordInfo(self)

    @property
    def samples(self):
        return VariantRecordSamples(self)

    def _snapshot(self, writer_header):
        """The record as REAL pysam reads it back after it was written as VCF text."""
        for k in self._fmt:
            if not writer_header._defined("FORMAT", k):
                # [probe] "[E::vcf_format] Invalid BCF, the FORMAT tag id=.. not present in the header"
                raise OSError(22, "Can't write record: Invalid argument")
        calls = []
        corrupt = False
        n = len(self._calls)
        for i, c in enumerate(self._calls):
            cc = {}
            for k in self._fmt:
                v = c[k]
                if k == "GT":
                    if len(v) == 0:
                        v = (None,)  # [probe] an empty GT is written '.' and reads (None,)
                    cc["GT"] = tuple(v)
                    continue
                meta = writer_header._dict["FORMAT"][k]
                if meta["Number"] != "1" and meta["Type"] == "String" and tuple(v) == (None,):
                    # [probe] a None/unset String vector is written as an EMPTY field; htslib re-reads an empty
                    # field as ('.',) in the last sample column and as (None,) in every other column.
                    # If the key was added in memory and NO sample has a value, a NUL byte is written per
                    # sample instead: with >= 2 samples the file cannot be parsed any more ("truncated file"),
                    # with one sample the field re-reads as (None,).
                    if k in self._new_keys and all(tuple(x[k]) == (None,) for x in self._calls):
                        if n >= 2:
                            corrupt = True
                        cc[k] = (None,)
                    else:
                        # (refined while validating the re-phasing fix: only an empty field at the very END of the line -
                        #  last FORMAT key of the last sample - re-reads as ('.',); followed by ':' or a tab it is (None,))
                        cc[k] = (".",) if (i == n - 1 and k == self._fmt[-1]) else (None,)
                elif meta["Number"] != "1" and meta["Type"] != "String":
                    raise Unsupported("pysam model: serialisation of %s (%s vector)" % (k, meta["Type"]))
                else:
                    cc[k] = tuple(v) if isinstance(v, (tuple, list)) else v
            if "GT" in self._fmt:
                ph = c["phased"]
                cc["phased"] = True if len(cc["GT"]) == 1 else (ph if isinstance(ph, SymBool) else bool(ph))
            else:
                cc["phased"] = False
            calls.append(cc)
        return dict(
            corrupt=corrupt,
            chrom=self.chrom,
            pos=self.pos,
            id=self.id,
            ref=self.ref,
            alts=self.alts,
            qual=self.qual,
            filter=list(self._filter),
            info=dict(self._info),
            format=list(self._fmt),
            calls=calls,
        )


class CorruptOutput(Exception):
    """Model-side marker: htslib wrote bytes that no VCF parser accepts (the real
    side observes this as an OSError on re-reading the written file)."""


# ---------------------------------------------------------------------------
# files
# ---------------------------------------------------------------------------
class VariantFile:
    def __init__(self, filename, mode="r", header=None, **kwargs):
        self._mode = mode
        self._closed = False
        if "w" in mode:
            if header is None:
                raise Unsupported("pysam model: writer without header")
            self.header = header.copy()
            self._target = filename
            self._written = []
            self._publish()
        else:
            key = filename
            if isinstance(filename, bytes):
                key = filename.decode()
            if key not in FS:
                raise FileNotFoundError("[Errno 2] could not open variant file `{}`".format(key))
            doc = FS[key]
            self._doc = doc
            self.header = VariantHeader(doc)
            self._cursor = 0
        self.filename = filename.encode() if isinstance(filename, str) else filename
        self.index = None

    # reading ---------------------------------------------------------------------
    def __iter__(self):
        return self  # [probe] a VariantFile is its own iterator (one shared cursor)

    def __next__(self):
        if "w" in self._mode:
            raise ValueError("I/O operation on a writer")
        if self._cursor >= len(self._doc["records"]):
            raise StopIteration
        d = self._doc["records"][self._cursor]
        self._cursor += 1
        return VariantRecord(self.header, d)

    def fetch(self, *a, **k):
        raise ValueError("fetch requires an index")

    # writing ---------------------------------------------------------------------
    def write(self, record):
        if "w" not in self._mode:
            raise ValueError("file is not open for writing")
        if len(record.header._samples) != len(self.header._samples):
            raise ValueError("Different number of samples specified: {} (expected {})".format(len(record.header._samples), len(self.header._samples)))
        self._written.append(record._snapshot(self.header))
        self._publish()

    def _publish(self):
        recs = []
        corrupt = False
        for r in self._written:
            r = dict(r)
            corrupt = r.pop("corrupt", False) or corrupt
            recs.append(r)
        doc = dict(samples=list(self.header._samples), header=self.header._doc_lines(), records=recs)
        if corrupt:
            doc["corrupt"] = True
        if isinstance(self._target, MemFile):
            self._target.doc = doc
        else:
            FS[self._target] = doc

    def close(self):
        self._closed = True

    def __enter__(self):
        return self

    def __exit__(self, *a):
        self.close()
        return False


# `from pysam.libcbcf import VariantRecordSample`
import sys as _sys

libcbcf = _sys.modules[__name__]


class AlignmentFile:
    def __init__(self, *a, **k):
        raise Unsupported("pysam model: AlignmentFile is not modelled here")


class FastaFile:
    def __init__(self, *a, **k):
        raise Unsupported("pysam model: FastaFile is not modelled here")


class AlignedSegment:
    pass
