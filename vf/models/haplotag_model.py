"""Stubs for the haplotag / haplotagphase checks (C10, C17).

What cannot be executed symbolically there is file I/O: pysam.AlignmentFile / AlignedSegment (htslib), the VCF reader,
the BAM allele detection behind PhasedInputReader.  The functions of whatshap/cli/haplotag.py and haplotagphase.py
themselves are executed unchanged; they see

  * `Aln`                 - an alignment record with the part of pysam.AlignedSegment's API that haplotag.py uses
                            (query_name, flag bits, reference_start, set_tag/get_tag/has_tag).  On replay the real
                            pysam.AlignedSegment is used instead, which is what validates this class.
  * `Reader`              - stands for PhasedInputReader: `read()` hands out the read set of the scenario, restricted
                            to the variants it is asked for (the real reader only detects alleles at those).
  * `BamIn/BamOut/...`    - stand for pysam.AlignmentFile in run_haplotag's main loop (fetch by region / "*", write).

pysam facts relied upon (DESIGN appendix A and probes): set_tag(tag, value=None) removes the tag and is silent if it is
absent; get_tag of an absent tag raises KeyError; fetch(contig, start, stop) yields, in file order, the records on that
contig that overlap [start, stop) (placed unmapped records count with length 1); fetch("*") yields the unplaced
unmapped records.
"""
import os
import types


class Aln:
    def __init__(self, query_name, flag, reference_start, length, tags, ref_id=0):
        self.reference_id = ref_id if reference_start is not None and reference_start >= 0 else -1
        self.reference_name = None if self.reference_id < 0 else "chr%d" % (self.reference_id + 1)
        self.query_name = query_name
        self.flag = flag
        self.reference_start = reference_start
        self.length = length
        self.tags_ = dict(tags)

    is_unmapped = property(lambda self: bool(self.flag & 4))
    is_secondary = property(lambda self: bool(self.flag & 256))
    is_supplementary = property(lambda self: bool(self.flag & 2048))

    def set_tag(self, tag, value=None, value_type=None, replace=True):
        if value is None:
            self.tags_.pop(tag, None)
        else:
            self.tags_[tag] = value

    def get_tag(self, tag, with_value_type=False):
        if tag not in self.tags_:
            raise KeyError("tag '%s' not present" % tag)
        return self.tags_[tag]

    def has_tag(self, tag):
        return tag in self.tags_

    def get_tags(self):
        return list(self.tags_.items())


def make_sym_aln(name, flag, start, length, tags, ref_id=0):
    return Aln(name, flag, start, length, tags, ref_id)


_HDR = []


def make_real_aln(name, flag, start, length, tags, ref_id=0):
    import pysam

    if not _HDR:
        _HDR.append(pysam.AlignmentHeader.from_dict({"HD": {"VN": "1.6", "SO": "coordinate"}, "SQ": [{"SN": "chr1", "LN": 100000}, {"SN": "chr2", "LN": 100000}]}))
    a = pysam.AlignedSegment(_HDR[0])
    a.query_name = name
    a.flag = flag
    placed = start is not None and start >= 0
    a.reference_id = ref_id if placed else -1
    a.reference_start = start if placed else -1
    a.mapping_quality = 60
    a.query_sequence = "A" * length
    if not (flag & 4):
        a.cigartuples = [(0, length)]
    for k, v in tags.items():
        a.set_tag(k, v)
    return a


def snap(a):
    """(name, flag, start, sorted tags) of a stub or real alignment"""
    return [a.query_name, a.flag, a.reference_start, sorted((k, v) for k, v in a.get_tags())]


class Reader:
    """PhasedInputReader stand-in.  `reads`: {sample: [dict(name, start, bx, hp, ps, vars=[(position, allele, quality)])]}"""

    has_alignments = True

    def __init__(self, core, reads):
        self.core = core
        self.reads = reads
        self.calls = []

    def __enter__(self):
        return self

    def __exit__(self, *a):
        return False

    def read(self, chromosome, variants, sample, *, read_vcf=True, regions=None, restricted_genotypes=None):
        self.calls.append((chromosome, sample))
        wanted = [v.position for v in variants]
        rs = self.core.ReadSet()
        for spec in self.reads.get(sample, []):
            r = self.core.Read(spec["name"], 60, 0, 0, spec.get("start", 0), spec.get("bx", ""), spec.get("hp", -1), spec.get("ps", -1))
            for pos, allele, quality in spec["vars"]:
                if pos in wanted:
                    r.add_variant(pos, allele, quality)
            rs.add(r)
        # not sorted here: ReadSet.sort() breaks ties between equal first positions by a string hash, so the order of
        # the scenario's list *is* the order under test (harnesses enumerate it where it matters)
        return rs, set()


def strip_logging(name, tree):
    """SymWorld transformer: drop `logger.debug/info/warning(...)` statements.  Their arguments are built eagerly with
    str.format, which would force every symbolic quality to a concrete value (one path per value) for the sake of
    a log line; the messages have no influence on results.  The replay runs the untouched code."""
    import ast

    class T(ast.NodeTransformer):
        def visit_Expr(self, node):
            c = node.value
            if (isinstance(c, ast.Call) and isinstance(c.func, ast.Attribute) and isinstance(c.func.value, ast.Name)
                    and c.func.value.id == "logger" and c.func.attr in ("debug", "info", "warning")):
                return ast.copy_location(ast.Pass(), node)
            return node

    return T().visit(tree)


def cli_stub():
    """`whatshap.cli` inside a SymWorld (its real __init__ imports the compiled BAM machinery)."""
    from vf.runner import REPO

    m = types.ModuleType("whatshap.cli")
    m.__path__ = [os.path.join(REPO, "whatshap", "cli")]
    m.__package__ = "whatshap.cli"

    class CommandLineError(Exception):
        pass

    class PhasedInputReader:
        def __init__(self, *a, **k):
            from vf.pysym.engine import Unsupported

            raise Unsupported("whatshap.cli.PhasedInputReader must be replaced by the check")

    m.CommandLineError = CommandLineError
    m.PhasedInputReader = PhasedInputReader
    m.log_memory_usage = lambda include_children=False: None
    return m


# ---------------------------------------------------------------------------
# run_haplotag's I/O
# ---------------------------------------------------------------------------
class _Header:
    def __init__(self, d):
        self.d = d

    def get(self, k, default=None):
        return self.d.get(k, default)

    def to_dict(self):
        import copy

        return copy.deepcopy(self.d)


class BamIn:
    """pysam.AlignmentFile (an indexed BAM) opened for reading.  records: list of alignments in file order; `span(a)`
    tells where a record is placed: (start, end) on the first contig, (contig, start, end), or None for the unplaced tail.
    Besides fetch() the index-level queries of pysam.AlignmentFile are answered from the same records (a BAM index counts,
    per contig, the records placed there split into mapped and unmapped ones - flag 0x4 - and the unplaced rest)."""

    is_bam = True
    is_cram = False
    is_sam = False

    def __init__(self, records, header, span):
        self.records = records
        self.header = _Header(header)
        self.span = span
        self.references = tuple(sq["SN"] for sq in header.get("SQ", []))
        self.lengths = tuple(sq["LN"] for sq in header.get("SQ", []))
        self.nreferences = len(self.references)
        self.fetches = []

    def __enter__(self):
        return self

    def __exit__(self, *a):
        return False

    def close(self):
        pass

    def _loc(self, a):
        sp = self.span(a)
        if sp is None:
            return None
        return (self.references[0],) + tuple(sp) if len(sp) == 2 else tuple(sp)

    def has_index(self):
        return True

    def check_index(self):
        return True

    def get_reference_name(self, i):
        return self.references[i]

    def get_tid(self, name):
        return self.references.index(name) if name in self.references else -1

    def get_index_statistics(self):
        import collections

        Stat = collections.namedtuple("IndexStats", ["contig", "mapped", "unmapped", "total"])
        out = []
        for c in self.references:
            here = [a for a in self.records if self._loc(a) is not None and self._loc(a)[0] == c]
            un = sum(1 for a in here if a.flag & 4)
            out.append(Stat(c, len(here) - un, un, len(here)))
        return out

    mapped = property(lambda self: sum(s.mapped for s in self.get_index_statistics()))
    unmapped = property(lambda self: sum(s.unmapped for s in self.get_index_statistics()) + self.nocoordinate)
    nocoordinate = property(lambda self: sum(1 for a in self.records if self._loc(a) is None))

    def count(self, contig=None, start=None, stop=None, **kw):
        n = sum(1 for _ in self.fetch(contig=contig, start=start, stop=stop))
        self.fetches.pop()
        return n

    def fetch(self, contig=None, start=None, stop=None, **kw):
        self.fetches.append((contig, start, stop))
        out = []
        for a in self.records:
            loc = self._loc(a)
            if contig == "*":
                if loc is None:
                    out.append(a)
                continue
            if loc is None or (contig is not None and contig != loc[0]):
                continue
            _, s, e = loc
            lo = 0 if start is None else start
            if e > lo and (stop is None or s < stop):
                out.append(a)
        return iter(out)

    def __iter__(self):
        return iter(self.records)


class BamOut:
    def __init__(self):
        self.written = []

    def __enter__(self):
        return self

    def __exit__(self, *a):
        return False

    def close(self):
        pass

    def write(self, a):
        self.written.append(snap(a))  # state at the time of writing


class TextOut:
    def __init__(self):
        self.lines = []
        self._cur = ""

    def __enter__(self):
        return self

    def __exit__(self, *a):
        return False

    def close(self):
        pass

    def write(self, s):
        self._cur += s
        while "\n" in self._cur:
            line, self._cur = self._cur.split("\n", 1)
            self.lines.append(line)


class VcfIn:
    """VcfReader stand-in: one chromosome, one prepared VariantTable."""

    def __init__(self, samples, table, invalid_exc, more_tables=()):
        self.samples = samples
        self.table = table
        self.more = {t.chromosome: t for t in more_tables}  # further contigs of the VCF (e.g. one without any variant)
        self.invalid_exc = invalid_exc
        self.fetched = []

    def __enter__(self):
        return self

    def __exit__(self, *a):
        return False

    def fetch_regions(self, chromosome, regions):
        self.fetched.append((chromosome, list(regions)))
        if chromosome in self.more:
            return self.more[chromosome]
        if self.table is None or chromosome != self.table.chromosome:
            raise self.invalid_exc(chromosome)
        return self.table
