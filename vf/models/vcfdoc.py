"""Helpers shared by the VCF checks (C13, C04, C09, C03): proxy-aware deep
equality / multiset equality over docs (see pysam_model.py), the symbolic and
the real "world" set-up, scratch directories."""
import os
import shutil
import sys
import tempfile
import types

from vf.pysym.engine import SymBool, SymInt, is_symbolic


def conj(a, b):
    if a is True:
        return b
    if b is True:
        return a
    if a is False or b is False:
        return False
    return a & b


def deq(a, b):
    """a == b, structurally; True / False / SymBool (never forks)."""
    if isinstance(a, (list, tuple)) and isinstance(b, (list, tuple)):
        if len(a) != len(b):
            return False
        r = True
        for x, y in zip(a, b):
            r = conj(r, deq(x, y))
            if r is False:
                return False
        return r
    if isinstance(a, dict) and isinstance(b, dict):
        if set(a) != set(b):
            return False
        r = True
        for k in a:
            r = conj(r, deq(a[k], b[k]))
            if r is False:
                return False
        return r
    if isinstance(a, (list, tuple, dict)) or isinstance(b, (list, tuple, dict)):
        return False
    if a is None or b is None:
        return a is None and b is None
    if is_symbolic(a) or is_symbolic(b):
        if isinstance(a, str) or isinstance(b, str):
            return False
        return a == b
    if isinstance(a, str) != isinstance(b, str):
        return False
    return bool(a == b)


def count_eq(xs, v):
    """number of elements of xs equal to the concrete int v (int or SymInt)"""
    n = 0
    for x in xs:
        if x is None:
            continue
        r = x == v
        if isinstance(r, SymBool):
            n = n + r._i()
        elif r:
            n = n + 1
    return n


def multiset_eq(a, b, domain):
    """same multiset of alleles (None counted separately); alleles range over `domain`"""
    if len(a) != len(b):
        return False
    if sum(1 for x in a if x is None) != sum(1 for x in b if x is None):
        return False
    r = True
    for v in domain:
        r = conj(r, deq(count_eq(a, v), count_eq(b, v)))
        if r is False:
            return False
    return r


def is_missing(v):
    return v is None or (isinstance(v, (tuple, list)) and all(x is None or x == "." for x in v))


class Obligations:
    """Collects the oracle's assertions of one path and discharges them with ONE
    solver-decided fork (their conjunction); only when the conjunction can fail
    are the assertions checked one by one to name the broken one."""

    def __init__(self, e, info=None):
        self.e = e
        self.info = info
        self.items = []

    def add(self, cond, msg):
        if cond is True:
            return
        self.items.append((cond, msg))

    def discharge(self):
        total = True
        for c, _ in self.items:
            total = conj(total, c if isinstance(c, (bool, SymBool)) else bool(c))
            if total is False:
                break
        items, self.items = self.items, []
        if total is True:
            return
        if total is False or not bool(total):
            for c, m in items:
                self.e.check(c, m, self.info)
            raise RuntimeError("Obligations: conjunction false but every conjunct true")


class ScratchMixin:
    """One scratch directory under /var/tmp per job (mix in before SubCheck); files are
    overwritten path after path, the directory is removed in `finally`."""

    scratch = None

    def run(self, shape, tier, seed):
        self.scratch = tempfile.mkdtemp(prefix="vf-%s-" % self.name, dir="/var/tmp")
        try:
            return super().run(shape, tier, seed)
        finally:
            shutil.rmtree(self.scratch, ignore_errors=True)
            self.scratch = None

    def replay(self, shape, witness):
        self.scratch = tempfile.mkdtemp(prefix="vf-%s-" % self.name, dir="/var/tmp")
        try:
            return super().replay(shape, witness)
        finally:
            shutil.rmtree(self.scratch, ignore_errors=True)
            self.scratch = None

    def spath(self, name):
        return os.path.join(self.scratch, name)


def cli_stub():
    """Stand-in for the package module `whatshap.cli` inside a SymWorld: its real
    __init__ imports the BAM/FASTA readers (compiled code), which none of the VCF
    checks execute."""
    from vf.runner import REPO

    m = types.ModuleType("whatshap.cli")
    m.__path__ = [os.path.join(REPO, "whatshap", "cli")]
    m.__package__ = "whatshap.cli"

    class CommandLineError(Exception):
        pass

    def log_memory_usage(include_children=False):
        pass

    class PhasedInputReader:
        def __init__(self, *a, **k):
            from vf.pysym.engine import Unsupported

            raise Unsupported("whatshap.cli.PhasedInputReader is not modelled")

    m.CommandLineError = CommandLineError
    m.log_memory_usage = log_memory_usage
    m.PhasedInputReader = PhasedInputReader
    return m


_real_ready = []


def ensure_real(names=("core", "align", "_variants")):
    """Real whatshap (extensions rebuilt from the working tree) importable in this process."""
    if _real_ready:
        return
    from vf import build

    build.load_real(list(names))
    import pysam

    pysam.set_verbosity(0)
    _real_ready.append(1)


def prebuild(names=("core", "align", "_variants")):
    """Called in the parent process (from shapes()) so that 16 workers do not all compile."""
    from vf import build

    for n in names:
        build.build_ext(n)
