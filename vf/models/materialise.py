"""doc (see pysam_model.py) <-> real VCF files, for replaying model scenarios
through REAL pysam.  `write_vcf` turns a concrete doc into VCF text;
`read_vcf` parses a file with real pysam back into the same normal form the
model publishes for its written files."""
import os


def _fmt_scalar(v):
    if v is None:
        return "."
    if isinstance(v, float):
        return ("%g" % v) if v != int(v) else str(int(v))
    return str(v)


def _fmt_value(v):
    if isinstance(v, (tuple, list)):
        if len(v) == 0:
            return "."
        return ",".join(_fmt_scalar(x) for x in v)
    return _fmt_scalar(v)


def _fmt_gt(call):
    gt = call["GT"]
    if len(gt) == 0:
        return "."
    sep = "|" if call.get("phased") else "/"
    return sep.join("." if a is None else str(a) for a in gt)


def header_text(doc):
    out = ["##fileformat=VCFv4.2"]
    for hl in doc["header"]:
        kind = hl[0]
        if kind == "GENERIC":
            out.append("##%s=%s" % (hl[1], hl[2]))
        elif kind == "FILTER":
            out.append('##FILTER=<ID=%s,Description="%s">' % (hl[1], hl[1]))
        elif kind in ("INFO", "FORMAT"):
            out.append('##%s=<ID=%s,Number=%s,Type=%s,Description="d">' % (kind, hl[1], hl[2], hl[3]))
        elif kind == "contig":
            out.append("##contig=<ID=%s>" % hl[1])
        else:
            raise ValueError("materialise: header line %r" % (hl,))
    cols = ["#CHROM", "POS", "ID", "REF", "ALT", "QUAL", "FILTER", "INFO"]
    if doc["samples"]:
        cols += ["FORMAT"] + list(doc["samples"])
    out.append("\t".join(cols))
    return out


def record_text(doc, r):
    info = ";".join(k if v is True else "%s=%s" % (k, _fmt_value(v)) for k, v in r.get("info", {}).items()) or "."
    cols = [
        r["chrom"],
        str(r["pos"]),
        r.get("id") or ".",
        r["ref"],
        ",".join(r["alts"]) if r.get("alts") else ".",
        _fmt_scalar(r.get("qual")),
        ";".join(r.get("filter") or []) or ".",
        info,
    ]
    if doc["samples"]:
        fmt = list(r.get("format") or [])
        cols.append(":".join(fmt) or ".")
        for c in r["calls"]:
            vals = []
            for k in fmt:
                vals.append(_fmt_gt(c) if k == "GT" else _fmt_value(c[k]))
            cols.append(":".join(vals) or ".")
    return "\t".join(cols)


def vcf_text(doc):
    lines = header_text(doc)
    for r in doc["records"]:
        lines.append(record_text(doc, r))
    return "\n".join(lines) + "\n"


def write_vcf(doc, path):
    with open(path, "w") as f:
        f.write(vcf_text(doc))
    return path


def _num(v):
    if isinstance(v, float) and v == int(v):
        return int(v)
    return v


def _val(v):
    if isinstance(v, tuple):
        return tuple(_num(x) for x in v)
    return _num(v)


def header_doc(header):
    out = []
    for hr in header.records:
        t = hr.type
        if t == "GENERIC":
            if hr.key == "fileformat":
                continue
            out.append(("GENERIC", hr.key, hr.value))
        elif t == "FILTER":
            if hr.get("ID") != "PASS":
                out.append(("FILTER", hr.get("ID")))
        elif t in ("INFO", "FORMAT"):
            out.append((t, hr.get("ID"), hr.get("Number"), hr.get("Type")))
        elif t == "CONTIG":
            out.append(("contig", hr.get("ID")))
        else:
            out.append((t, hr.key, hr.value))
    return out


def record_doc(r):
    calls = []
    for c in r.samples.values():
        cc = {}
        for k in c.keys():
            cc[k] = _val(c[k])
        cc["phased"] = bool(c.phased)
        calls.append(cc)
    return dict(
        chrom=r.chrom,
        pos=r.pos,
        id=r.id,
        ref=r.ref,
        alts=tuple(r.alts) if r.alts else None,
        qual=_num(r.qual),
        filter=[k for k in r.filter.keys() if k != "PASS"] if list(r.filter.keys()) != ["PASS"] else ["PASS"],
        info={k: _val(v) for k, v in r.info.items()},
        format=list(r.format.keys()),
        calls=calls,
    )


def read_vcf(path):
    import pysam

    with pysam.VariantFile(path) as f:
        doc = dict(samples=list(f.header.samples), header=header_doc(f.header), records=[])
        for r in f:
            doc["records"].append(record_doc(r))
    return doc
