"""Pure-Python stand-in for the data classes of the compiled `whatshap.core`
(Read, ReadSet, Genotype, PhredGenotypeLikelihoods, NumericSampleIds, Variant),
usable with symbolic field values.  It offers the Python API of core.pyx *and*
the C++ method names that DeCy-translated code calls through `thisptr`.

Trusted base of every check that uses it; each such check replays its paths on
the real compiled module, which is what validates this model.  The solver
classes (PedigreeDPTable, GenotypeDPTable, ...) are deliberately absent: code
that needs them gets a stub from the check itself."""
import math

from vf.pysym.engine import SymInt, SymBool, Unsupported, is_symbolic


class Variant:
    __slots__ = ("position", "allele", "quality")

    def __init__(self, position, allele, quality):
        self.position = position
        self.allele = allele
        self.quality = quality

    def __repr__(self):
        return "Variant(position=%r, allele=%r, quality=%r)" % (self.position, self.allele, self.quality)

    def __eq__(self, o):
        if not isinstance(o, Variant):
            return NotImplemented
        return bool(self.position == o.position) and bool(self.allele == o.allele) and bool(self.quality == o.quality)

    def __hash__(self):
        return hash((self.position, self.allele, self.quality))


class NumericSampleIds:
    def __init__(self):
        self.mapping = {}
        self.frozen = False

    def __getitem__(self, sample):
        if not self.frozen and sample not in self.mapping:
            self.mapping[sample] = len(self.mapping)
        return self.mapping[sample]

    def __len__(self):
        return len(self.mapping)

    def __str__(self):
        return str(self.mapping)

    def freeze(self):
        self.frozen = True

    def inverse_mapping(self):
        return {numeric_id: name for name, numeric_id in self.mapping.items()}


class Read:
    def __init__(self, name=None, mapq=0, source_id=0, sample_id=0, reference_start=-1, BX_tag=None, HP_tag=-1, PS_tag=-1):
        self._null = name is None
        self.name = name
        self._mapqs = [mapq]
        self.source_id = source_id
        self.sample_id = sample_id
        self.reference_start = reference_start
        self.BX_tag = BX_tag if (BX_tag != "" and BX_tag is not None) else ""
        self.HP_tag = HP_tag
        self.PS_tag = PS_tag
        self._vars = []  # [position, allele, quality]

    # -- Python API of core.pyx --------------------------------------------
    @property
    def mapqs(self):
        return tuple(self._mapqs)

    @property
    def thisptr(self):
        return self

    def __repr__(self):
        return "Read(name=%r, source_id=%r, sample_id=%r, variants=%r)" % (self.name, self.source_id, self.sample_id, self._vars)

    def __iter__(self):
        for i in range(len(self._vars)):
            yield self[i]

    def __len__(self):
        return len(self._vars)

    def __getitem__(self, key):
        if isinstance(key, slice):
            raise NotImplementedError("Read does not support slices")
        n = len(self._vars)
        key = key.__index__()
        if not (-n <= key < n):
            raise IndexError("Index out of bounds: {}".format(key))
        if key < 0:
            key = n + key
        p, a, q = self._vars[key]
        return Variant(position=p, allele=a, quality=q)

    def __setitem__(self, index, variant):
        n = len(self._vars)
        if not (-n <= index < n):
            raise IndexError("Index out of bounds: {}".format(index))
        if index < 0:
            index = n + index
        self._vars[index] = [variant.position, variant.allele, variant.quality]

    def __contains__(self, position):
        for p, a, q in self._vars:
            if p == position:
                return True
        return False

    def add_variant(self, position, allele, quality):
        self._vars.append([position, allele, quality])

    def add_mapq(self, mapq):
        self._mapqs.append(mapq)

    def sort(self):
        self._vars.sort(key=lambda v: _Key(v[0]))
        for i in range(1, len(self._vars)):
            if self._vars[i - 1][0] == self._vars[i][0]:
                raise RuntimeError("Duplicate variant in read %s at position %s" % (self.name, self._vars[i][0]))

    def is_sorted(self):
        for i in range(1, len(self._vars)):
            if not (self._vars[i - 1][0] < self._vars[i][0]):
                return False
        return True

    def has_BX_tag(self):
        return self.BX_tag != ""

    # (sic) core.pyx answers all three with hasBXTag()
    def has_HP_tag(self):
        return self.BX_tag != ""

    def has_PS_tag(self):
        return self.BX_tag != ""

    def copy(self):
        r = Read(self.name, 0, self.source_id, self.sample_id, self.reference_start, self.BX_tag, self.HP_tag, self.PS_tag)
        r._mapqs = list(self._mapqs)
        r._vars = [list(v) for v in self._vars]
        r._null = self._null
        return r

    # -- C++ API (cpp.Read*) --------------------------------------------------
    def getVariantCount(self):
        return len(self._vars)

    def getPosition(self, i):
        return self._vars[i][0]

    def getAllele(self, i):
        return self._vars[i][1]

    def getVariantQuality(self, i):
        return self._vars[i][2]

    def getSourceID(self):
        return self.source_id

    def getSampleID(self):
        return self.sample_id

    def getName(self):
        return self.name

    def firstPosition(self):
        if not self._vars:
            raise RuntimeError("No variants present")
        return self._vars[0][0]

    def lastPosition(self):
        if not self._vars:
            raise RuntimeError("No variants present")
        return self._vars[-1][0]


class _Key:
    """sort key wrapper comparing possibly symbolic ints with `<` only"""

    __slots__ = ("v",)

    def __init__(self, v):
        self.v = v

    def __lt__(self, o):
        return bool(self.v < o.v)


class ReadSet:
    """Reads in insertion order; sort() orders by first position, ties broken by a
    name/source order that stands for the C++ hash order (a fixed total order
    on (name, source_id); checks that depend on the tie order must not use
    this model - C16 treats it with LLSym)."""

    def __init__(self):
        self._reads = []
        self._names = {}

    @property
    def thisptr(self):
        return self

    def add(self, read):
        key = (read.name, read.source_id)
        for k in self._names:
            if k[0] == key[0] and bool(k[1] == key[1]):
                raise RuntimeError("ReadSet::add: duplicate read name.")
        self._names[key] = len(self._reads)
        self._reads.append(read.copy())

    def __iter__(self):
        for r in list(self._reads):
            yield r

    def __len__(self):
        return len(self._reads)

    def __getitem__(self, key):
        if isinstance(key, slice):
            raise NotImplementedError("ReadSet does not support slices")
        if isinstance(key, (int, SymInt)):
            return self._reads[key.__index__()]
        if isinstance(key, str):
            raise NotImplementedError("Querying a ReadSet by read name is deprecated, please query by (source_id, name) instead")
        if isinstance(key, tuple) and len(key) == 2:
            for r in self._reads:
                if r.name == key[1] and bool(r.source_id == key[0]):
                    return r
            raise KeyError(key)
        raise AssertionError("Invalid key: {}".format(key))

    def __str__(self):
        return "ReadSet:\n" + "".join("  %5d %r\n" % (i, r) for i, r in enumerate(self._reads))

    def sort(self):
        def lt(r1, r2):
            if len(r1._vars) > 0 or len(r2._vars) > 0:
                if len(r1._vars) == 0:
                    return True
                if len(r2._vars) == 0:
                    return False
                if bool(r1._vars[0][0] != r2._vars[0][0]):
                    return bool(r1._vars[0][0] < r2._vars[0][0])
            if r1.name != r2.name:
                return r1.name < r2.name
            return bool(r1.source_id < r2.source_id)

        class K:
            __slots__ = ("r",)

            def __init__(self, r):
                self.r = r

            def __lt__(self, o):
                return lt(self.r, o.r)

        self._reads.sort(key=K)
        self._names = {(r.name, r.source_id): i for i, r in enumerate(self._reads)}

    def subset(self, reads_to_select):
        idx = sorted(set(int(i) for i in reads_to_select))
        res = ReadSet()
        for i in idx:
            res.add(self._reads[i])
        return res

    def get_positions(self):
        pos = []
        for r in self._reads:
            for p, a, q in r._vars:
                if not any(bool(p == x) for x in pos):
                    pos.append(p)
        pos.sort(key=_Key)
        return pos

    # -- C++ API ------------------------------------------------------------
    def get(self, i):
        return self._reads[i.__index__() if not isinstance(i, int) else i]

    def size(self):
        return len(self._reads)


def binomial_coefficient(n, k):
    if k < 0 or k > n:
        return 0
    return math.comb(n, k)


MAX_PLOIDY = 14
MAX_ALLELES = 16


class Genotype:
    """Allele multiset; canonical VCF index by the combinatorial number system.
    Alleles are concrete ints here (genotypes are enumerated, not symbolic)."""

    __slots__ = ("alleles",)

    def __init__(self, alleles):
        alleles = [a.__index__() for a in alleles]
        if len(alleles) >= MAX_PLOIDY:
            raise RuntimeError("Error: Maximum ploidy for genotype exceeded!")
        for a in alleles:
            if a >= MAX_ALLELES or a < 0:
                raise RuntimeError("Error: Maximum alleles for genotype exceeded!")
        self.alleles = tuple(sorted(alleles))

    def __str__(self):
        if not self.alleles:
            return "."
        return "/".join(str(a) for a in self.alleles)

    __repr__ = __str__

    def is_none(self):
        return len(self.alleles) == 0

    def get_index(self):
        idx = 0
        for k, a in enumerate(self.alleles, start=1):
            idx += binomial_coefficient(k + a - 1, a - 1)
        return idx

    def as_vector(self):
        # the C++ class stores the largest allele at position 0
        return list(reversed(self.alleles))

    def is_homozygous(self):
        if not self.alleles:
            return False
        return all(a == self.alleles[0] for a in self.alleles)

    def is_diploid_and_biallelic(self):
        return len(self.alleles) == 2 and all(a <= 1 for a in self.alleles)

    def get_ploidy(self):
        return len(self.alleles)

    def __eq__(self, g):
        if not isinstance(g, Genotype):
            raise TypeError("Argument 'g' has incorrect type")
        return self.alleles == g.alleles

    def __ne__(self, g):
        if not isinstance(g, Genotype):
            raise TypeError("Argument 'g' has incorrect type")
        return self.alleles != g.alleles

    def __lt__(self, g):
        return self.get_index() < g.get_index()

    def __hash__(self):
        return hash(self.get_index())

    def __deepcopy__(self, memo):
        return Genotype(list(self.alleles))

    def __getstate__(self):
        return (self.get_index(), self.get_ploidy())


def get_max_genotype_ploidy():
    return MAX_PLOIDY


def get_max_genotype_alleles():
    return MAX_ALLELES


class PhredGenotypeLikelihoods:
    def __init__(self, gl, ploidy=2, nr_alleles=2):
        self.gl = list(gl)
        self.ploidy = ploidy
        self.nr_alleles = nr_alleles

    def genotypes(self):
        import itertools

        gts = [Genotype(list(c)) for c in itertools.combinations_with_replacement(range(self.nr_alleles), self.ploidy)]
        gts.sort(key=lambda g: g.get_index())
        return gts

    def __getitem__(self, genotype):
        assert genotype.is_diploid_and_biallelic()
        return self.gl[genotype.get_index()]

    def __len__(self):
        return len(self.gl)

    def __iter__(self):
        for g in self.genotypes():
            yield self[g]

    def __eq__(self, other):
        return self.gl == other.gl and self.ploidy == other.ploidy


class _Absent:
    def __init__(self, name):
        self._name = name

    def __call__(self, *a, **k):
        raise Unsupported("whatshap.core.%s is not modelled (the check must stub it)" % self._name)


PedigreeDPTable = _Absent("PedigreeDPTable")
GenotypeDPTable = _Absent("GenotypeDPTable")
Pedigree = _Absent("Pedigree")
HapChatCore = _Absent("HapChatCore")
PedMecHeuristic = _Absent("PedMecHeuristic")
Caller = _Absent("Caller")
compute_genotypes = _Absent("compute_genotypes")
