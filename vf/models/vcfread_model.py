"""Read-only model of the part of pysam.VariantFile that `whatshap.vcf.VcfReader`
touches (header.samples, header.contigs, .index, iteration over records,
record.{chrom,start,ref,alts,samples}, call.get / call[key] / call.phased),
plus a materialiser that writes the same content as VCF text, so that every
explored path can be replayed through the *real* pysam + VcfReader.

Record positions may be symbolic (SymInt); everything else is concrete.

The model encodes these observed pysam 0.24.1 facts (DESIGN Appendix A); they are
re-validated on every replay because the replay parses the materialised text
with real pysam:
  * GT `./.` -> (None, None), phased False; `0/.` -> (0, None), phased False;
    `.|1` -> (None, 1), phased True
  * a FORMAT key that the record does not carry: call.get(k, d) -> d,
    call[k] -> KeyError('invalid FORMAT: k')
  * a key that is present with value `.`: Integer -> None; String Number=. -> ('.',)
  * HP `7-1,7-2` (String, Number=.) -> ('7-1', '7-2')
"""

FILES = {}  # path -> VcfContent (registered by the check, consumed by VariantFile)


class Contig:
    def __init__(self, name, length=None):
        self.name = name
        self.length = length


class Header:
    def __init__(self, samples, contigs):
        self.samples = list(samples)
        self.contigs = {c.name: c for c in contigs}


class Call:
    """One sample column of one record.  `fields` is an ordered mapping
    FORMAT key -> parsed value, the way pysam hands it out."""

    def __init__(self, fields, phased):
        self._fields = fields
        self.phased = phased

    def get(self, key, default=None):
        if key not in self._fields:
            return default
        return self._fields[key]

    def __getitem__(self, key):
        if key not in self._fields:
            raise KeyError("invalid FORMAT: %s" % key)
        return self._fields[key]

    def __contains__(self, key):
        return key in self._fields

    def keys(self):
        return list(self._fields)


class Samples:
    def __init__(self, names, calls):
        self._names = list(names)
        self._calls = list(calls)

    def values(self):
        return list(self._calls)

    def keys(self):
        return list(self._names)

    def items(self):
        return list(zip(self._names, self._calls))

    def __len__(self):
        return len(self._calls)

    def __getitem__(self, k):
        if isinstance(k, str):
            return self._calls[self._names.index(k)]
        return self._calls[k]

    def __iter__(self):
        return iter(self._names)


class Record:
    def __init__(self, chrom, start, ref, alts, samples):
        self.chrom = chrom
        self.start = start  # 0-based, may be symbolic
        self.ref = ref
        self.alts = tuple(alts) if alts else None
        self.samples = samples

    @property
    def pos(self):
        return self.start + 1


def parse_gt(text):
    """'0|1' -> ((0, 1), True) with pysam's rule: phased iff every separator is '|'
    (a single allele counts as phased)."""
    seps = [c for c in text if c in "/|"]
    alleles = tuple(None if a == "." else int(a) for a in text.replace("|", "/").split("/"))
    return alleles, all(s == "|" for s in seps)


class RecordSpec:
    """Concrete description of one record: chrom, start (may be symbolic), ref, alt, gt text, ordered extra FORMAT
    fields [(key, text)] of the first sample; `more`: [(gt text, extra)] for further sample columns.  The record's FORMAT is
    GT followed by the union of the extra keys in order of appearance; a sample without a value for a key shows `.`."""

    def __init__(self, chrom, start, ref, alt, gt, extra=(), more=()):
        self.chrom, self.start, self.ref, self.alt, self.gt, self.extra = chrom, start, ref, alt, gt, list(extra)
        self.more = [(g, list(x)) for g, x in more]

    def _columns(self):
        cols = [(self.gt, self.extra)] + self.more
        keys = []
        for _, extra in cols:
            for k, _t in extra:
                if k not in keys:
                    keys.append(k)
        return cols, keys

    def to_record(self, sample_names):
        cols, keys = self._columns()
        calls = []
        for gt_text, extra in cols:
            gt, phased = parse_gt(gt_text)
            fields = {"GT": gt}
            given = dict(extra)
            for k in keys:
                text = given.get(k, ".")
                if k == "PS":
                    fields[k] = None if text == "." else int(text)
                elif k == "HP":
                    fields[k] = tuple(text.split(","))  # '.' -> ('.',)
                else:
                    raise ValueError("FORMAT key %s not modelled" % k)
            calls.append(Call(fields, phased))
        return Record(self.chrom, self.start, self.ref, [self.alt], Samples(sample_names, calls))

    def to_line(self):
        cols, keys = self._columns()
        fmt = ":".join(["GT"] + keys)
        vals = [":".join([gt] + [dict(extra).get(k, ".") for k in keys]) for gt, extra in cols]
        return "\t".join([self.chrom, str(int(self.start) + 1), ".", self.ref, self.alt, ".", ".", ".", fmt] + vals)


class VcfContent:
    def __init__(self, sample, contigs, records, indexed=False, more_samples=()):
        self.sample = sample
        self.samples = [sample] + list(more_samples)  # column order
        self.contigs = list(contigs)  # [(name, length or None)]
        self.records = list(records)  # [RecordSpec] in file order
        self.indexed = indexed  # stands for a bgzip-compressed file with a .tbi/.csi next to it

    def text(self):
        lines = ["##fileformat=VCFv4.2"]
        for name, length in self.contigs:
            lines.append("##contig=<ID=%s%s>" % (name, ",length=%d" % length if length is not None else ""))
        lines.append('##FORMAT=<ID=GT,Number=1,Type=String,Description="Genotype">')
        lines.append('##FORMAT=<ID=PS,Number=1,Type=Integer,Description="Phase set">')
        lines.append('##FORMAT=<ID=HP,Number=.,Type=String,Description="Phasing haplotype identifier">')
        lines.append("\t".join(["#CHROM", "POS", "ID", "REF", "ALT", "QUAL", "FILTER", "INFO", "FORMAT"] + self.samples))
        for r in self.records:
            lines.append(r.to_line())
        return "\n".join(lines) + "\n"


class VariantFile:
    """Stands for pysam.VariantFile(path) opened for reading a plain VCF (content.indexed False) or a bgzipped, tabix-indexed
    one (content.indexed True: .index is set and fetch(contig, start, stop) returns the overlapping records in file order)."""

    def __init__(self, path, *a, **k):
        content = FILES[path]
        self._content = content
        self.filename = path.encode()
        names = list(getattr(content, "samples", [content.sample]))
        self.header = Header(names, [Contig(n, l) for n, l in content.contigs])
        self.index = object() if getattr(content, "indexed", False) else None
        self._records = [r.to_record(names) for r in content.records]

    def __iter__(self):
        return iter(self._records)

    def fetch(self, contig=None, start=None, stop=None, *a, **k):
        if self.index is None:
            raise ValueError("fetch requires an index")
        if contig not in [n for n, _ in self._content.contigs]:
            raise ValueError("invalid contig `%s`" % contig)
        lo = 0 if start is None else start
        out = []
        for spec, rec in zip(self._content.records, self._records):
            if spec.chrom != contig:
                continue
            b = int(spec.start)
            e = b + len(spec.ref)
            if e > lo and (stop is None or b < stop):
                out.append(rec)
        return iter(out)

    def close(self):
        pass

    def __enter__(self):
        return self

    def __exit__(self, *a):
        self.close()
