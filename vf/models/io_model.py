"""In-memory stand-ins for the file layer used by `whatshap split` (C14):
`xopen.xopen`, builtin `open` (only os.devnull and virtual files), `pysam.FastxFile`,
`pysam.AlignmentFile` (unaligned reads as opaque tokens) and
`whatshap.utils.detect_file_format`.

Everything lives in a `VFS` (path -> str for text files, path -> list of
`BamToken` for BAM files).  The stand-ins look the *current* VFS up through a
`Holder`, so that one SymWorld (loaded once per worker) can be re-used for every
explored path: `holder.vfs = VFS()` before each run.

What is modelled (trusted base; every explored path is replayed through the
real xopen/pysam on real files, which is what validates these facts):
  * text files are `io.StringIO` objects (real readline/seek/iteration/print);
    a file opened for writing appears in the VFS when it is closed;
  * `FastxFile` parses well-formed 4-line FASTQ; a record's `str()` is pysam's
    `FastxRecord.__str__`: "@name comment\\nseq\\n+\\nqual", or the FASTA form
    ">name comment\\nseq" when the quality string is empty (kseq reports an empty
    quality as None);
  * `AlignmentFile` iterates / collects `BamToken`s; a token has `query_name`,
    `query_length`, `infer_query_length()` and the SAM text it stands for.
"""
import io
import os
import types


class VFS:
    def __init__(self):
        self.files = {}

    def text(self, path):
        v = self.files[path]
        if not isinstance(v, str):
            raise IOError("io_model: %s is not a text file" % path)
        return v


class Holder:
    vfs = None


class _TextWriter(io.StringIO):
    def __init__(self, vfs, path):
        super().__init__()
        self._vfs = vfs
        self._path = path

    def close(self):
        if not self.closed and self._path is not None:
            self._vfs.files[self._path] = self.getvalue()
        super().close()


class BamToken:
    """One unaligned BAM record: opaque to the code under test except for the
    three attributes `_bam_iterator` reads."""

    def __init__(self, idx, name, seq_len, cigar_len, text):
        self.idx = idx
        self.query_name = name
        self.query_length = seq_len
        self._cigar_len = cigar_len
        self.text = text

    def infer_query_length(self):
        return self._cigar_len if self._cigar_len else None


class FastxRecord:
    def __init__(self, name, comment, sequence, quality):
        self.name = name
        self.comment = comment
        self.sequence = sequence
        self.quality = quality

    def __str__(self):
        comment = "" if self.comment is None else " %s" % self.comment
        if self.quality is None:
            return ">%s%s\n%s" % (self.name, comment, self.sequence)
        return "@%s%s\n%s\n+\n%s" % (self.name, comment, self.sequence, self.quality)


def parse_fastq(text):
    lines = text.split("\n")
    if lines and lines[-1] == "":
        lines.pop()
    if len(lines) % 4:
        raise ValueError("io_model: FASTQ text is not made of 4-line records")
    out = []
    for k in range(0, len(lines), 4):
        head, seq, plus, qual = lines[k : k + 4]
        if not head.startswith("@") or not plus.startswith("+") or len(seq) != len(qual):
            raise ValueError("io_model: malformed FASTQ record")
        name, _, comment = head[1:].partition(" ")
        out.append(FastxRecord(name, comment if comment else None, seq, qual if qual else None))
    return out


def build(holder):
    """Returns a namespace with xopen, open, pysam (module-like), detect_file_format
    bound to `holder`."""

    def xopen(path, mode="r", **kwargs):
        path = os.fspath(path)
        if "b" in mode:
            raise IOError("io_model: binary xopen is not modelled")
        if mode.startswith("w"):
            return _TextWriter(holder.vfs, None if path == os.devnull else path)
        return io.StringIO(holder.vfs.text(path))

    def open_(path, mode="r", *a, **kw):
        path = os.fspath(path)
        if path == os.devnull and mode.startswith("w"):
            return _TextWriter(holder.vfs, None)
        if path in holder.vfs.files or mode.startswith("w"):
            return xopen(path, mode)
        raise IOError("io_model: open(%r) outside the virtual file system" % path)

    class FastxFile:
        def __init__(self, path, *a, **kw):
            self._records = parse_fastq(holder.vfs.text(os.fspath(path)))

        def __enter__(self):
            return self

        def __exit__(self, *exc):
            return False

        def close(self):
            pass

        def __iter__(self):
            return iter(self._records)

    class AlignmentFile:
        def __init__(self, path, mode="r", template=None, check_sq=True, **kw):
            path = os.fspath(path)
            self._mode = mode
            self._path = path
            if mode.startswith("w"):
                if template is None and "header" not in kw:
                    raise ValueError("io_model: AlignmentFile opened for writing without template/header")
                self._tokens = []
            else:
                v = holder.vfs.files[path]
                if isinstance(v, str):
                    raise ValueError("io_model: %s is not a BAM file" % path)
                self._tokens = list(v)

        def __enter__(self):
            return self

        def __exit__(self, *exc):
            self.close()
            return False

        def close(self):
            if self._mode.startswith("w") and self._path != os.devnull:
                holder.vfs.files[self._path] = list(self._tokens)

        def __iter__(self):
            return iter(self._tokens)

        def write(self, token):
            if not isinstance(token, BamToken):
                raise TypeError("io_model: AlignmentFile.write() of %r" % (token,))
            self._tokens.append(token)

    def detect_file_format(path):
        v = holder.vfs.files[os.fspath(path)]
        return None if isinstance(v, str) else "BAM"

    pysam = types.ModuleType("pysam")
    pysam.FastxFile = FastxFile
    pysam.AlignmentFile = AlignmentFile
    xopen_mod = types.ModuleType("xopen")
    xopen_mod.xopen = xopen
    return types.SimpleNamespace(
        xopen=xopen, xopen_module=xopen_mod, open=open_, pysam=pysam, detect_file_format=detect_file_format
    )
