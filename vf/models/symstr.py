"""SymStr: a string of concrete length whose characters may be symbolic.

Stand-in for `str` where the repo's pure-Python / DeCy code slices, concatenates
and compares DNA strings (variants.py, vcf.py, _variants.pyx, align.pyx).  A
character is a code: a plain int (ord) or a SymInt.  Only the operations those
code paths use are offered; anything else raises Unsupported (harness error,
never a pass).  Comparisons return a plain bool when they can be decided from
the structure alone (different lengths, the same z3 term on both sides, a
concrete code outside the declared alphabet) and a SymBool otherwise.

Semantics follow Python's str: s[i] is a one-character string, negative
indices wrap, an index outside the string raises IndexError, slices clip.
"""
import z3

from vf.pysym.engine import SymInt, SymBool, Unsupported

# the codes a symbolic character can take; the harness that creates symbolic
# characters constrains them accordingly (c06: ACGT)
SYM_ALPHABET = frozenset(b"ACGT")


def char_eq(a, b):
    """Equality of two character codes: bool or SymBool."""
    ai, bi = isinstance(a, int), isinstance(b, int)
    if ai and bi:
        return a == b
    if not ai and not bi:
        if a.e.eq(b.e):
            return True
    elif ai:
        if a not in SYM_ALPHABET:
            return False
    elif b not in SYM_ALPHABET:
        return False
    return a == b


def codes_eq(x, y):
    """Equality of two code sequences: bool or SymBool (one conjunction)."""
    if len(x) != len(y):
        return False
    terms = []
    for a, b in zip(x, y):
        r = char_eq(a, b)
        if r is False:
            return False
        if r is not True:
            terms.append(r.e)
    if not terms:
        return True
    if len(terms) == 1:
        return SymBool(terms[0])
    return SymBool(z3.And(*terms))


def _codes(o):
    if isinstance(o, SymStr):
        return o.c
    if isinstance(o, str):
        return [ord(ch) for ch in o]
    if isinstance(o, (bytes, bytearray)):
        return list(o)
    return None


class SymStr:
    __slots__ = ("c",)

    def __init__(self, codes=()):
        if isinstance(codes, str):
            codes = [ord(ch) for ch in codes]
        self.c = list(codes)

    # -- size / truth -----------------------------------------------------------
    def __len__(self):
        return len(self.c)

    def __bool__(self):
        return len(self.c) > 0

    # -- element access -----------------------------------------------------------
    def __getitem__(self, i):
        if isinstance(i, slice):
            return SymStr(self.c[i])
        if not isinstance(i, int):
            i = i.__index__()
        return SymStr([self.c[i]])  # IndexError like str

    def __iter__(self):
        for x in self.c:
            yield SymStr([x])

    # -- concatenation --------------------------------------------------------------
    def __add__(self, o):
        oc = _codes(o)
        if oc is None:
            return NotImplemented
        return SymStr(self.c + oc)

    def __radd__(self, o):
        oc = _codes(o)
        if oc is None:
            return NotImplemented
        return SymStr(oc + self.c)

    def __mul__(self, n):
        return SymStr(self.c * n)

    # -- comparison -------------------------------------------------------------------
    def __eq__(self, o):
        oc = _codes(o)
        if oc is None:
            return False
        return codes_eq(self.c, oc)

    def __ne__(self, o):
        r = self.__eq__(o)
        if isinstance(r, bool):
            return not r
        return SymBool(z3.Not(r.e))

    def __hash__(self):
        if all(isinstance(x, int) for x in self.c):
            return hash("".join(map(chr, self.c)))
        raise Unsupported("hash of a string with symbolic characters")

    def _order(self, o):
        raise Unsupported("ordering of strings with symbolic characters")

    __lt__ = __le__ = __gt__ = __ge__ = _order

    def __contains__(self, o):
        oc = _codes(o)
        if oc is None:
            raise Unsupported("SymStr.__contains__ of %r" % (o,))
        n = len(oc)
        for k in range(len(self.c) - n + 1):
            if codes_eq(self.c[k : k + n], oc):
                return True
        return False

    # -- str methods used by the repo -----------------------------------------------------
    def startswith(self, prefix):
        if isinstance(prefix, tuple):
            for p in prefix:
                if self.startswith(p):
                    return True
            return False
        pc = _codes(prefix)
        if pc is None:
            raise Unsupported("SymStr.startswith(%r)" % (prefix,))
        return codes_eq(self.c[: len(pc)], pc)

    def endswith(self, suffix):
        sc = _codes(suffix)
        if sc is None:
            raise Unsupported("SymStr.endswith(%r)" % (suffix,))
        if len(sc) > len(self.c):
            return False
        return codes_eq(self.c[len(self.c) - len(sc) :], sc)

    def encode(self, *a):
        from vf.decy.shims import SymBytes

        return SymBytes(self.c)

    def concrete(self):
        return all(isinstance(x, int) for x in self.c)

    def __str__(self):
        if self.concrete():
            return "".join(map(chr, self.c))
        raise Unsupported("str() of a string with symbolic characters")

    def __repr__(self):
        return "SymStr(%r)" % "".join(chr(x) if isinstance(x, int) else "?" for x in self.c)

    def __format__(self, spec):
        return format(str(self), spec)
