"""Common driver: job fan-out over 16 processes, replay, known findings,
evidence, exit codes (see DESIGN.md appendix B)."""
import os
import sys
import json
import time
import re
import hashlib
import importlib
import traceback
import multiprocessing as mp

VERIF = os.path.dirname(os.path.dirname(os.path.abspath(__file__)))
REPO = os.environ.get("VERIF_REPO", "/repo")
EXIT_OK, EXIT_VIOLATION, EXIT_HARNESS = 0, 1, 3


def src_hash(paths):
    h = hashlib.sha256()
    for p in paths:
        fp = p if os.path.isabs(p) else os.path.join(REPO, p)
        try:
            h.update(open(fp, "rb").read())
        except OSError:
            h.update(b"<missing>")
    return h.hexdigest()[:16]


class JobResult(dict):
    """keys: sub, shape, stats, violations, samples, cover, errors, replays,
    obligations, discharged, inconclusive, wall_s"""


class SubCheck:
    """One harness family of a property.  Subclasses define shapes() and
    harness(); PySym exploration + per-path replay is the default run()."""

    name = "sub"
    encoded = []  # functions executed symbolically (for the evidence)
    sources = []  # repo files the encoding is regenerated from
    assumptions = []
    stubs = []
    required_cover = []
    hash_mode = "const"
    replay_every = 1  # replay every k-th ok path (violations are always replayed)
    max_decisions = 5000

    def shapes(self, tier):
        return [{}]

    def bounds(self, tier):
        return ""

    def setup(self):
        """Called once per worker process before the first job."""

    def harness(self, e, shape, impl):
        raise NotImplementedError

    def sym_impl(self):
        return None

    def real_impl(self):
        return None

    def budget(self, tier):
        return 600 if tier == "quick" else 3600

    def classify(self, shape, violation):
        """Signature used to match known findings; override for finer keys."""
        return "%s:%s" % (self.name, violation["msg"])

    # -- default PySym run ---------------------------------------------------
    def run(self, shape, tier, seed):
        from vf.pysym.engine import Engine, run_concrete, Violation

        simpl = self.sym_impl()
        rimpl = self.real_impl()
        eng = Engine(
            time_budget_s=self.budget(tier),
            hash_mode=self.hash_mode,
            max_decisions=self.max_decisions,
        )
        res = dict(replays=0, replay_mismatch=[], samples=[], viol=[])
        counter = [0]

        def fn(e):
            return self.harness(e, shape, simpl)

        def on_path(e, status, result):
            counter[0] += 1
            do_replay = status == "violation" or (counter[0] % self.replay_every == 0)
            take_sample = len(res["samples"]) < 3 and (status == "ok")
            if not (do_replay or take_sample):
                return
            w = e.witness()
            if take_sample:
                res["samples"].append(dict(sub=self.name, shape=shape, witness=w, status=status))
            if not do_replay:
                return
            sym_out = [(n, _norm(e.value(v))) for n, v in e.outputs]
            try:
                cst, cdetail, cout = run_concrete(lambda ce: self.harness(ce, shape, rimpl), w)
            except Exception as ex:  # real code raised outside the harness' own handling
                cst, cdetail, cout = "error", "%s: %s" % (type(ex).__name__, ex), []
            cout = [(n, _norm(v)) for n, v in cout]
            res["replays"] += 1
            if status == "ok":
                if cst != "ok" or cout != sym_out:
                    res["replay_mismatch"].append(
                        dict(shape=shape, witness=w, symbolic=["ok", sym_out], concrete=[cst, cdetail, cout])
                    )
            else:
                v = dict(
                    sub=self.name,
                    shape=shape,
                    witness=w,
                    msg=result.msg,
                    info=_norm(result.info),
                    reproduced=(cst == "violation"),
                    concrete=[cst, cdetail],
                )
                res["viol"].append(v)

        eng.explore(fn, on_path)
        st = eng.stats
        errors = list(eng.errors[:5])
        for mm in res["replay_mismatch"][:3]:
            errors.append("replay mismatch: %s" % json.dumps(mm, default=str)[:1500])
        return JobResult(
            sub=self.name,
            shape=shape,
            stats=st,
            violations=res["viol"],
            samples=res["samples"],
            cover=eng.cover_hits,
            errors=errors,
            replays=res["replays"],
            obligations=st["paths"],
            discharged=st["paths_ok"] + st["paths_vacuous"],
            inconclusive=st["cut"] + st["unknown"],
            wall_s=st.get("wall_s", 0.0),
        )

    def replay(self, shape, witness):
        """Re-run one stored scenario against the real build."""
        from vf.pysym.engine import run_concrete

        rimpl = self.real_impl()
        return run_concrete(lambda ce: self.harness(ce, shape, rimpl), witness)


def _norm(v):
    """JSON-friendly, order-stable normal form for comparing outputs."""
    import fractions

    if isinstance(v, fractions.Fraction):
        return ["frac", v.numerator, v.denominator] if v.denominator != 1 else int(v)
    if isinstance(v, float):
        if v == int(v) and abs(v) < 1e15:
            return int(v)
        return v
    if isinstance(v, (list, tuple)):
        return [_norm(x) for x in v]
    if isinstance(v, dict):
        return {str(k): _norm(x) for k, x in sorted(v.items(), key=lambda kv: str(kv[0]))}
    if isinstance(v, (set, frozenset)):
        return sorted((_norm(x) for x in v), key=repr)
    if isinstance(v, bool) or v is None or isinstance(v, (int, str)):
        return v
    return repr(v)


_WORKER = {}


def _worker(args):
    modname, subname, shape, tier, seed = args
    t0 = time.time()
    try:
        mod = importlib.import_module(modname)
        key = (modname, subname)
        if key not in _WORKER:
            from vf import build

            build.prepare_repo()  # VERIF_REPO (seed trials): the real pure-Python modules must come from that copy as well
            sub = mod.SUBCHECKS[subname]
            sub.setup()
            _WORKER[key] = sub
        sub = _WORKER[key]
        r = sub.run(shape, tier, seed)
        r["wall_s"] = time.time() - t0
        return r
    except BaseException as ex:  # noqa
        return JobResult(
            sub=subname,
            shape=shape,
            stats={},
            violations=[],
            samples=[],
            cover={},
            errors=["job crashed: %s\n%s" % (ex, traceback.format_exc()[-3000:])],
            replays=0,
            obligations=0,
            discharged=0,
            inconclusive=0,
            wall_s=time.time() - t0,
        )


def load_known():
    out = []
    p = os.path.join(VERIF, "known_findings.jsonl")
    if os.path.exists(p):
        for line in open(p):
            line = line.strip()
            if line.startswith("{"):
                out.append(json.loads(line))
    return out


def match_known(known, prop, sig):
    for k in known:
        if k.get("status") == "known" and k.get("property") == prop and re.search(k["match"], sig):
            return k
    return None


def main(modname, argv=None):
    import argparse

    mod = importlib.import_module(modname)
    prop = mod.PROPERTY
    ap = argparse.ArgumentParser()
    ap.add_argument("--tier", default=os.environ.get("VERIF_TIER", "quick"))
    ap.add_argument("--replay")
    ap.add_argument("--only", help="comma separated subcheck names")
    ap.add_argument("--jobs", type=int, default=int(os.environ.get("VERIF_JOBS", "16")))
    ap.add_argument("--no-evidence", action="store_true")
    ap.add_argument("--shapes", help="python expression over the shape dict `s` selecting the shapes to run (development aid; implies --no-evidence)")
    a = ap.parse_args(argv)
    if a.shapes:
        a.no_evidence = True
        os.environ["VERIF_PARTIAL"] = "1"
    tier = a.tier if a.tier in ("quick", "thorough") else "quick"
    seed = int(os.environ.get("VERIF_SEED", "0") or 0)

    if a.replay:
        sc = json.load(open(a.replay))
        sub = mod.SUBCHECKS[sc["sub"]]
        sub.setup()
        st, detail, outs = sub.replay(sc["shape"], sc["witness"])
        print("replay %s: %s %s" % (a.replay, st, detail or ""))
        for n, v in outs:
            print("  out %s = %r" % (n, v))
        return EXIT_VIOLATION if st == "violation" else EXIT_OK

    t0 = time.time()
    subs = mod.SUBCHECKS
    if a.only:
        subs = {k: v for k, v in subs.items() if k in a.only.split(",")}
    jobs = []
    for name, sub in subs.items():
        for shape in sub.shapes(tier):
            if a.shapes and not eval(a.shapes, {"s": shape}):
                continue
            jobs.append((modname, name, shape, tier, seed))
    results = []
    if a.jobs <= 1 or len(jobs) == 1:
        for j in jobs:
            results.append(_worker(j))
    else:
        ctx = mp.get_context("fork")
        with ctx.Pool(min(a.jobs, len(jobs)), maxtasksperchild=None) as pool:
            for r in pool.imap_unordered(_worker, jobs, chunksize=1):
                results.append(r)
    return finish(mod, prop, tier, seed, subs, results, t0, write=not a.no_evidence)


def finish(mod, prop, tier, seed, subs, results, t0, write=True):
    known = load_known()
    errors = []
    tot = dict(paths=0, decisions=0, solver_queries=0, solver_s=0.0, replays=0, obligations=0, discharged=0, inconclusive=0)
    cover = {}
    samples = []
    per_sub = {}
    new_viol, known_hits = [], {}
    unreproduced = []
    slow = []
    for r in results:
        st = r.get("stats") or {}
        tot["paths"] += st.get("paths", 0)
        tot["decisions"] += st.get("decisions", 0)
        tot["solver_queries"] += st.get("solver_queries", 0)
        tot["solver_s"] += st.get("solver_s", 0.0)
        tot["replays"] += r.get("replays", 0)
        tot["obligations"] += r.get("obligations", 0)
        tot["discharged"] += r.get("discharged", 0)
        tot["inconclusive"] += r.get("inconclusive", 0)
        ps = per_sub.setdefault(r["sub"], dict(shapes=0, paths=0, obligations=0, discharged=0, inconclusive=0, solver_queries=0, solver_s=0.0, wall_s=0.0, violations=0))
        ps["shapes"] += 1
        ps["paths"] += st.get("paths", 0)
        ps["obligations"] += r.get("obligations", 0)
        ps["discharged"] += r.get("discharged", 0)
        ps["inconclusive"] += r.get("inconclusive", 0)
        ps["solver_queries"] += st.get("solver_queries", 0)
        ps["solver_s"] = round(ps["solver_s"] + st.get("solver_s", 0.0), 3)
        ps["wall_s"] = round(ps["wall_s"] + r.get("wall_s", 0.0), 3)
        ps["violations"] += len(r.get("violations", []))
        slow.append((round(r.get("wall_s", 0.0), 1), r["sub"], json.dumps(r["shape"], default=str)[:160]))
        for k, v in (r.get("cover") or {}).items():
            cover[r["sub"] + ":" + k] = cover.get(r["sub"] + ":" + k, 0) + v
        for s in r.get("samples", []):
            if len(samples) < 8:
                samples.append(s)
        for e in r.get("errors", []):
            errors.append("[%s %s] %s" % (r["sub"], json.dumps(r["shape"], default=str)[:200], e))
        for v in r.get("violations", []):
            sub = subs[v["sub"]]
            sig = v.get("sig") or sub.classify(v["shape"], v)
            v["sig"] = sig
            if not v.get("reproduced"):
                unreproduced.append(v)
                continue
            k = match_known(known, prop, sig)
            if k is not None:
                known_hits.setdefault(k["what"], []).append(v)
            else:
                new_viol.append(v)
    for name, sub in subs.items():
        for tag in sub.required_cover if not os.environ.get("VERIF_PARTIAL") else []:
            if cover.get(name + ":" + tag, 0) == 0:
                errors.append("[%s] required coverage tag never hit: %s" % (name, tag))
    for v in unreproduced[:5]:
        errors.append("counter-example did not reproduce on the real build (encoding or model is wrong): %s" % json.dumps(v, default=str)[:1500])

    os.makedirs(os.path.join(VERIF, "replays"), exist_ok=True)
    lines = []
    for what, vs in sorted(known_hits.items()):
        lines.append("KNOWN-FINDING: property=%s %s (%d reproduced scenario(s), e.g. %s)" % (prop, what, len(vs), json.dumps(vs[0]["witness"], default=str)[:300]))
    seen = set()
    nrep = 0
    for v in new_viol:
        if v["sig"] in seen:
            continue
        seen.add(v["sig"])
        nrep += 1
        path = os.path.join(VERIF, "replays", "%s-%s-%d.json" % (prop, tier, nrep))
        json.dump(dict(property=prop, sub=v["sub"], shape=v["shape"], witness=v["witness"], msg=v["msg"], info=v.get("info"), sig=v["sig"]), open(path, "w"), indent=1, default=str)
        lines.append("VIOLATION property=%s replay=%s" % (prop, path))
        lines.append("  what: %s | %s" % (v["msg"], json.dumps(v.get("info"), default=str)[:600]))
        if nrep >= 10:
            break
    wall = time.time() - t0
    encoded, sources, assumptions, stubs, bounds = [], [], [], [], {}
    for name, sub in subs.items():
        encoded += [x for x in sub.encoded if x not in encoded]
        sources += [x for x in sub.sources if x not in sources]
        assumptions += [x for x in sub.assumptions if x not in assumptions]
        stubs += [x for x in sub.stubs if x not in stubs]
        bounds[name] = sub.bounds(tier)
    ev = dict(
        property_id=prop,
        tier=tier,
        seed=seed,
        level="model_checking",
        coverage=dict(
            states=max(tot["paths"], tot["obligations"]),
            transitions=max(tot["decisions"], tot["solver_queries"]),
            traces_validated_against_impl=tot["replays"],
            samples=samples or [dict(note="no ok-path sample recorded")],
            obligations=tot["obligations"],
            discharged=tot["discharged"],
            inconclusive=tot["inconclusive"],
            exhaustive=(tot["inconclusive"] == 0 and not errors),
            solver_queries=tot["solver_queries"],
            solver_s=round(tot["solver_s"], 3),
            functions_encoded=encoded,
            source_files=sources,
            source_hash=src_hash(sources),
            bounds=bounds,
            per_subcheck=per_sub,
            slowest_jobs=sorted(slow, reverse=True)[:5],
            cover_tags=cover,
            stubs=stubs,
            known_findings_reproduced=sorted(known_hits),
            harness_errors=errors[:20],
            explanation="bounded symbolic execution; a state is one explored path (= one class of inputs the encoding distinguishes) or one discharged SMT obligation; a transition is one solver-decided branch / query",
        ),
        assumptions=assumptions,
        wall_s=round(wall, 3),
        violations=len(seen),
    )
    if write:
        os.makedirs(os.path.join(VERIF, "evidence"), exist_ok=True)
        json.dump(ev, open(os.path.join(VERIF, "evidence", prop + ".json"), "w"), indent=1, default=str)
    for l in lines:
        print(l)
    print("%s %s: %d jobs, %d paths/obligations, %d decisions, %d solver queries (%.1fs), %d replays, %d inconclusive, %d new violation(s), %d known, %.1fs wall" % (
        prop, tier, len(results), max(tot["paths"], tot["obligations"]), tot["decisions"], tot["solver_queries"], tot["solver_s"], tot["replays"], tot["inconclusive"], len(seen), len(known_hits), wall))
    if seen:
        return EXIT_VIOLATION
    if errors:
        for e in errors[:10]:
            print("HARNESS-ERROR " + e[:3000])
        return EXIT_HARNESS
    return EXIT_OK
