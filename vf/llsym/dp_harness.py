"""C++ harness generator for PedigreeDPTable instances (used by C01, C02a, C05a, C16b).

A *shape* fixes everything structural (reads x columns incidence, read ->
individual, pedigree, genotypes / distrust mode); alleles, weights,
recombination costs and phred likelihoods enter through sym_u32()."""


def positions(shape):
    return [10 * (c + 1) for c in range(shape["ncols"])]


def input_specs(shape):
    """[(name, lo, hi)] in the order the harness reads them."""
    out = []
    W = shape.get("W", 15)
    if shape.get("errorfree"):
        for c in range(shape["ncols"]):
            out.append(("h_%d" % c, 0, 1))
        for r in range(len(shape["reads"])):
            out.append(("s_%d" % r, 0, 1))
    for r, rd in enumerate(shape["reads"]):
        for c in rd["cols"]:
            fixed = (rd.get("alleles") or {}).get(str(c))
            if fixed is None and not shape.get("errorfree"):
                out.append(("a_%d_%d" % (r, c), 0, 1))
            fw = (rd.get("weights") or {}).get(str(c))
            if fw is None:
                out.append(("w_%d_%d" % (r, c), shape.get("Wmin", 0), W))
    for c in range(shape["ncols"]):
        out.append(("rc_%d" % c, 0, shape.get("Rc", 15)))
    if shape.get("distrust"):
        for i in range(len(shape["individuals"])):
            for c in range(shape["ncols"]):
                for g in range(3):
                    out.append(("gl_%d_%d_%d" % (i, c, g), 0, shape.get("G", 15)))
    return out


def generate(shape):
    pos = positions(shape)
    L = []
    A = L.append
    A('#include <vector>\n#include <string>\n#include "read.h"\n#include "readset.h"\n#include "pedigree.h"\n#include "pedigreedptable.h"\n#include "genotype.h"\n#include "phredgenotypelikelihoods.h"')
    A('extern "C" unsigned sym_u32(const char* name, unsigned lo, unsigned hi);')
    A('extern "C" void sym_out(const char* name, unsigned idx, unsigned v);')
    A('extern "C" void harness() {')
    A("  ReadSet* rs = new ReadSet();")
    W = shape.get("W", 15)
    if shape.get("errorfree"):
        # error-free reads: the allele of read r at column c is the true haplotype bit h_c, complemented when the read stems from haplotype 1
        for c in range(shape["ncols"]):
            A('  unsigned h_%d = sym_u32("h_%d", 0, 1);' % (c, c))
        for r in range(len(shape["reads"])):
            A('  unsigned s_%d = sym_u32("s_%d", 0, 1);' % (r, r))
    for r, rd in enumerate(shape["reads"]):
        A('  {')
        for c in rd["cols"]:
            fixed = (rd.get("alleles") or {}).get(str(c))
            if shape.get("errorfree"):
                A('    unsigned a_%d = (h_%d == s_%d) ? 0u : 1u;' % (c, c, r))
            elif fixed is None:
                A('    unsigned a_%d = sym_u32("a_%d_%d", 0, 1);' % (c, r, c))
            else:
                A('    unsigned a_%d = %d;' % (c, fixed))
            fw = (rd.get("weights") or {}).get(str(c))
            if fw is None:
                A('    unsigned w_%d = sym_u32("w_%d_%d", %d, %d);' % (c, r, c, shape.get("Wmin", 0), W))
            else:
                A('    unsigned w_%d = %d;' % (c, fw))
        A('    Read* r = new Read("r%d", 50, 0, %d);' % (r, rd["sample"]))
        for c in rd["cols"]:
            A('    r->addVariant(%d, a_%d, w_%d);' % (pos[c], c, c))
        A('    rs->add(r);')
        A('  }')
    A("  std::vector<unsigned int> recomb;")
    for c in range(shape["ncols"]):
        A('  { unsigned v = sym_u32("rc_%d", 0, %d); recomb.push_back(v); }' % (c, shape.get("Rc", 15)))
    A("  Pedigree* ped = new Pedigree();")
    for i, ind in enumerate(shape["individuals"]):
        A("  {")
        A("    std::vector<Genotype*> gts; std::vector<PhredGenotypeLikelihoods*> gls;")
        for c in range(shape["ncols"]):
            gt = shape["genotypes"][i][c]
            A("    gts.push_back(new Genotype(std::vector<unsigned int>{%d,%d}));" % (gt[0], gt[1]))
            if shape.get("distrust"):
                A('    { unsigned g0 = sym_u32("gl_%d_%d_0", 0, %d); unsigned g1 = sym_u32("gl_%d_%d_1", 0, %d); unsigned g2 = sym_u32("gl_%d_%d_2", 0, %d);' % (i, c, shape.get("G", 15), i, c, shape.get("G", 15), i, c, shape.get("G", 15)))
                A("      gls.push_back(new PhredGenotypeLikelihoods(std::vector<double>{(double)g0,(double)g1,(double)g2}, 2, 2)); }")
            else:
                A("    gls.push_back(nullptr);")
        A("    ped->addIndividual(%d, gts, gls);" % ind)
        A("  }")
    for f, m, ch in shape.get("trios", []):
        A("  ped->addRelationship(%d, %d, %d);" % (f, m, ch))
    A("  std::vector<unsigned int> positions;")
    for p in pos:
        A("  positions.push_back(%d);" % p)
    A("  PedigreeDPTable dp(rs, recomb, ped, %s, &positions);" % ("true" if shape.get("distrust") else "false"))
    A('  sym_out("cost", 0, dp.get_optimal_score());')
    A("  std::vector<bool>* part = dp.get_optimal_partitioning();")
    A('  for (unsigned i = 0; i < %d; ++i) sym_out("part", i, (*part)[i] ? 1u : 0u);' % len(shape["reads"]))
    A("  std::vector<ReadSet*> out; for (unsigned k = 0; k < %d; ++k) out.push_back(new ReadSet());" % len(shape["individuals"]))
    A("  std::vector<unsigned int> tv;")
    A("  dp.get_super_reads(&out, &tv);")
    A('  for (unsigned c = 0; c < tv.size(); ++c) sym_out("tv", c, tv[c]);')
    for k in range(len(shape["individuals"])):
        for h in range(2):
            A('  { Read* sr = out[%d]->get(%d); for (int c = 0; c < sr->getVariantCount(); ++c) { sym_out("sr_%d_%d", c, (unsigned)sr->getAllele(c)); sym_out("q_%d_%d", c, (unsigned)sr->getVariantQuality(c)); sym_out("p_%d_%d", c, (unsigned)sr->getPosition(c)); } }' % (k, h, k, h, k, h, k, h))
    A("}")
    return "\n".join(L) + "\n"


def with_alleles(shape, inp):
    """inputs completed with the a_r_c entries an error-free shape derives and with fixed weights"""
    inp = dict(inp)
    for r, rd in enumerate(shape["reads"]):
        for c, w in (rd.get("weights") or {}).items():
            inp["w_%d_%s" % (r, c)] = w
    if not shape.get("errorfree"):
        return inp
    for r, rd in enumerate(shape["reads"]):
        for c in rd["cols"]:
            inp["a_%d_%d" % (r, c)] = 0 if inp["h_%d" % c] == inp["s_%d" % r] else 1
    return inp


def brute_force(shape, inp):
    inp = with_alleles(shape, inp)
    """Independent definition-level oracle on concrete inputs: returns
    (min_cost or None for Mendelian conflict, set of optimal (partition, tv)
    witnesses as a function evaluating any candidate)."""
    import itertools

    R = len(shape["reads"])
    C = shape["ncols"]
    inds = shape["individuals"]
    idx = {ind: i for i, ind in enumerate(inds)}
    trios = [(idx[f], idx[m], idx[c]) for f, m, c in shape.get("trios", [])]
    nt = len(trios)

    def hap_partitions(t):
        # haplotype -> partition map per transmission value (definition: roots own 2 partitions each;
        # child hap0 copies father's hap selected by bit 2k, hap1 mother's by bit 2k+1)
        hp = {}
        p = 0
        children = {c for _, _, c in trios}
        for i in range(len(inds)):
            if i not in children:
                hp[i] = (p, p + 1)
                p += 2
        changed = True
        while changed:
            changed = False
            for k, (f, m, c) in enumerate(trios):
                if c not in hp and f in hp and m in hp:
                    bf = (t >> (2 * k)) & 1
                    bm = (t >> (2 * k + 1)) & 1
                    # bit set -> second haplotype?  definition in the code: index !(bit)
                    hp[c] = (hp[f][0 if bf else 1], hp[m][0 if bm else 1])
                    changed = True
        return hp, p

    def col_cost(c, B, t):
        hp, P = hap_partitions(t)
        best = None
        for assign in range(1 << P):
            cost = 0
            ok = True
            for i in range(len(inds)):
                a0 = (assign >> hp[i][0]) & 1
                a1 = (assign >> hp[i][1]) & 1
                if shape.get("distrust"):
                    cost += inp["gl_%d_%d_%d" % (i, c, a0 + a1)]
                else:
                    if sorted((a0, a1)) != sorted(shape["genotypes"][i][c]):
                        ok = False
                        break
            if not ok:
                continue
            for r, rd in enumerate(shape["reads"]):
                if c in rd["cols"]:
                    fixed = (rd.get("alleles") or {}).get(str(c))
                    a = fixed if fixed is not None else inp["a_%d_%d" % (r, c)]
                    w = inp["w_%d_%d" % (r, c)]
                    i = idx[rd["sample"]]
                    part = hp[i][B[r]]
                    if ((assign >> part) & 1) != a:
                        cost += w
            if best is None or cost < best:
                best = cost
        return best

    def objective(B, T):
        total = 0
        for c in range(C):
            cc = col_cost(c, B, T[c])
            if cc is None:
                return None
            total += cc
            if c > 0:
                total += bin(T[c] ^ T[c - 1]).count("1") * inp["rc_%d" % c]
        return total

    best = None
    for B in itertools.product((0, 1), repeat=R):
        for T in itertools.product(range(4 ** nt), repeat=C):
            v = objective(B, T)
            if v is not None and (best is None or v < best):
                best = v
    return best, objective
