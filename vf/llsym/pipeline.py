"""Build pipeline for LLSym: current C++ sources + a generated harness ->
LLVM IR (clang++-14 -O1) -> linked, internalized module -> JSON (ir2json).
Also builds the native twin of a harness with g++ for concrete replay."""
import hashlib
import json
import os
import shutil
import subprocess
import tempfile

VERIF = os.path.dirname(os.path.dirname(os.path.dirname(os.path.abspath(__file__))))
REPO = os.environ.get("VERIF_REPO", "/repo")
CACHE = os.path.join(VERIF, ".cache", "llsym")

CORE_UNITS = [
    "pedigree.cpp", "pedigreedptable.cpp", "pedigreecolumncostcomputer.cpp", "columnindexingiterator.cpp",
    "columnindexingscheme.cpp", "entry.cpp", "graycodes.cpp", "read.cpp", "readset.cpp", "columniterator.cpp",
    "indexset.cpp", "genotype.cpp", "binomial.cpp", "pedigreepartitions.cpp", "phredgenotypelikelihoods.cpp",
]


def _prune(prefix, keep, max_age_s=6 * 3600):
    """drop cached artefacts of other source hashes, but only old ones (concurrent runs on scratch copies share the cache)"""
    import time

    now = time.time()
    for f in os.listdir(CACHE):
        p = os.path.join(CACHE, f)
        if f.startswith(prefix) and p != keep and not f.endswith(".tmp"):
            try:
                if now - os.path.getmtime(p) > max_age_s:
                    if os.path.isdir(p):
                        shutil.rmtree(p, ignore_errors=True)
                    else:
                        os.remove(p)
            except OSError:
                pass


def _run(cmd, cwd=None):
    r = subprocess.run(cmd, cwd=cwd, stdout=subprocess.PIPE, stderr=subprocess.STDOUT, text=True)
    if r.returncode != 0:
        raise RuntimeError("command failed: %s\n%s" % (" ".join(cmd), r.stdout[-4000:]))
    return r.stdout


def ensure_ir2json():
    os.makedirs(CACHE, exist_ok=True)
    exe = os.path.join(CACHE, "ir2json")
    src = os.path.join(VERIF, "vf", "llsym", "ir2json.cpp")
    if os.path.exists(exe) and os.path.getmtime(exe) >= os.path.getmtime(src):
        return exe
    cxx = subprocess.run(["llvm-config-14", "--cxxflags"], stdout=subprocess.PIPE, text=True).stdout.split()
    cxx = [f for f in cxx if f != "-fno-exceptions"]
    ld = subprocess.run(["llvm-config-14", "--ldflags"], stdout=subprocess.PIPE, text=True).stdout.split()
    tmp = exe + ".tmp%d" % os.getpid()
    _run(["g++", "-O1", src] + cxx + ld + ["-lLLVM-14", "-o", tmp])
    os.replace(tmp, exe)
    return exe


def units_hash(units):
    h = hashlib.sha256()
    src = os.path.join(REPO, "src")
    for f in sorted(os.listdir(src)):
        if f.endswith(".h") or f in units:
            h.update(f.encode())
            h.update(open(os.path.join(src, f), "rb").read())
    return h.hexdigest()[:16]


def core_bitcode(units=CORE_UNITS):
    """Compile the core translation units of the working tree to one linked bitcode file (cached by source hash)."""
    os.makedirs(CACHE, exist_ok=True)
    key = units_hash(units)
    out = os.path.join(CACHE, "core-%s.bc" % key)
    if os.path.exists(out):
        return out
    work = tempfile.mkdtemp(prefix="core-", dir=CACHE)
    try:
        bcs = []
        procs = []
        for u in units:
            bc = os.path.join(work, u + ".bc")
            bcs.append(bc)
            procs.append(subprocess.Popen(["clang++-14", "-std=c++11", "-O1", "-UNDEBUG", "-emit-llvm", "-c", "-w", "-I" + os.path.join(REPO, "src"), os.path.join(REPO, "src", u), "-o", bc], stdout=subprocess.PIPE, stderr=subprocess.STDOUT, text=True))
        for p in procs:
            o, _ = p.communicate()
            if p.returncode != 0:
                raise RuntimeError("clang failed:\n" + o[-3000:])
        tmp = out + ".tmp%d" % os.getpid()
        _run(["llvm-link-14"] + bcs + ["-o", tmp])
        os.replace(tmp, out)
    finally:
        shutil.rmtree(work, ignore_errors=True)
    _prune("core-", out)
    return out


def harness_module(harness_cpp_text, units=CORE_UNITS, keep=None):
    """harness source text -> loaded JSON module (dict)."""
    exe = ensure_ir2json()
    core = core_bitcode(units)
    work = tempfile.mkdtemp(prefix="h-", dir=CACHE)
    try:
        hp = os.path.join(work, "harness.cpp")
        open(hp, "w").write(harness_cpp_text)
        hb = os.path.join(work, "harness.bc")
        _run(["clang++-14", "-std=c++11", "-O1", "-UNDEBUG", "-emit-llvm", "-c", "-w", "-I" + os.path.join(REPO, "src"), hp, "-o", hb])
        linked = os.path.join(work, "linked.bc")
        _run(["llvm-link-14", hb, core, "-o", linked])
        opt = os.path.join(work, "opt.bc")
        _run(["opt-14", "-internalize", "-internalize-public-api-list=harness", "-globaldce", "-O1", linked, "-o", opt])
        js = subprocess.run([exe, opt], stdout=subprocess.PIPE, stderr=subprocess.PIPE)
        if js.returncode != 0:
            raise RuntimeError("ir2json failed: " + js.stderr.decode()[-2000:])
        if keep:
            shutil.copy(opt, keep)
        return json.loads(js.stdout)
    finally:
        shutil.rmtree(work, ignore_errors=True)


NATIVE_MAIN = r"""
#include <cstdio>
#include <cstdlib>
#include <cstring>
#include <stdexcept>
#include <string>
#include <map>
static std::map<std::string, unsigned> g_inputs;
extern "C" unsigned sym_u32(const char* name, unsigned lo, unsigned hi) {
  auto it = g_inputs.find(name);
  unsigned v = (it == g_inputs.end()) ? lo : it->second;
  return v;
}
extern "C" unsigned sym_vs(const char* name, unsigned lo, unsigned hi) { return sym_u32(name, lo, hi); }
extern "C" void sym_out(const char* name, unsigned idx, unsigned v) { printf("OUT %s %u %u\n", name, idx, v); }
extern "C" void harness();
int main(int argc, char** argv) {
  // arguments: name=value ...
  for (int i = 1; i < argc; ++i) { char* eq = strchr(argv[i], '='); if (!eq) continue; *eq = 0; g_inputs[argv[i]] = (unsigned)strtoul(eq + 1, 0, 10); }
  try { harness(); } catch (const std::exception& e) { printf("EXC %s\n", e.what()); return 0; }
  printf("DONE\n");
  return 0;
}
"""


def native_twin(harness_cpp_text, units=CORE_UNITS, tag="twin"):
    """Build the same harness natively with g++ (objects of the core cached by source hash). Returns exe path."""
    os.makedirs(CACHE, exist_ok=True)
    key = units_hash(units)
    objdir = os.path.join(CACHE, "obj-%s" % key)
    if not os.path.isdir(objdir):
        work = tempfile.mkdtemp(prefix="obj-", dir=CACHE)
        procs = []
        for u in units:
            procs.append(subprocess.Popen(["g++", "-std=c++11", "-O1", "-UNDEBUG", "-c", "-w", "-I" + os.path.join(REPO, "src"), os.path.join(REPO, "src", u), "-o", os.path.join(work, u + ".o")], stdout=subprocess.PIPE, stderr=subprocess.STDOUT, text=True))
        for p in procs:
            o, _ = p.communicate()
            if p.returncode != 0:
                shutil.rmtree(work, ignore_errors=True)
                raise RuntimeError("g++ failed:\n" + o[-3000:])
        try:
            os.rename(work, objdir)
        except OSError:
            shutil.rmtree(work, ignore_errors=True)
        _prune("obj-", objdir)
    hkey = hashlib.sha256((harness_cpp_text + key).encode()).hexdigest()[:16]
    exe = os.path.join(CACHE, "%s-%s" % (tag, hkey))
    if os.path.exists(exe):
        return exe
    _prune(tag + "-", exe, 3 * 3600)
    work = tempfile.mkdtemp(prefix="n-", dir=CACHE)
    try:
        hp = os.path.join(work, "harness.cpp")
        open(hp, "w").write(harness_cpp_text)
        mp = os.path.join(work, "main.cpp")
        open(mp, "w").write(NATIVE_MAIN)
        tmp = exe + ".tmp%d" % os.getpid()
        _run(["g++", "-std=c++11", "-O1", "-UNDEBUG", "-w", "-I" + os.path.join(REPO, "src"), hp, mp] + [os.path.join(objdir, u + ".o") for u in units] + ["-o", tmp])
        os.replace(tmp, exe)
    finally:
        shutil.rmtree(work, ignore_errors=True)
    return exe


def run_native(exe, inputs):
    args = [exe] + ["%s=%d" % (k, v) for k, v in inputs.items()]
    r = subprocess.run(args, stdout=subprocess.PIPE, stderr=subprocess.PIPE, text=True, timeout=120)
    outs, exc = {}, None
    for line in r.stdout.splitlines():
        p = line.split()
        if p and p[0] == "OUT":
            outs[(p[1], int(p[2]))] = int(p[3])
        elif p and p[0] == "EXC":
            exc = line[4:]
    status = "ok" if "DONE" in r.stdout else ("exception" if exc is not None else "crash:%d:%s" % (r.returncode, r.stderr[-300:]))
    return status, exc, outs
