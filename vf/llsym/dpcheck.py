"""Obligations over one symbolic run of the real PedigreeDPTable (C01/C02a/C05a).

The oracle is written from the definition of the (Ped)MEC objective, in linear
integer arithmetic over the same input symbols; it shares no code with the
implementation."""
import itertools
import random
import time

import z3

from . import pipeline, dp_harness, irmod
from .interp import Interp, run_in_thread
from .values import GU, Term, BoolT, Cat, Unsupported


class Run:
    pass


def symbolic_run(shape, time_budget=None, optimistic=None):
    """One symbolic run of the harness.  With optimistic wrap analysis (default for pedigree shapes) the run assumes
    that cost terms do not wrap around 2^32, records every such assumption with its program site, and afterwards
    discharges them all in one query; sites whose assumption can fail are treated precisely in a re-run."""
    src = dp_harness.generate(shape)
    js = pipeline.harness_module(src)
    mod = irmod.Module(js)
    if optimistic is None:
        optimistic = bool(shape.get("optimistic_wrap"))  # off by default: the justification query did not finish on trio shapes (DESIGN 9.7)
    precise = set()
    t = time.time()
    passes = 0
    while True:
        passes += 1
        it = Interp(mod, inputs_symbolic=True, time_budget=time_budget)
        it.optimistic = optimistic
        it.precise_sites = set(precise)
        status = run_in_thread(lambda: it.run_harness())
        if not optimistic or not it.assumed:
            break
        bad = z3.Or(*[z3.Or(e < lo, e > hi) for site, e, lo, hi in it.assumed])
        res, model, dt = solve(bad, list(it.constraints), 600000)
        it.stats["assumption_check_s"] = round(dt, 2)
        it.stats["assumptions"] = len(it.assumed)
        if res == "unsat":
            break
        if res == "unknown" or passes >= 4:
            raise Unsupported("optimistic wrap analysis: assumptions could not be discharged (%s)" % res)
        new = set()
        for site, e, lo, hi in it.assumed:
            v = model.eval(e, model_completion=True)
            if z3.is_int_value(v) and not (lo <= v.as_long() <= hi):
                new.add(site)
        if not new:
            raise Unsupported("optimistic wrap analysis: violated assumption not located")
        precise |= new
    it.stats["passes"] = passes
    it.stats["precise_sites"] = len(precise)
    r = Run()
    r.shape, r.src, r.mod, r.it, r.status, r.interp_s = shape, src, mod, it, status, time.time() - t
    return r


def concrete_run(run, inputs):
    it = Interp(run.mod, inputs_symbolic=False, concrete_inputs=inputs)
    st = run_in_thread(lambda: it.run_harness())
    return st, {k: v[1] for k, v in it.outputs.items()}


def to_z3(it, v, w=32):
    if isinstance(v, bool):
        return z3.IntVal(int(v))
    if isinstance(v, int):
        return z3.IntVal(v)
    if isinstance(v, Term):
        return it.fit(v, w).e
    if isinstance(v, BoolT):
        return z3.If(v.e, z3.IntVal(1), z3.IntVal(0))
    if isinstance(v, GU):
        e = None
        for g, p in reversed(v.alts):
            pe = to_z3(it, p, w)
            e = pe if e is None else z3.If(it.lits.guard_expr(g), pe, e)
        return e
    raise Unsupported("output value %r" % (v,))


def values_of(v):
    """possible concrete values of a value-set output (None if symbolic)"""
    if isinstance(v, int):
        return [v]
    if isinstance(v, GU) and all(isinstance(p, int) for g, p in v.alts):
        return sorted({p for g, p in v.alts})
    return None


# ---------------------------------------------------------------------------
# definition-level oracle (symbolic form)
# ---------------------------------------------------------------------------
def hap_partitions(shape, t):
    inds = shape["individuals"]
    idx = {ind: i for i, ind in enumerate(inds)}
    trios = [(idx[f], idx[m], idx[c]) for f, m, c in shape.get("trios", [])]
    children = {c for _, _, c in trios}
    hp, p = {}, 0
    for i in range(len(inds)):
        if i not in children:
            hp[i] = (p, p + 1)
            p += 2
    changed = True
    while changed:
        changed = False
        for k, (f, m, c) in enumerate(trios):
            if c not in hp and f in hp and m in hp:
                bf = (t >> (2 * k)) & 1
                bm = (t >> (2 * k + 1)) & 1
                hp[c] = (hp[f][0 if bf else 1], hp[m][0 if bm else 1])
                changed = True
    return hp, p


def admissible(shape, c, t):
    """[(assignment bits, {individual: (a0, a1)})] admissible at column c under transmission t"""
    hp, P = hap_partitions(shape, t)
    out = []
    for assign in range(1 << P):
        ok = True
        al = {}
        for i in range(len(shape["individuals"])):
            a0 = (assign >> hp[i][0]) & 1
            a1 = (assign >> hp[i][1]) & 1
            al[i] = (a0, a1)
            if not shape.get("distrust") and sorted((a0, a1)) != sorted(shape["genotypes"][i][c]):
                ok = False
                break
        if ok:
            out.append((assign, al))
    return hp, out


def zmin(es):
    r = es[0]
    for e in es[1:]:
        r = z3.If(e < r, e, r)
    return r


class Oracle:
    def __init__(self, shape):
        self.shape = shape
        self.idx = {ind: i for i, ind in enumerate(shape["individuals"])}
        self.nt = len(shape.get("trios", []))
        self.cache = {}

    def sym(self, name):
        return z3.Int(name)

    def allele(self, r, c):
        fixed = (self.shape["reads"][r].get("alleles") or {}).get(str(c))
        if self.shape.get("errorfree"):
            return z3.If(self.sym("h_%d" % c) == self.sym("s_%d" % r), z3.IntVal(0), z3.IntVal(1))
        return z3.IntVal(fixed) if fixed is not None else self.sym("a_%d_%d" % (r, c))

    def assign_cost(self, c, t, Bc, assign, al, hp):
        """cost of allele assignment `assign` at column c; Bc = tuple of haplotype bits of the reads covering c (by read index)"""
        terms = []
        if self.shape.get("distrust"):
            for i in range(len(self.shape["individuals"])):
                terms.append(self.sym("gl_%d_%d_%d" % (i, c, al[i][0] + al[i][1])))
        for r, rd in enumerate(self.shape["reads"]):
            if c in rd["cols"]:
                i = self.idx[rd["sample"]]
                bit = (assign >> hp[i][Bc[r]]) & 1
                fw = (rd.get("weights") or {}).get(str(c))
                terms.append(z3.If(self.allele(r, c) == bit, z3.IntVal(0), z3.IntVal(fw) if fw is not None else self.sym("w_%d_%d" % (r, c))))
        return z3.Sum(terms) if terms else z3.IntVal(0)

    def col_costs(self, c, t, B):
        """[(assign, alleles, cost expr)] ; B full read->hap tuple"""
        key = (c, t, tuple(B[r] if c in rd["cols"] else None for r, rd in enumerate(self.shape["reads"])))
        hit = self.cache.get(key)
        if hit is None:
            hp, adm = admissible(self.shape, c, t)
            hit = [(a, al, self.assign_cost(c, t, B, a, al, hp)) for a, al in adm]
            self.cache[key] = hit
        return hit

    def col_min(self, c, t, B):
        cc = self.col_costs(c, t, B)
        if not cc:
            return None
        return zmin([e for a, al, e in cc])

    def objective(self, B, T):
        total = []
        for c in range(self.shape["ncols"]):
            m = self.col_min(c, T[c], B)
            if m is None:
                return None
            total.append(m)
            if c > 0:
                pc = bin(T[c] ^ T[c - 1]).count("1")
                if pc:
                    total.append(pc * self.sym("rc_%d" % c))
        return z3.Sum(total)

    def conflict_columns(self):
        out = []
        for c in range(self.shape["ncols"]):
            if all(not admissible(self.shape, c, t)[1] for t in range(4 ** self.nt)):
                out.append(c)
        return out

    def all_T(self):
        return itertools.product(range(4 ** self.nt), repeat=self.shape["ncols"])

    def all_B(self):
        return itertools.product((0, 1), repeat=len(self.shape["reads"]))


def solve(exprs, constraints, timeout_ms):
    s = z3.Solver()
    s.set("timeout", timeout_ms)
    for c in constraints:
        s.add(c)
    s.add(exprs)
    t = time.time()
    r = s.check()
    dt = time.time() - t
    if r == z3.sat:
        return "sat", s.model(), dt
    if r == z3.unsat:
        return "unsat", None, dt
    return "unknown", None, dt


def model_inputs(run, model):
    out = {}
    for name, (x, lo, hi) in run.it.inputs.items():
        v = model.eval(x, model_completion=True)
        out[name] = v.as_long()
        if not lo <= out[name] <= hi:
            out[name] = lo
    return out


def validate_against_native(run, n=3, seed=0):
    """evaluate the merged symbolic outputs on random inputs and compare with the native twin"""
    exe = pipeline.native_twin(run.src)
    rnd = random.Random(seed)
    it = run.it
    bad = []
    for k in range(n):
        inp = {nm: rnd.randint(lo, hi) for nm, lo, hi in dp_harness.input_specs(run.shape)}
        st, exc, outs = pipeline.run_native(exe, inp)
        sub = [(x, z3.IntVal(inp.get(nm, lo))) for nm, (x, lo, hi) in it.inputs.items()]
        # aborted natively?  then some abort guard must hold under inp
        if st != "ok":
            hit = False
            for g, kind, msg in it.aborts:
                ge = z3.simplify(z3.substitute(it.lits.guard_expr(frozenset(g)), *sub))
                if z3.is_true(ge):
                    hit = True
            if not hit and not (run.status != "ok"):
                bad.append(("native aborted but no symbolic abort guard holds", inp, st, exc))
            continue
        for key, (g, v) in it.outputs.items():
            e = z3.simplify(z3.substitute(to_z3(it, v), *sub))
            if not z3.is_int_value(e) or e.as_long() != outs.get(key):
                bad.append(("output mismatch", key, str(e), outs.get(key), inp))
                break
    return bad
