"""In-memory form of the JSON module produced by ir2json."""


class Func:
    __slots__ = ("name", "declared", "args", "blocks", "nlocals", "ret", "vararg", "live")


class Block:
    __slots__ = ("id", "ipdom", "insts", "phis", "first_non_phi")


class Module:
    def __init__(self, js):
        self.globals = {g["name"]: g for g in js["globals"]}
        self.funcs = {}
        for f in js["functions"]:
            F = Func()
            F.name = f["name"]
            F.declared = f["declared"]
            F.args = f["args"]
            F.ret = f["ret"]
            F.vararg = f.get("vararg", False)
            F.nlocals = f.get("nlocals", 0)
            F.blocks = []
            for b in f.get("blocks", []):
                B = Block()
                B.id = b["id"]
                B.ipdom = b["ipdom"]
                B.insts = b["insts"]
                B.phis = [i for i in B.insts if i["op"] == "phi"]
                B.first_non_phi = len(B.phis)
                for ph in B.phis:
                    ph["incmap"] = {x["b"]: x["v"] for x in ph["inc"]}
                F.blocks.append(B)
            F.live = set()
            if F.blocks:
                compute_ipdoms(F)
            self.funcs[F.name] = F

    def stats(self):
        n = sum(len(b.insts) for f in self.funcs.values() for b in f.blocks)
        decl = sorted(f.name for f in self.funcs.values() if f.declared)
        return dict(functions=sum(1 for f in self.funcs.values() if not f.declared), instructions=n, declared=decl)


def compute_ipdoms(F):
    """Immediate post-dominators on the CFG without exceptional edges and
    without blocks that cannot reach a `ret` (assert/throw/unreachable tails):
    a side that enters such a block simply aborts, and must not prevent the
    ordinary sides from being merged."""
    n = len(F.blocks)
    succ = [[] for _ in range(n)]
    rets = []
    for b in F.blocks:
        t = b.insts[-1]
        op = t["op"]
        if op == "br":
            succ[b.id] = [t["T"]] + ([t["F"]] if "F" in t else [])
        elif op == "switch":
            succ[b.id] = list(dict.fromkeys([t["default"]] + [c[1] for c in t["cases"]]))
        elif op == "invoke":
            succ[b.id] = [t["normal"]]
        elif op == "ret":
            rets.append(b.id)
    # blocks that can reach a ret
    pred = [[] for _ in range(n)]
    for u in range(n):
        for v in succ[u]:
            pred[v].append(u)
    live = set(rets)
    work = list(rets)
    while work:
        v = work.pop()
        for u in pred[v]:
            if u not in live:
                live.add(u)
                work.append(u)
    F_live = live
    EXIT = n
    # reverse graph restricted to live blocks; exit node = n
    rsucc = {u: [v for v in succ[u] if v in live] for u in live}  # forward succ among live
    for r in rets:
        rsucc[r] = [EXIT]
    # post-order of reverse graph from EXIT
    rpred = {u: [] for u in list(live) + [EXIT]}  # in reverse graph: edges v -> u for u->v
    for u in live:
        for v in rsucc[u]:
            rpred[v].append(u)
    order = []
    seen = set()
    stack = [(EXIT, iter(rpred[EXIT]))]
    seen.add(EXIT)
    while stack:
        node, it = stack[-1]
        adv = False
        for nx in it:
            if nx not in seen:
                seen.add(nx)
                stack.append((nx, iter(rpred[nx])))
                adv = True
                break
        if not adv:
            order.append(node)
            stack.pop()
    num = {b: i for i, b in enumerate(order)}  # postorder number
    idom = {EXIT: EXIT}
    rpo = list(reversed(order))

    def inter(a, b):
        while a != b:
            while num[a] < num[b]:
                a = idom[a]
            while num[b] < num[a]:
                b = idom[b]
        return a

    changed = True
    while changed:
        changed = False
        for b in rpo:
            if b == EXIT:
                continue
            cands = [s for s in rsucc[b] if s in idom]
            if not cands:
                continue
            new = cands[0]
            for s in cands[1:]:
                new = inter(new, s)
            if idom.get(b) != new:
                idom[b] = new
                changed = True
    for b in F.blocks:
        d = idom.get(b.id)
        b.ipdom = -1 if (d is None or d == EXIT) else d
    F.live = F_live
