"""Value domain of the LLSym interpreter.

A run-time value is one of
  int / float              concrete (ints are kept as non-negative machine values of their width)
  GU                       guarded union: [(guard, payload)], guards = frozenset of literals,
                           pairwise disjoint and exhaustive on the current path
payloads: int, float, Term (z3 Int expression = one representative of the
machine value's residue class, with an interval), BoolT (z3 Bool, for i1),
Cat (concatenation of narrower values produced by a wide load).

A literal is (atom_id, polarity); atoms are z3 Bool expressions registered in
the LitTable.  Contradictions between guards and the current path are found
syntactically (same atom, opposite polarity); nothing here calls the solver
except Term.fit() (wrap analysis, once per term)."""
import z3


class Unsupported(Exception):
    pass


class LitTable:
    def __init__(self):
        self.atoms = {}  # atom_id -> z3 expr
        self.by_ast = {}  # z3 ast id -> (atom_id, polarity)

    def literal(self, expr):
        """z3 Bool -> literal (atom_id, pol), canonicalising negation."""
        pol = True
        e = expr
        while z3.is_not(e):
            e = e.arg(0)
            pol = not pol
        k = e.get_id()
        hit = self.by_ast.get(k)
        if hit is None:
            aid = len(self.atoms)
            self.atoms[aid] = e
            self.by_ast[k] = aid
            hit = aid
        return (hit, pol)

    def expr(self, lit):
        e = self.atoms[lit[0]]
        return e if lit[1] else z3.Not(e)

    def guard_expr(self, guard):
        if not guard:
            return z3.BoolVal(True)
        es = [self.expr(l) for l in sorted(guard)]
        return es[0] if len(es) == 1 else z3.And(*es)


class Term:
    """Symbolic integer: z3 Int expression `e`; machine value = e mod 2^w for the
    width it is used at; [lo, hi] bounds e (hull, may be loose)."""

    __slots__ = ("e", "lo", "hi", "fitted")

    def __init__(self, e, lo, hi):
        self.e = e
        self.lo = lo
        self.hi = hi
        self.fitted = None

    def __repr__(self):
        return "Term(%s in [%d,%d])" % (self.e, self.lo, self.hi)


class BoolT:
    __slots__ = ("e",)

    def __init__(self, e):
        self.e = e

    def __repr__(self):
        return "BoolT(%s)" % self.e


class Cat:
    """Little-endian concatenation of (size_bytes, value) parts (a wide load over narrower cells)."""

    __slots__ = ("parts",)

    def __init__(self, parts):
        self.parts = parts

    def __repr__(self):
        return "Cat(%r)" % (self.parts,)


class GU:
    __slots__ = ("alts",)

    def __init__(self, alts):
        self.alts = alts  # list of (frozenset guard, payload)

    def __repr__(self):
        return "GU(%s)" % ", ".join("%s->%r" % (sorted(g), p) for g, p in self.alts)


EMPTY = frozenset()


def is_conc(v):
    return isinstance(v, (int, float))


def alts_of(v):
    if isinstance(v, GU):
        return v.alts
    return [(EMPTY, v)]


def contradicts(guard, path):
    """path: dict atom_id -> polarity"""
    for a, p in guard:
        q = path.get(a)
        if q is not None and q != p:
            return True
    return False


def conj(g1, g2):
    """conjunction of two guards or None if contradictory"""
    if not g1:
        return g2
    if not g2:
        return g1
    if len(g1) > len(g2):
        g1, g2 = g2, g1
    for a, p in g1:
        if (a, not p) in g2:
            return None
    return g1 | g2


def payload_key(p):
    if isinstance(p, (int, float)):
        return ("c", p)
    if isinstance(p, Term):
        return ("t", p.e.get_id())
    if isinstance(p, BoolT):
        return ("b", p.e.get_id())
    return ("o", id(p))


def simplify_alts(alts):
    """Merge alternatives with identical payload whose guards differ in the
    polarity of exactly one literal; drop duplicates."""
    if len(alts) <= 1:
        return alts
    groups = {}
    order = []
    for g, p in alts:
        k = payload_key(p)
        if k not in groups:
            groups[k] = [p, []]
            order.append(k)
        groups[k][1].append(g)
    out = []
    for k in order:
        p, gs = groups[k]
        gs = list(dict.fromkeys(gs))
        changed = True
        while changed and len(gs) > 1:
            changed = False
            for i in range(len(gs)):
                for j in range(i + 1, len(gs)):
                    a, b = gs[i], gs[j]
                    if len(a) == len(b):
                        d = a ^ b
                        if len(d) == 2:
                            (x, px), (y, py) = tuple(d)
                            if x == y and px != py:
                                m = a & b
                                gs = [g for t, g in enumerate(gs) if t not in (i, j)]
                                if m not in gs:
                                    gs.append(m)
                                changed = True
                                break
                    # subsumption: a subset of b => b redundant
                    if a <= b:
                        gs = [g for t, g in enumerate(gs) if t != j]
                        changed = True
                        break
                    if b <= a:
                        gs = [g for t, g in enumerate(gs) if t != i]
                        changed = True
                        break
                if changed:
                    break
        for g in gs:
            out.append((g, p))
    return out


def mk(alts):
    """Build a value from alternatives (already path-filtered)."""
    alts = simplify_alts(alts)
    if len(alts) == 1:
        return alts[0][1]
    if not alts:
        raise Unsupported("empty guarded union (unreachable value)")
    return GU(alts)


def restrict(v, path):
    """Drop alternatives that contradict the current path and literals implied by it."""
    if not isinstance(v, GU):
        return v
    out = []
    changed = False
    for g, p in v.alts:
        ng = None
        dead = False
        for lit in g:
            q = path.get(lit[0])
            if q is None:
                continue
            if q != lit[1]:
                dead = True
                break
            if ng is None:
                ng = set(g)
            ng.discard(lit)
        if dead:
            changed = True
            continue
        if ng is not None:
            changed = True
            out.append((frozenset(ng), p))
        else:
            out.append((g, p))
    if not changed:
        return v
    return mk(out)
