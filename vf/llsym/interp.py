"""LLSym: symbolic interpreter for the LLVM IR of whatshap's C++ core.

Control flow on symbolic conditions is executed side by side up to the
immediate post-dominator and merged there (registers through phi nodes, memory
cell-wise); no solver call decides a branch.  See DESIGN.md 2.3."""
import ctypes
import math
import struct
import sys
import time

import z3

from .values import (GU, Term, BoolT, Cat, LitTable, Unsupported, EMPTY, alts_of, conj, contradicts, mk, restrict, is_conc, simplify_alts)

MASK = {w: (1 << w) - 1 for w in (1, 8, 16, 32, 64, 128)}
FUNC_BASE = 0x7F0000000000
HEAP_BASE = 0x10000000
STACK_BASE = 0x600000000000


class AbortSide(Exception):
    def __init__(self, kind, msg):
        self.kind = kind
        self.msg = msg


def mask(w):
    m = MASK.get(w)
    return m if m is not None else (1 << w) - 1


def to_signed(v, w):
    return v - (1 << w) if v >> (w - 1) else v


class Cell:
    __slots__ = ("size", "val")

    def __init__(self, size, val):
        self.size = size
        self.val = val


class Mem:
    def __init__(self, machine):
        self.m = machine
        self.levels = [{}]
        self.uninit_reads = 0

    def lookup(self, addr):
        for lv in reversed(self.levels):
            c = lv.get(addr)
            if c is not None:
                return c if c.size else None
        return None

    def lookup_in(self, levels, addr):
        for lv in reversed(levels):
            c = lv.get(addr)
            if c is not None:
                return c if c.size else None
        return None

    def push(self):
        self.levels.append({})

    def pop(self):
        return self.levels.pop()

    # -- reading ----------------------------------------------------------------
    def load(self, addr, size, levels=None):
        levels = levels or self.levels
        c = self.lookup_in(levels, addr)
        if c is not None and c.size == size:
            return c.val
        parts = []
        pos = addr
        end = addr + size
        while pos < end:
            c = self.lookup_in(levels, pos)
            if c is None:
                found = None
                for back in range(1, 32):
                    c2 = self.lookup_in(levels, pos - back)
                    if c2 is not None:
                        if c2.size > back:
                            found = (pos - back, c2)
                        break
                if found is None:
                    self.uninit_reads += 1
                    parts.append((1, 0))
                    pos += 1
                    continue
                start, c2 = found
                off = pos - start
                n = min(c2.size - off, end - pos)
                parts.append((n, self.m.extract(c2.val, c2.size, off, n)))
                pos += n
            else:
                n = min(c.size, end - pos)
                parts.append((n, c.val if n == c.size else self.m.extract(c.val, c.size, 0, n)))
                pos += n
        return self.m.combine(parts)

    # -- writing ----------------------------------------------------------------
    def store(self, addr, size, val):
        top = self.levels[-1]
        end = addr + size
        for s in range(addr - 31, end):
            c = self.lookup(s)
            if c is None:
                continue
            ce = s + c.size
            if ce <= addr or s >= end:
                continue
            if s == addr and c.size == size:
                continue
            # split the overlapped visible cell: keep the parts outside [addr, end)
            top[s] = Cell(0, None)
            if s < addr:
                n = addr - s
                top[s] = Cell(n, self.m.extract(c.val, c.size, 0, n))
            if ce > end:
                n = ce - end
                top[end] = Cell(n, self.m.extract(c.val, c.size, end - s, n))
        if isinstance(val, Cat):
            off = 0
            for n, p in val.parts:
                top[addr + off] = Cell(n, p)
                off += n
            return
        top[addr] = Cell(size, val)

    def merge(self, sides):
        """sides: [(guard frozenset, overlay dict)]; all sides forked from the
        current top.  Writes the guarded union of the sides' views into the top."""
        base = self.levels
        regions = []
        for g, ov in sides:
            for a, c in ov.items():
                if c.size:
                    regions.append((a, a + c.size))
        if not regions:
            return
        regions.sort()
        # finest common segmentation of all written ranges
        points = sorted({p for r in regions for p in r})
        covered = []
        cur_s, cur_e = regions[0]
        merged = []
        for s, e in regions[1:]:
            if s <= cur_e:
                cur_e = max(cur_e, e)
            else:
                merged.append((cur_s, cur_e))
                cur_s, cur_e = s, e
        merged.append((cur_s, cur_e))
        import bisect

        writes = []
        for ms, me in merged:
            i = bisect.bisect_left(points, ms)
            while points[i] < me:
                s, e = points[i], points[i + 1]
                alts = []
                for g, ov in sides:
                    v = self.load(s, e - s, base + [ov])
                    for g2, p in alts_of(v):
                        gg = conj(g, g2)
                        if gg is not None:
                            alts.append((gg, p))
                writes.append((s, e - s, self.m.mk2(alts)))
                i += 1
        for s, n, v in writes:
            self.store(s, n, v)


class Frame:
    __slots__ = ("func", "regs", "pending", "allocas")

    def __init__(self, func):
        self.func = func
        self.regs = {}
        self.pending = []  # early returns: (guard, value, overlay)


class Machine:
    def __init__(self, module, inputs_symbolic=True, concrete_inputs=None, small_limit=1 << 31, max_depth=200, time_budget=None):
        self.mod = module
        self.lits = LitTable()
        self.path = {}
        self.path_stack = []
        self.mem = Mem(self)
        self.brk = HEAP_BASE
        self.sp = STACK_BASE
        self.symbolic = inputs_symbolic
        self.concrete_inputs = concrete_inputs or {}
        self.inputs = {}  # name -> (z3 var, lo, hi)
        self.constraints = []
        self.outputs = {}
        self.aborts = []  # (guard literal list, kind, msg)
        self.small_limit = small_limit
        self.stats = dict(instr=0, merges=0, splits=0, fit_queries=0, fit_s=0.0, mods=0, wrap_ites=0, coalesced=0, aborts=0, max_depth=0)
        self.depth = 0
        self.max_depth = max_depth
        self.fit_cache = {}
        self.optimistic = False  # two-pass wrap analysis (see fit): assume no wrap, justify all assumptions at the end
        self.precise_sites = set()
        self.assumed = []  # (site, expr, lo_b, hi_b)
        self.cur_site = None
        self.push_addsub = False  # experimental (9.3): pushes +-w into ite leaves; faster on some shapes, explodes value sets on others
        self.lin_cache = {}
        self.excl = {}
        self.solver = z3.Solver()
        self.func_addr = {}
        self.addr_func = {}
        self.global_addr = {}
        self.strings = {}
        self.t0 = time.time()
        self.time_budget = time_budget
        self._init_globals()

    # ------------------------------------------------------------------ setup
    def alloc(self, size, align=16):
        self.brk = (self.brk + align - 1) // align * align
        a = self.brk
        self.brk += max(size, 1)
        return a

    def _init_globals(self):
        for i, name in enumerate(self.mod.funcs):
            a = FUNC_BASE + 16 * i
            self.func_addr[name] = a
            self.addr_func[a] = name
        for name, g in self.mod.globals.items():
            self.global_addr[name] = self.alloc(max(g["size"], 1))
        for name, g in self.mod.globals.items():
            if "init" in g:
                self._store_const(self.global_addr[name], g["init"], g["t"])

    def _store_const(self, addr, c, t):
        k = c["v"]
        if k == "zero":
            self._zero(addr, c["t"])
        elif k == "undef":
            return
        elif k == "agg":
            ty = c["t"]
            if ty["k"] == "struct":
                for f, e in zip(ty["fields"], c["elems"]):
                    self._store_const(addr + f["off"], e, f["t"])
            else:
                for i, e in enumerate(c["elems"]):
                    self._store_const(addr + i * ty["stride"], e, ty["t"])
        else:
            v = self.const(c)
            self.mem.store(addr, self.tsize(t), v)

    def _zero(self, addr, t):
        k = t["k"]
        if k == "struct":
            for f in t["fields"]:
                self._zero(addr + f["off"], f["t"])
        elif k in ("array", "vector"):
            if t["t"]["k"] == "int" and t["t"]["bits"] == 8:
                for i in range(t["n"]):
                    self.mem.store(addr + i, 1, 0)
            else:
                for i in range(t["n"]):
                    self._zero(addr + i * t["stride"], t["t"])
        elif k in ("double", "float"):
            self.mem.store(addr, self.tsize(t), 0.0)
        else:
            self.mem.store(addr, self.tsize(t), 0)

    @staticmethod
    def tsize(t):
        k = t["k"]
        if k in ("struct", "array", "vector"):
            return t["size"]
        return max(1, (t["bits"] + 7) // 8)

    # ------------------------------------------------------------- constants
    def const(self, c):
        k = c["v"]
        if k == "int":
            return int(c["val"])
        if k == "null":
            return 0
        if k == "fp":
            raw = int(c["raw"])
            if c["bits"] == 64:
                return struct.unpack("<d", struct.pack("<Q", raw))[0]
            if c["bits"] == 32:
                return struct.unpack("<f", struct.pack("<I", raw))[0]
            raise Unsupported("fp constant width %d" % c["bits"])
        if k == "func":
            return self.func_addr[c["name"]]
        if k == "global":
            return self.global_addr[c["name"]]
        if k == "undef":
            t = c["t"]
            if t["k"] in ("struct", "array"):
                return [0] * (len(t["fields"]) if t["k"] == "struct" else t["n"])
            return 0.0 if t["k"] in ("double", "float") else 0
        if k == "zero":
            t = c["t"]
            if t["k"] == "struct":
                return [0] * len(t["fields"])
            return [0] * t["n"]
        if k == "agg":
            return [self.const(e) for e in c["elems"]]
        if k == "cexpr":
            op = c["op"]
            if op == "gep":
                return self.gep(c["gep"], None)
            args = [self.const(a) for a in c["args"]]
            if op in ("bitcast", "ptrtoint", "inttoptr"):
                return args[0]
            if op == "add":
                return (args[0] + args[1]) & mask(c["t"]["bits"])
            if op == "sub":
                return (args[0] - args[1]) & mask(c["t"]["bits"])
            raise Unsupported("constant expression %s" % op)
        if k in ("meta", "asm", "block"):
            return None
        raise Unsupported("constant kind %s" % k)

    def val(self, frame, v):
        if v["v"] == "local":
            x = frame.regs[v["id"]]
            if isinstance(x, GU) and self.path:
                x = restrict(x, self.path)
            return x
        return self.const(v)

    # ---------------------------------------------------------------- values
    def mk2(self, alts):
        """mk + path restriction + coalescing of small symbolic alternatives into one ite term."""
        alts = [(g, p) for g, p in alts if not contradicts(g, self.path)]
        alts = [(frozenset(l for l in g if l[0] not in self.path), p) for g, p in alts]
        alts = simplify_alts(alts)
        if len(alts) <= 1:
            return mk(alts)
        nterm = sum(1 for g, p in alts if isinstance(p, Term))
        if nterm == 0:
            return mk(alts)
        lim = self.small_limit
        small = [(g, p) for g, p in alts if (isinstance(p, Term) and -lim < p.lo and p.hi < lim) or (isinstance(p, int) and p < lim)]
        if len(small) < 2:
            return mk(alts)
        big = [(g, p) for g, p in alts if not ((isinstance(p, Term) and -lim < p.lo and p.hi < lim) or (isinstance(p, int) and p < lim))]
        self.stats["coalesced"] += 1
        # ite chain; last small alternative unconditioned *within the group*
        e = None
        lo = min(p.lo if isinstance(p, Term) else p for g, p in small)
        hi = max(p.hi if isinstance(p, Term) else p for g, p in small)
        for g, p in reversed(small):
            pe = p.e if isinstance(p, Term) else z3.IntVal(p)
            e = pe if e is None else z3.If(self.lits.guard_expr(g), pe, e)
        t = Term(e, lo, hi)
        if not big:
            return t
        # guard of the group: negation of a single-literal big alternative if possible, else a defined atom
        if len(big) == 1 and len(big[0][0]) == 1:
            (a, pol), = tuple(big[0][0])
            gg = frozenset([(a, not pol)])
        else:
            d = z3.Or(*[self.lits.guard_expr(g) for g, p in small])
            gg = frozenset([self.lits.literal(d)])
        return GU(big + [(gg, t)])

    def lift1(self, f, a):
        if not isinstance(a, GU):
            return f(a)
        return self.mk2([(g, f(p)) for g, p in a.alts])

    def lift2(self, f, a, b):
        if not isinstance(a, GU) and not isinstance(b, GU):
            return f(a, b)
        out = []
        for g1, p1 in alts_of(a):
            for g2, p2 in alts_of(b):
                g = conj(g1, g2)
                if g is None:
                    continue
                r = f(p1, p2)
                if isinstance(r, GU):
                    for g3, p3 in r.alts:
                        gg = conj(g, g3)
                        if gg is not None:
                            out.append((gg, p3))
                else:
                    out.append((g, r))
        return self.mk2(out)

    # wrap analysis --------------------------------------------------------------
    def can(self, cond):
        self.stats["fit_queries"] += 1
        t = time.time()
        r = self.solver.check(cond)
        self.stats["fit_s"] += time.time() - t
        return r != z3.unsat

    def fit(self, t, w, signed=False):
        """Term whose expression is the canonical representative of the machine value:
        in [0, 2^w) (unsigned) or [-2^(w-1), 2^(w-1)) (signed)."""
        M = 1 << w
        lo_b, hi_b = (-(M >> 1), (M >> 1) - 1) if signed else (0, M - 1)
        if t.lo >= lo_b and t.hi <= hi_b:
            return t
        key = (t.e.get_id(), w, signed)
        hit = self.fit_cache.get(key)
        if hit is not None:
            return hit[0]
        if self.optimistic and self.cur_site not in self.precise_sites and t.lo >= lo_b - M and t.hi <= hi_b + M:
            # assume the term does not wrap here; the assumption is recorded and must be discharged after the run
            # (dpcheck.symbolic_run re-runs with this site treated precisely if it cannot be)
            self.assumed.append((self.cur_site, t.e, lo_b, hi_b))
            r = Term(t.e, max(t.lo, lo_b), min(t.hi, hi_b))
            self.fit_cache[key] = (r, t)
            return r
        can_lo = t.lo < lo_b and self.can(t.e < lo_b)
        can_hi = t.hi > hi_b and self.can(t.e > hi_b)
        if not can_lo and not can_hi:
            r = Term(t.e, max(t.lo, lo_b), min(t.hi, hi_b))
        elif can_lo and not can_hi and t.lo >= lo_b - M:
            self.stats["wrap_ites"] += 1
            r = Term(z3.If(t.e < lo_b, t.e + M, t.e), lo_b, hi_b)
        elif can_hi and not can_lo and t.hi <= hi_b + M:
            self.stats["wrap_ites"] += 1
            r = Term(z3.If(t.e > hi_b, t.e - M, t.e), lo_b, hi_b)
        else:
            self.stats["mods"] += 1
            m = t.e % M
            r = Term(z3.If(m > hi_b, m - M, m) if signed else m, lo_b, hi_b)
        self.fit_cache[key] = (r, t)
        return r

    # byte-level helpers for memory --------------------------------------------------
    def extract(self, val, csize, off, n):
        if isinstance(val, int):
            return (val >> (8 * off)) & ((1 << (8 * n)) - 1)
        if isinstance(val, float):
            raw = struct.unpack("<Q", struct.pack("<d", val))[0] if csize == 8 else struct.unpack("<I", struct.pack("<f", val))[0]
            return (raw >> (8 * off)) & ((1 << (8 * n)) - 1)
        if isinstance(val, GU):
            return self.mk2([(g, self.extract(p, csize, off, n)) for g, p in val.alts])
        if isinstance(val, Cat):
            pos = 0
            got = []
            for pn, pv in val.parts:
                s, e = max(pos, off), min(pos + pn, off + n)
                if s < e:
                    got.append((e - s, pv if (s == pos and e == pos + pn) else self.extract(pv, pn, s - pos, e - s)))
                pos += pn
            return self.combine(got)
        if isinstance(val, Term):
            if off == 0 and val.lo >= 0 and val.hi < (1 << (8 * n)):
                return val
            if val.lo >= 0 and val.hi < (1 << (8 * off)):
                return 0
            raise Unsupported("partial read of a symbolic term")
        if isinstance(val, BoolT):
            if off == 0:
                return val
            return 0
        if isinstance(val, list):
            raise Unsupported("partial read of aggregate")
        raise Unsupported("extract from %r" % (val,))

    def combine(self, parts):
        if len(parts) == 1:
            return parts[0][1]
        if all(isinstance(p, int) for n, p in parts):
            v, sh = 0, 0
            for n, p in parts:
                v |= p << sh
                sh += 8 * n
            return v
        # zero-extended small value: high parts all zero
        if all(isinstance(p, int) and p == 0 for n, p in parts[1:]) and isinstance(parts[0][1], (Term, BoolT)):
            return parts[0][1]
        return Cat(parts)

    # ---------------------------------------------------------------- gep
    def gep(self, g, frame):
        base = self.val(frame, g["base"]) if frame is not None else self.const(g["base"])
        off = g["const"]
        res = base
        if off:
            res = self.lift1(lambda p: self._padd(p, off), res)
        for v in g["vars"]:
            idx = self.val(frame, v["idx"])
            stride, bits = v["stride"], v["bits"]

            def f(p, i, stride=stride, bits=bits):
                if isinstance(i, Term):
                    raise Unsupported("symbolic (non value-set) index in address computation: %s" % str(i)[:300])
                if isinstance(i, (BoolT, Cat)):
                    raise Unsupported("symbolic index")
                return self._padd(p, to_signed(i & mask(bits), bits) * stride)

            res = self.lift2(f, res, idx)
        return res

    @staticmethod
    def _padd(p, k):
        if not isinstance(p, int):
            raise Unsupported("non-concrete pointer leaf %r" % (p,))
        return (p + k) & MASK[64]


# ============================================================================
# leaf operations
# ============================================================================
def _t(x, w):
    """payload -> Term view (ints become constant terms; signed-small representative for big ints)"""
    if isinstance(x, Term):
        return x
    if isinstance(x, int):
        if x >> (w - 1) and w > 1:
            x = x - (1 << w)
        return Term(z3.IntVal(x), x, x)
    if isinstance(x, float):
        if x != int(x) or abs(x) >= 2 ** 53:
            raise Unsupported("non-integral double mixed with symbolic term")
        x = int(x)
        return Term(z3.IntVal(x), x, x)
    if isinstance(x, BoolT):
        return Term(z3.If(x.e, z3.IntVal(1), z3.IntVal(0)), 0, 1)
    raise Unsupported("term view of %r" % (x,))


def _bexpr(x):
    if isinstance(x, BoolT):
        return x.e
    if isinstance(x, int):
        return z3.BoolVal(bool(x & 1))
    if isinstance(x, Term) and x.lo >= 0 and x.hi <= 1:
        return x.e != 0
    raise Unsupported("boolean view of %r" % (x,))


class Ops:
    def bin(self, op, w, x, y):
        if isinstance(x, int) and isinstance(y, int):
            return self.bin_int(op, w, x, y)
        if isinstance(x, float) or isinstance(y, float):
            if isinstance(x, float) and isinstance(y, float):
                return self.bin_float(op, x, y)
        if isinstance(x, Cat) or isinstance(y, Cat):
            return self.bin_cat(op, w, x, y)
        if w == 1:
            a, b = _bexpr(x), _bexpr(y)
            if op == "and":
                return self.boolt(z3.And(a, b))
            if op == "or":
                return self.boolt(z3.Or(a, b))
            if op in ("xor", "add", "sub"):
                return self.boolt(z3.Xor(a, b))
            raise Unsupported("i1 op %s" % op)
        if op in ("add", "fadd"):
            a, b = _t(x, w), _t(y, w)
            return self.shrink(self.addsub(a, b, 1), w)
        if op in ("sub", "fsub"):
            a, b = _t(x, w), _t(y, w)
            return self.shrink(self.addsub(a, b, -1), w)
        if op in ("mul", "fmul"):
            if isinstance(x, Term) and isinstance(y, Term):
                raise Unsupported("symbolic * symbolic")
            t, c = (x, y) if isinstance(x, Term) else (y, x)
            c = _t(c, w).lo
            lo, hi = sorted((t.lo * c, t.hi * c))
            return self.shrink(Term(t.e * c, lo, hi), w)
        if op == "shl" and isinstance(y, int):
            return self.bin("mul", w, x, (1 << y) & mask(w))
        if op == "lshr" and isinstance(y, int) and isinstance(x, Term):
            t = self.fit(x, w)
            return Term(t.e / (1 << y), t.lo >> y, t.hi >> y)
        if op == "and" and (isinstance(x, int) or isinstance(y, int)):
            t, c = (x, y) if isinstance(x, Term) else (y, x)
            if isinstance(t, BoolT):
                t = _t(t, w)
            if c == 0:
                return 0
            if (c + 1) & c == 0:  # 2^k - 1
                if t.lo >= 0 and t.hi <= c:
                    return t
                t = self.fit(t, w)
                if t.hi <= c:
                    return t
                self.stats["mods"] += 1
                return Term(t.e % (c + 1), 0, c)
            raise Unsupported("and of symbolic term with mask %#x" % c)
        if op == "xor" and (isinstance(x, int) or isinstance(y, int)):
            t, c = (x, y) if isinstance(x, Term) else (y, x)
            if isinstance(t, BoolT):
                t = _t(t, w)
            if c == mask(w):
                return self.shrink(Term(-t.e - 1, -t.hi - 1, -t.lo - 1), w)
            if c == 1 and t.lo >= 0 and t.hi <= 1:
                return Term(1 - t.e, 0, 1)
            if c == 0:
                return t
            raise Unsupported("xor of symbolic term with %#x" % c)
        if op == "or" and (isinstance(x, int) or isinstance(y, int)):
            t, c = (x, y) if isinstance(x, Term) else (y, x)
            if c == 0:
                return t
            raise Unsupported("or of symbolic term with %#x" % c)
        if op in ("udiv", "urem") and isinstance(y, int) and y > 0:
            t = self.fit(_t(x, w), w)
            if op == "udiv":
                return Term(t.e / y, t.lo // y, t.hi // y)
            self.stats["mods"] += 1
            return Term(t.e % y, 0, y - 1)
        raise Unsupported("binary %s on %r, %r" % (op, x, y))

    def addsub(self, a, b, sign):
        """a + sign*b.  When one operand is an if-then-else tree and the other a plain variable/constant, the
        operation is pushed into the leaves and simplified there, so that `x + w ... - w` chains (incremental
        cost updates) cancel syntactically and the interval stays tight - otherwise every later comparison
        needs a solver query to exclude a wrap-around."""
        ea, eb = a.e, b.e
        lo, hi = (a.lo + b.lo, a.hi + b.hi) if sign > 0 else (a.lo - b.hi, a.hi - b.lo)
        if not self.push_addsub:
            return Term(ea + eb if sign > 0 else ea - eb, lo, hi)
        simple_b = z3.is_int_value(eb) or eb.decl().kind() == z3.Z3_OP_UNINTERPRETED
        simple_a = z3.is_int_value(ea) or ea.decl().kind() == z3.Z3_OP_UNINTERPRETED
        if simple_b and not simple_a and ea.decl().kind() in (z3.Z3_OP_ITE, z3.Z3_OP_ADD, z3.Z3_OP_SUB):
            e, (l2, h2) = self._push(ea, eb, sign, False, {})
            return Term(e, max(lo, l2), min(hi, h2)) if l2 is not None else Term(e, lo, hi)
        if simple_a and not simple_b and sign > 0 and eb.decl().kind() in (z3.Z3_OP_ITE, z3.Z3_OP_ADD, z3.Z3_OP_SUB):
            e, (l2, h2) = self._push(eb, ea, 1, False, {})
            return Term(e, max(lo, l2), min(hi, h2)) if l2 is not None else Term(e, lo, hi)
        return Term(ea + eb if sign > 0 else ea - eb, lo, hi)

    def _push(self, e, k, sign, _unused, memo):
        """(e + sign*k) with the addition pushed through if-then-else nodes; returns (expr, (lo, hi)) where the
        interval is the hull over the leaves computed from the input ranges (None if not computable)."""
        key = e.get_id()
        hit = memo.get(key)
        if hit is not None:
            return hit
        if e.decl().kind() == z3.Z3_OP_ITE and len(memo) < 400:
            t, it1 = self._push(e.arg(1), k, sign, False, memo)
            f, it2 = self._push(e.arg(2), k, sign, False, memo)
            r = z3.If(e.arg(0), t, f)
            iv = (min(it1[0], it2[0]), max(it1[1], it2[1])) if it1[0] is not None and it2[0] is not None else (None, None)
        else:
            r = z3.simplify(e + k if sign > 0 else e - k)
            iv = self.linear_interval(r)
        memo[key] = (r, iv)
        return r, iv

    def linear_interval(self, e):
        """interval of a linear combination of input variables (None, None if e is not of that form)"""
        try:
            return self._lin(e)
        except ValueError:
            return (None, None)

    def _lin(self, e):
        k = e.get_id()
        hit = self.lin_cache.get(k)
        if hit is not None:
            return hit[0]
        r = self._lin1(e)
        self.lin_cache[k] = (r, e)
        return r

    def _lin1(self, e):
        if z3.is_int_value(e):
            v = e.as_long()
            return (v, v)
        d = e.decl().kind()
        if d == z3.Z3_OP_UNINTERPRETED:
            x = self.inputs.get(e.decl().name())
            if x is None:
                raise ValueError
            return (x[1], x[2])
        if d == z3.Z3_OP_ADD:
            lo = hi = 0
            for c in e.children():
                a, b = self._lin(c)
                lo += a
                hi += b
            return (lo, hi)
        if d == z3.Z3_OP_MUL and e.num_args() == 2 and z3.is_int_value(e.arg(0)):
            c = e.arg(0).as_long()
            a, b = self._lin(e.arg(1))
            return tuple(sorted((a * c, b * c)))
        if d == z3.Z3_OP_ITE:
            a, b = self._lin(e.arg(1))
            c, dd = self._lin(e.arg(2))
            return (min(a, c), max(b, dd))
        raise ValueError

    def shrink(self, t, w):
        """keep intervals from growing without bound through long +/- chains"""
        if t.hi - t.lo > (1 << (w + 2)):
            return self.fit(t, w)
        return t

    def boolt(self, e):
        e = z3.simplify(e)
        if z3.is_true(e):
            return 1
        if z3.is_false(e):
            return 0
        return BoolT(e)

    def bin_int(self, op, w, x, y):
        m = mask(w)
        if op == "add":
            return (x + y) & m
        if op == "sub":
            return (x - y) & m
        if op == "mul":
            return (x * y) & m
        if op == "and":
            return x & y
        if op == "or":
            return x | y
        if op == "xor":
            return x ^ y
        if op == "shl":
            return (x << y) & m if y < w else 0
        if op == "lshr":
            return x >> y if y < w else 0
        if op == "ashr":
            return (to_signed(x, w) >> min(y, w - 1)) & m
        if op == "udiv":
            if y == 0:
                raise AbortSide("ub", "division by zero")
            return x // y
        if op == "urem":
            if y == 0:
                raise AbortSide("ub", "division by zero")
            return x % y
        if op in ("sdiv", "srem"):
            a, b = to_signed(x, w), to_signed(y, w)
            if b == 0:
                raise AbortSide("ub", "division by zero")
            q = abs(a) // abs(b)
            if (a < 0) != (b < 0):
                q = -q
            return (q if op == "sdiv" else a - q * b) & m
        raise Unsupported("int op %s" % op)

    def bin_float(self, op, x, y):
        if op == "fadd":
            return x + y
        if op == "fsub":
            return x - y
        if op == "fmul":
            return x * y
        if op == "fdiv":
            return x / y if y != 0 else (math.inf if x > 0 else -math.inf if x < 0 else math.nan)
        raise Unsupported("float op %s" % op)

    def bin_cat(self, op, w, x, y):
        if isinstance(x, Cat) and isinstance(y, int):
            size = sum(n for n, p in x.parts)
            if op == "lshr" and y % 8 == 0:
                return self.extract(x, size, y // 8, size - y // 8)
            if op == "and" and (y + 1) & y == 0 and (y.bit_length() % 8) == 0:
                return self.extract(x, size, 0, y.bit_length() // 8)
        raise Unsupported("operation %s on a concatenated value" % op)

    # ------------------------------------------------------------------ icmp
    def icmp(self, pred, w, x, y):
        if isinstance(x, int) and isinstance(y, int):
            return int(self.cmp_int(pred, w, x, y))
        if isinstance(x, Cat) or isinstance(y, Cat):
            raise Unsupported("comparison of a concatenated value")
        if w == 1:
            a, b = _bexpr(x), _bexpr(y)
            if pred == 32:
                return self.boolt(a == b)
            if pred == 33:
                return self.boolt(z3.Xor(a, b))
            raise Unsupported("ordered compare on i1")
        signed = pred >= 38
        if pred in (32, 33) and self.push_addsub:
            # equality: any common representative will do - prefer the one that needs no wrap analysis
            ta, tb = _t(x, w), _t(y, w)
            half = 1 << (w - 1)
            if not (ta.lo >= 0 and tb.lo >= 0 and ta.hi < (1 << w) and tb.hi < (1 << w)) and -half <= ta.lo and ta.hi < half and -half <= tb.lo and tb.hi < half:
                signed = True
        a, b = self.fit(_t(x, w), w, signed), self.fit(_t(y, w), w, signed)
        if isinstance(x, int) and not signed:
            a = Term(z3.IntVal(x), x, x)
        if isinstance(y, int) and not signed:
            b = Term(z3.IntVal(y), y, y)
        p = {32: "eq", 33: "ne", 34: "gt", 35: "ge", 36: "lt", 37: "le", 38: "gt", 39: "ge", 40: "lt", 41: "le"}[pred]
        return self.cmp_terms(p, a, b)

    def cmp_terms(self, p, a, b):
        if p == "eq":
            if a.hi < b.lo or b.hi < a.lo:
                return 0
            if a.lo == a.hi == b.lo == b.hi:
                return 1
            return self.boolt(a.e == b.e)
        if p == "ne":
            r = self.cmp_terms("eq", a, b)
            return 1 - r if isinstance(r, int) else self.boolt(z3.Not(r.e))
        if p == "gt":
            return self.cmp_terms("lt", b, a)
        if p == "ge":
            return self.cmp_terms("le", b, a)
        if p == "lt":
            if a.hi < b.lo:
                return 1
            if a.lo >= b.hi:
                return 0
            return self.boolt(a.e < b.e)
        if p == "le":
            if a.hi <= b.lo:
                return 1
            if a.lo > b.hi:
                return 0
            return self.boolt(a.e <= b.e)

    @staticmethod
    def cmp_int(pred, w, x, y):
        if pred >= 38:
            x, y = to_signed(x, w), to_signed(y, w)
        return {32: x == y, 33: x != y, 34: x > y, 35: x >= y, 36: x < y, 37: x <= y, 38: x > y, 39: x >= y, 40: x < y, 41: x <= y}[pred]

    def fcmp(self, pred, x, y):
        if isinstance(x, float) and isinstance(y, float):
            un = x != x or y != y
            base = {1: x == y, 2: x > y, 3: x >= y, 4: x < y, 5: x <= y, 6: x != y, 7: not un, 8: un, 9: x == y, 10: x > y, 11: x >= y, 12: x < y, 13: x <= y, 14: x != y}[pred]
            if un:
                return int(pred >= 8)
            return int(base)
        a, b = _t(x, 64), _t(y, 64)
        p = {1: "eq", 2: "gt", 3: "ge", 4: "lt", 5: "le", 6: "ne", 9: "eq", 10: "gt", 11: "ge", 12: "lt", 13: "le", 14: "ne"}.get(pred)
        if p is None:
            return int(pred == 7)
        return self.cmp_terms(p, a, b)

    # ------------------------------------------------------------------ casts
    def cast(self, op, sw, dw, x, dt):
        if op in ("bitcast", "ptrtoint", "inttoptr", "addrspacecast"):
            if isinstance(x, int) and op != "bitcast":
                return x & mask(dw)
            if op == "bitcast" and dt["k"] in ("double", "float") and isinstance(x, int):
                return struct.unpack("<d", struct.pack("<Q", x))[0] if dw == 64 else struct.unpack("<f", struct.pack("<I", x))[0]
            if op == "bitcast" and dt["k"] == "int" and isinstance(x, float):
                return struct.unpack("<Q", struct.pack("<d", x))[0] if dw == 64 else struct.unpack("<I", struct.pack("<f", x))[0]
            return x
        if op == "zext":
            if isinstance(x, int):
                return x
            if isinstance(x, BoolT):
                lit = self.lits.literal(x.e)
                return GU([(frozenset([lit]), 1), (frozenset([(lit[0], not lit[1])]), 0)])
            if isinstance(x, Term):
                return self.fit(x, sw)
            if isinstance(x, Cat):
                return x
        if op == "sext":
            if isinstance(x, int):
                return to_signed(x, sw) & mask(dw)
            if isinstance(x, BoolT):
                lit = self.lits.literal(x.e)
                return GU([(frozenset([lit]), mask(dw)), (frozenset([(lit[0], not lit[1])]), 0)])
            if isinstance(x, Term):
                return self.fit(x, sw, True)
        if op == "trunc":
            if isinstance(x, int):
                return x & mask(dw)
            if isinstance(x, Cat):
                size = sum(n for n, p in x.parts)
                if dw % 8 == 0:
                    return self.extract(x, size, 0, dw // 8)
                if dw == 1:
                    return self.cast("trunc", 8, 1, self.extract(x, size, 0, 1), dt)
            if isinstance(x, Term):
                if dw == 1:
                    if x.lo >= 0 and x.hi <= 1:
                        return self.boolt(x.e != 0)
                    self.stats["mods"] += 1
                    return self.boolt(x.e % 2 != 0)
                return x
            if isinstance(x, BoolT):
                return x
        if op in ("uitofp", "sitofp"):
            if isinstance(x, int):
                return float(x if op == "uitofp" else to_signed(x, sw))
            if isinstance(x, BoolT):
                return _t(x, 1)
            if isinstance(x, Term):
                return self.fit(x, sw, op == "sitofp")
        if op in ("fptoui", "fptosi"):
            if isinstance(x, float):
                if x != x or abs(x) >= 2 ** 63:
                    return 0
                return int(x) & mask(dw)
            if isinstance(x, Term):
                return x
        if op in ("fpext", "fptrunc"):
            if isinstance(x, float):
                return struct.unpack("<f", struct.pack("<f", x))[0] if op == "fptrunc" else x
            return x
        raise Unsupported("cast %s of %r" % (op, x))


# ============================================================================
# execution
# ============================================================================
BINOPS = {"add", "sub", "mul", "and", "or", "xor", "shl", "lshr", "ashr", "udiv", "urem", "sdiv", "srem", "fadd", "fsub", "fmul", "fdiv"}
CASTS = {"bitcast", "ptrtoint", "inttoptr", "zext", "sext", "trunc", "uitofp", "sitofp", "fptoui", "fptosi", "fpext", "fptrunc", "addrspacecast"}


class Exec:
    # -- path handling -------------------------------------------------------------
    def push_lits(self, lits):
        for a, p in lits:
            if a in self.path:
                if self.path[a] != p:
                    raise AbortSide("infeasible", "contradictory side")
                continue
            self.path[a] = p
            self.path_stack.append(a)
            if p:
                # atoms registered as mutually exclusive with a (value-set inputs): a true => the others false
                for b in self.excl.get(a, ()):
                    if b in self.path:
                        if self.path[b]:
                            raise AbortSide("infeasible", "contradictory side")
                        continue
                    self.path[b] = False
                    self.path_stack.append(b)

    def pop_to(self, mark):
        while len(self.path_stack) > mark:
            del self.path[self.path_stack.pop()]

    def cur_guard(self):
        return [(a, self.path[a]) for a in self.path_stack]

    def record_abort(self, a):
        if a.kind == "infeasible":
            return
        self.stats["aborts"] += 1
        self.aborts.append((self.cur_guard(), a.kind, a.msg))

    # -- calls ------------------------------------------------------------------------
    def call(self, fname, args):
        F = self.mod.funcs.get(fname)
        if F is None or F.declared:
            return self.external(fname, args)
        if self.time_budget is not None and time.time() - self.t0 > self.time_budget:
            raise Unsupported("time budget exceeded while interpreting")
        frame = Frame(F)
        for a, v in zip(F.args, args):
            frame.regs[a["id"]] = v
        self.depth += 1
        if self.depth > self.stats["max_depth"]:
            self.stats["max_depth"] = self.depth
        if self.depth > self.max_depth:
            raise Unsupported("path/call depth > %d (symbolic loop bound?)" % self.max_depth)
        try:
            kind, v = self.run(frame, 0, None, None, 0)
        except Unsupported as u:
            if not getattr(u, "where", None):
                u.where = fname
                u.args = ("%s [in %s]" % (u.args[0], fname),)
            raise
        finally:
            self.depth -= 1
        return v

    def call_value(self, callee, args):
        """callee: concrete function address or value set of addresses"""
        if isinstance(callee, GU):
            raise Unsupported("indirect call through a value set")
        name = self.addr_func.get(callee)
        if name is None:
            raise Unsupported("call through unknown function pointer %#x" % callee)
        return self.call(name, args)

    # -- the block loop ----------------------------------------------------------------
    def run(self, frame, bid, prev, stop, start_idx):
        F = frame.func
        blocks = F.blocks
        regs = frame.regs
        skip_phis = start_idx != 0
        while True:
            if bid == stop:
                return ("join", prev, skip_phis)
            B = blocks[bid]
            insts = B.insts
            if not skip_phis:
                if B.phis:
                    vals = [self.val(frame, ph["incmap"][prev]) for ph in B.phis]
                    for ph, v in zip(B.phis, vals):
                        regs[ph["id"]] = v
                i = B.first_non_phi
            else:
                i = start_idx if start_idx > 0 else B.first_non_phi
                skip_phis = False
                start_idx = 0
            n = len(insts)
            nxt = None
            while i < n:
                ins = insts[i]
                op = ins["op"]
                self.stats["instr"] += 1
                self.cur_site = (F.name, bid, i)
                if op == "load":
                    addr = self.val(frame, ins["args"][0])
                    size = ins["size"]
                    if isinstance(addr, GU):
                        alts = []
                        for g, p in addr.alts:
                            if not isinstance(p, int):
                                raise Unsupported("load through non-concrete address leaf")
                            v = self.mem_load(p, size, ins["t"])
                            for g2, p2 in alts_of(v):
                                gg = conj(g, g2)
                                if gg is not None:
                                    alts.append((gg, p2))
                        v = self.mk2(alts)
                    else:
                        v = self.mem_load(addr, size, ins["t"])
                    if isinstance(v, GU) and ins["t"]["k"] == "ptr":
                        v = restrict(v, self.path)
                    if isinstance(v, GU) and ins["t"]["k"] == "ptr":
                        # pointer-typed value set: n-way split of the rest of the region
                        self.stats["splits"] += 1
                        join = B.ipdom if B.ipdom >= 0 else None
                        groups = {}
                        for g, p in v.alts:
                            groups.setdefault(p, []).append(g)
                        sides = []
                        glits = []
                        for p, gs in groups.items():
                            e = self.lits.guard_expr(gs[0]) if len(gs) == 1 else z3.Or(*[self.lits.guard_expr(g) for g in gs])
                            glits.append((self.lits.literal(e), p))
                        for lit, p in glits:
                            # the groups are mutually exclusive: entering one falsifies the others
                            gg = frozenset([lit] + [(l2[0], not l2[1]) for l2, p2 in glits if l2 != lit and l2[0] != lit[0]])
                            sides.append((gg, (bid, prev, i + 1, {ins["id"]: p})))
                        # registers defined in the rest of this block dominate the join: merge them too
                        extra = [x["id"] for x in insts[i:] if "id" in x]
                        res = self.run_sides(frame, sides, join, extra)
                        if res[0] == "ret":
                            return res
                        bid, prev, skip_phis, start_idx = res[1], res[2], True, -1
                        nxt = "cont"
                        break
                    regs[ins["id"]] = v
                elif op == "store":
                    v = self.val(frame, ins["args"][0])
                    addr = self.val(frame, ins["args"][1])
                    self.mem_store(addr, ins["size"], v)
                elif op == "getelementptr":
                    try:
                        regs[ins["id"]] = self.gep(ins["gep"], frame)
                    except Unsupported as u:
                        u.args = (u.args[0][:200] + " @block %d gep %s" % (bid, str(ins["gep"])[:300]),)
                        raise
                elif op in BINOPS:
                    a = self.val(frame, ins["args"][0])
                    b = self.val(frame, ins["args"][1])
                    w = ins["t"]["bits"]
                    if isinstance(a, int) and isinstance(b, int):
                        regs[ins["id"]] = self.bin_int(op, w, a, b)
                    else:
                        regs[ins["id"]] = self.lift2(lambda x, y, op=op, w=w: self.bin(op, w, x, y), a, b)
                elif op == "icmp":
                    a = self.val(frame, ins["args"][0])
                    b = self.val(frame, ins["args"][1])
                    w = ins["st"]["bits"]
                    pred = ins["pred"]
                    if isinstance(a, int) and isinstance(b, int):
                        regs[ins["id"]] = int(self.cmp_int(pred, w, a, b))
                    else:
                        regs[ins["id"]] = self.lift2(lambda x, y, pred=pred, w=w: self.icmp(pred, w, x, y), a, b)
                elif op == "fcmp":
                    a = self.val(frame, ins["args"][0])
                    b = self.val(frame, ins["args"][1])
                    regs[ins["id"]] = self.lift2(lambda x, y, pred=ins["pred"]: self.fcmp(pred, x, y), a, b)
                elif op in CASTS:
                    a = self.val(frame, ins["args"][0])
                    sw, dw = ins["st"].get("bits", 64), ins["t"].get("bits", 64)
                    regs[ins["id"]] = self.lift1(lambda x, op=op, sw=sw, dw=dw, dt=ins["t"]: self.cast(op, sw, dw, x, dt), a)
                elif op == "select":
                    c = self.val(frame, ins["args"][0])
                    a = self.val(frame, ins["args"][1])
                    b = self.val(frame, ins["args"][2])
                    regs[ins["id"]] = self.select(c, a, b)
                elif op == "br":
                    if "cond" not in ins:
                        nxt = ins["T"]
                    else:
                        c = self.val(frame, ins["cond"])
                        if isinstance(c, int):
                            nxt = ins["T"] if c & 1 else ins["F"]
                        else:
                            sides = self.cond_sides(c, ins["T"], ins["F"], bid)
                            if len(sides) == 1:
                                self.push_lits(sides[0][0])
                                nxt = sides[0][1][0]
                            else:
                                self.stats["merges"] += 1
                                join = B.ipdom if B.ipdom >= 0 else None
                                res = self.run_sides(frame, sides, join)
                                if res[0] == "ret":
                                    return res
                                bid, prev, skip_phis, start_idx = res[1], res[2], True, -1
                                nxt = "cont"
                    break
                elif op == "switch":
                    c = self.val(frame, ins["cond"])
                    w = ins["cond"] and 32
                    if isinstance(c, int):
                        nxt = ins["default"]
                        for cv, tb in ins["cases"]:
                            if int(cv) == c:
                                nxt = tb
                                break
                    else:
                        sides = self.switch_sides(c, ins, bid)
                        if len(sides) == 1:
                            self.push_lits(sides[0][0])
                            nxt = sides[0][1][0]
                        else:
                            self.stats["merges"] += 1
                            join = B.ipdom if B.ipdom >= 0 else None
                            res = self.run_sides(frame, sides, join)
                            if res[0] == "ret":
                                return res
                            bid, prev, skip_phis, start_idx = res[1], res[2], True, -1
                            nxt = "cont"
                    break
                elif op == "call" or op == "invoke":
                    cal = ins["callee"]
                    args = [self.val(frame, a) for a in ins["args"]]
                    for k, bv in enumerate(ins["byval"]):
                        if bv:
                            cp = self.alloc(bv)
                            self.memcpy(cp, args[k], bv)
                            args[k] = cp
                    if cal["v"] == "func":
                        r = self.call(cal["name"], args)
                    elif cal["v"] == "asm":
                        r = None
                    else:
                        r = self.call_value(self.val(frame, cal), args)
                    if "id" in ins:
                        regs[ins["id"]] = r
                    if op == "invoke":
                        nxt = ins["normal"]
                        break
                elif op == "ret":
                    v = self.val(frame, ins["args"][0]) if ins["args"] else None
                    return ("ret", v)
                elif op == "alloca":
                    cnt = self.val(frame, ins["args"][0])
                    if not isinstance(cnt, int):
                        raise Unsupported("alloca with symbolic count")
                    regs[ins["id"]] = self.alloc(ins["asize"] * cnt)
                elif op == "unreachable":
                    raise AbortSide("unreachable", "reached unreachable in %s" % F.name)
                elif op == "extractvalue":
                    a = self.val(frame, ins["args"][0])
                    for ix in ins["idx"]:
                        a = a[ix]
                    regs[ins["id"]] = a
                elif op == "insertvalue":
                    a = self.val(frame, ins["args"][0])
                    v = self.val(frame, ins["args"][1])
                    a = self._insert(a, ins["idx"], v)
                    regs[ins["id"]] = a
                elif op == "landingpad" or op == "resume":
                    raise AbortSide("throw", "exception propagation reached %s" % F.name)
                elif op == "fneg":
                    a = self.val(frame, ins["args"][0])
                    regs[ins["id"]] = self.lift1(lambda x: -x if isinstance(x, float) else self.bin("sub", 64, 0, x), a)
                elif op == "freeze":
                    regs[ins["id"]] = self.val(frame, ins["args"][0])
                else:
                    raise Unsupported("opcode %s" % op)
                i += 1
            if nxt == "cont":
                continue
            if nxt is None:
                raise Unsupported("block without terminator")
            prev, bid = bid, nxt

    @staticmethod
    def _insert(agg, idx, v):
        agg = list(agg)
        if len(idx) == 1:
            agg[idx[0]] = v
        else:
            agg[idx[0]] = Exec._insert(agg[idx[0]], idx[1:], v)
        return agg

    # -- symbolic control flow ---------------------------------------------------------
    def cond_sides(self, c, tb, fb, bid):
        sides = []
        for g, p in alts_of(c):
            if contradicts(g, self.path):
                continue
            g = frozenset(l for l in g if l[0] not in self.path)
            if isinstance(p, int):
                sides.append((g, (tb if p & 1 else fb, bid, 0, None)))
            elif isinstance(p, BoolT):
                lit = self.lits.literal(p.e)
                q = self.path.get(lit[0])
                if q is not None:
                    sides.append((g, (tb if q == lit[1] else fb, bid, 0, None)))
                else:
                    sides.append((g | {lit}, (tb, bid, 0, None)))
                    sides.append((g | {(lit[0], not lit[1])}, (fb, bid, 0, None)))
            elif isinstance(p, Term) and p.lo >= 0 and p.hi <= 1:
                lit = self.lits.literal(p.e != 0)
                sides.append((g | {lit}, (tb, bid, 0, None)))
                sides.append((g | {(lit[0], not lit[1])}, (fb, bid, 0, None)))
            else:
                raise Unsupported("branch on %r" % (p,))
        return self.group_sides(sides)

    def switch_sides(self, c, ins, bid):
        sides = []
        cases = [(int(cv), tb) for cv, tb in ins["cases"]]
        for g, p in alts_of(c):
            if contradicts(g, self.path):
                continue
            g = frozenset(l for l in g if l[0] not in self.path)
            if isinstance(p, int):
                tgt = ins["default"]
                for cv, tb in cases:
                    if cv == p:
                        tgt = tb
                sides.append((g, (tgt, bid, 0, None)))
            elif isinstance(p, Term):
                t = self.fit(p, 32)
                rest = []
                for cv, tb in cases:
                    if t.lo <= cv <= t.hi:
                        lit = self.lits.literal(t.e == cv)
                        sides.append((g | {lit}, (tb, bid, 0, None)))
                        rest.append((lit[0], not lit[1]))
                ncov = sum(1 for cv, tb in cases if t.lo <= cv <= t.hi)
                if ncov < t.hi - t.lo + 1:
                    sides.append((g | set(rest), (ins["default"], bid, 0, None)))
            else:
                raise Unsupported("switch on %r" % (p,))
        return sides

    @staticmethod
    def group_sides(sides):
        return sides

    def run_sides(self, frame, sides, join, extra_regs=()):
        """Execute each side from its entry up to `join` (or to the function's
        return when join is None), then merge.  Returns ('ret', value) or
        ('cont', join_block, prev) with frame.regs updated (phis of the join
        block already assigned)."""
        brk0 = self.brk
        done = []
        F = frame.func
        for lits, (sb, sprev, sidx, over) in sides:
            mark = len(self.path_stack)
            self.mem.push()
            self.brk = brk0
            f2 = Frame(F)
            f2.regs = dict(frame.regs)
            if over:
                f2.regs.update(over)
            try:
                self.push_lits(lits)
                if sb in F.live or join is None:
                    o = self.run(f2, sb, sprev, join, sidx)
                else:
                    o = self.run(f2, sb, sprev, None, sidx)  # dead-end block: must abort
            except AbortSide as a:
                self.record_abort(a)
                o = None
            ov = self.mem.pop()
            self.pop_to(mark)
            if o is not None:
                done.append((frozenset(lits), o, ov, f2, self.brk))
        if not done:
            raise AbortSide("infeasible", "all sides aborted")
        self.brk = max(d[4] for d in done)
        if len(done) == 1:
            lits, o, ov, f2, _ = done[0]
            self.push_lits(lits)  # persists until the enclosing side / call ends
            top = self.mem.levels[-1]
            for a, c in ov.items():
                if c.size:
                    self.mem.store(a, c.size, c.val)
                else:
                    top[a] = c
            frame.regs.update(f2.regs)  # in place: run() holds an alias of this dict
            if o[0] == "ret":
                return o
            B = F.blocks[join]
            if B.phis and not o[2]:
                vals = [self.val(frame, ph["incmap"][o[1]]) for ph in B.phis]
                for ph, v in zip(B.phis, vals):
                    frame.regs[ph["id"]] = v
            return ("cont", join, o[1])
        kinds = {d[1][0] for d in done}
        if len(kinds) != 1:
            raise Unsupported("sides end differently (return vs join)")
        self.mem.merge([(d[0], d[2]) for d in done])
        if "ret" in kinds:
            alts = []
            for lits, o, ov, f2, _ in done:
                for g2, p in alts_of(o[1]):
                    gg = conj(lits, g2)
                    if gg is not None:
                        alts.append((gg, p))
            if all(p is None for g, p in alts):
                return ("ret", None)
            return ("ret", self.merge_vals(alts))
        B = F.blocks[join]
        newvals = []
        for ph in B.phis:
            alts = []
            for lits, o, ov, f2, _ in done:
                if o[2]:
                    v = f2.regs[ph["id"]]  # phis of the join block already merged by an inner region ending at the same block
                else:
                    inc = ph["incmap"][o[1]]
                    if inc["v"] == "local" and inc["id"] not in f2.regs:
                        raise Unsupported("phi merge: incoming %r of phi %s from block %s undefined in side (func %s join %s, %d sides)" % (inc, ph["id"], o[1], F.name, join, len(done)))
                    v = f2.regs[inc["id"]] if inc["v"] == "local" else self.const(inc)
                for g2, p in alts_of(v):
                    gg = conj(lits, g2)
                    if gg is not None:
                        alts.append((gg, p))
            newvals.append(self.merge_vals(alts))
        for rid in extra_regs:
            alts = []
            for lits, o, ov, f2, _ in done:
                if rid not in f2.regs:
                    alts = None
                    break
                for g2, p in alts_of(f2.regs[rid]):
                    gg = conj(lits, g2)
                    if gg is not None:
                        alts.append((gg, p))
            if alts:
                frame.regs[rid] = self.merge_vals(alts)
        for ph, v in zip(B.phis, newvals):
            frame.regs[ph["id"]] = v
        return ("cont", join, done[0][1][1])

    def merge_vals(self, alts):
        if any(isinstance(p, list) for g, p in alts):
            # aggregates: merge element-wise
            n = len(alts[0][1])
            return [self.merge_vals([(g, p[i]) for g, p in alts]) for i in range(n)]
        return self.mk2(alts)

    def select(self, c, a, b):
        if isinstance(c, int):
            return a if c & 1 else b
        out = []
        for g, p in alts_of(c):
            if isinstance(p, int):
                src = [(a if p & 1 else b, None)]
            else:
                e = _bexpr(p)
                lit = self.lits.literal(e)
                src = [(a, lit), (b, (lit[0], not lit[1]))]
            for v, lit in src:
                for g2, p2 in alts_of(v):
                    gg = conj(g, g2)
                    if gg is None:
                        continue
                    if lit is not None:
                        gg = conj(gg, frozenset([lit]))
                        if gg is None:
                            continue
                    out.append((gg, p2))
        return self.merge_vals(out)

    # -- memory access with value-set addresses ---------------------------------------------
    def mem_load(self, addr, size, t):
        if not isinstance(addr, int):
            raise Unsupported("load through %r" % (addr,))
        if addr < 4096:
            raise AbortSide("ub", "null pointer load")
        v = self.mem.load(addr, size)
        k = t["k"]
        if k == "double" and isinstance(v, int):
            return struct.unpack("<d", struct.pack("<Q", v))[0]
        if k == "float" and isinstance(v, int):
            return struct.unpack("<f", struct.pack("<I", v))[0]
        if k in ("int", "ptr") and isinstance(v, float):
            return struct.unpack("<Q", struct.pack("<d", v))[0] if size == 8 else struct.unpack("<I", struct.pack("<f", v))[0]
        if k == "int" and t["bits"] == 1 and isinstance(v, int):
            return v & 1
        return v

    def mem_store(self, addr, size, v):
        if isinstance(v, list):
            raise Unsupported("store of aggregate value")
        if isinstance(addr, GU):
            for g, p in addr.alts:
                if not isinstance(p, int):
                    raise Unsupported("store through non-concrete address leaf")
                old = self.mem.load(p, size)
                alts = []
                for g2, p2 in alts_of(v):
                    gg = conj(g, g2)
                    if gg is not None:
                        alts.append((gg, p2))
                for g3, p3 in alts_of(old):
                    for g4, _ in addr.alts:
                        if g4 is g:
                            continue
                        gg = conj(g4, g3)
                        if gg is not None:
                            alts.append((gg, p3))
                self.mem.store(p, size, self.merge_vals(alts))
            return
        if not isinstance(addr, int):
            raise Unsupported("store through %r" % (addr,))
        if addr < 4096:
            raise AbortSide("ub", "null pointer store")
        self.mem.store(addr, size, v)

    def memcpy(self, dst, src, n):
        if not (isinstance(dst, int) and isinstance(src, int) and isinstance(n, int)):
            raise Unsupported("memcpy with non-concrete arguments")
        if n == 0 or dst == src:
            return
        # gather source cells first (memmove semantics)
        cells = []
        pos = src
        end = src + n
        while pos < end:
            c = self.mem.lookup(pos)
            if c is not None and pos + c.size <= end:
                cells.append((pos - src, c.size, c.val))
                pos += c.size
            else:
                cells.append((pos - src, 1, self.mem.load(pos, 1)))
                pos += 1
        for off, size, val in cells:
            self.mem.store(dst + off, size, val)

    def read_bytes(self, addr, n):
        out = bytearray()
        for i in range(n):
            b = self.mem.load(addr + i, 1)
            if not isinstance(b, int):
                raise Unsupported("symbolic byte in a string/buffer read")
            out.append(b & 255)
        return bytes(out)

    def read_cstr(self, addr, limit=4096):
        out = bytearray()
        for i in range(limit):
            b = self.mem.load(addr + i, 1)
            if not isinstance(b, int):
                raise Unsupported("symbolic byte in C string")
            if b == 0:
                break
            out.append(b)
        return bytes(out)

    def write_bytes(self, addr, data):
        for i, b in enumerate(data):
            self.mem.store(addr + i, 1, b)


# ============================================================================
# externals (libstdc++ / libc / intrinsics actually reached by the core)
# ============================================================================
_libstdcxx = None


def libstdcxx():
    global _libstdcxx
    if _libstdcxx is None:
        _libstdcxx = ctypes.CDLL("libstdc++.so.6")
    return _libstdcxx


class _Policy(ctypes.Structure):
    _fields_ = [("max_load", ctypes.c_float), ("next_resize", ctypes.c_size_t)]


class _PairBS(ctypes.Structure):
    _fields_ = [("first", ctypes.c_bool), ("second", ctypes.c_size_t)]


class Externals:
    def external(self, name, args):
        h = EXT.get(name)
        if h is None:
            for pre, fn in EXT_PREFIX:
                if name.startswith(pre):
                    h = fn
                    break
        if h is None:
            raise Unsupported("external function %s is not modelled" % name)
        return h(self, name, args)

    # inputs / outputs ------------------------------------------------------------------
    def x_sym_u32(self, name, args):
        nm = self.read_cstr(args[0]).decode()
        lo, hi = args[1], args[2]
        if not self.symbolic:
            v = self.concrete_inputs.get(nm, lo)
            return v & MASK[32]
        if nm in self.inputs:
            raise Unsupported("input %s read twice" % nm)
        x = z3.Int(nm)
        self.inputs[nm] = (x, lo, hi)
        c = z3.And(x >= lo, x <= hi)
        self.constraints.append(c)
        self.solver.add(c)
        if lo == hi:
            return lo
        return Term(x, lo, hi)

    def x_sym_vs(self, name, args):
        """input kept as a *value set*: one alternative per value, guarded by (x == v); all operations on it stay concrete leaf-wise"""
        nm = self.read_cstr(args[0]).decode()
        lo, hi = args[1], args[2]
        if not self.symbolic:
            return self.concrete_inputs.get(nm, lo) & MASK[32]
        if nm in self.inputs:
            raise Unsupported("input %s read twice" % nm)
        x = z3.Int(nm)
        self.inputs[nm] = (x, lo, hi)
        c = z3.And(x >= lo, x <= hi)
        self.constraints.append(c)
        self.solver.add(c)
        if lo == hi:
            return lo
        lits = [self.lits.literal(x == v) for v in range(lo, hi + 1)]
        for l in lits:
            self.excl[l[0]] = [m[0] for m in lits if m[0] != l[0]]
        return GU([(frozenset([l]), v) for l, v in zip(lits, range(lo, hi + 1))])

    def x_sym_out(self, name, args):
        nm = self.read_cstr(args[0]).decode()
        idx = args[1]
        if not isinstance(idx, int):
            raise Unsupported("symbolic output index")
        v = args[2]
        if isinstance(v, GU):
            v = restrict(v, self.path)
        self.outputs[(nm, idx)] = (self.cur_guard(), v)
        return None


def _x_new(m, name, args):
    n = args[0]
    if not isinstance(n, int):
        raise Unsupported("allocation with non-concrete size")
    if n > (1 << 28):
        raise AbortSide("throw", "bad_alloc (size %d)" % n)
    return m.alloc(n)


def _x_nop(m, name, args):
    return None


def _x_memcpy(m, name, args):
    m.memcpy(args[0], args[1], args[2])
    return args[0]


def _x_memset(m, name, args):
    dst, v, n = args[0], args[1], args[2]
    if not (isinstance(dst, int) and isinstance(v, int) and isinstance(n, int)):
        raise Unsupported("memset with non-concrete arguments")
    v &= 255
    i = 0
    if v == 0 or True:
        word = v * 0x0101010101010101
        while i < n:
            a = dst + i
            if a % 8 == 0 and n - i >= 8:
                m.mem.store(a, 8, word)
                i += 8
            elif a % 4 == 0 and n - i >= 4:
                m.mem.store(a, 4, word & MASK[32])
                i += 4
            else:
                m.mem.store(a, 1, v)
                i += 1
    return dst


def _x_memcmp(m, name, args):
    n = args[2]
    if n == 0:
        return 0
    a, b = m.read_bytes(args[0], n), m.read_bytes(args[1], n)
    return 0 if a == b else ((1 if a > b else -1) & MASK[32])


def _x_strlen(m, name, args):
    return len(m.read_cstr(args[0]))


def _x_umax(m, name, args):
    w = int(name.rsplit(".i", 1)[1])
    return m.lift2(lambda x, y: m.select(m.icmp(34, w, x, y), x, y), args[0], args[1])


def _x_umin(m, name, args):
    w = int(name.rsplit(".i", 1)[1])
    return m.lift2(lambda x, y: m.select(m.icmp(36, w, x, y), x, y), args[0], args[1])


def _x_smax(m, name, args):
    w = int(name.rsplit(".i", 1)[1])
    return m.lift2(lambda x, y: m.select(m.icmp(38, w, x, y), x, y), args[0], args[1])


def _x_smin(m, name, args):
    w = int(name.rsplit(".i", 1)[1])
    return m.lift2(lambda x, y: m.select(m.icmp(40, w, x, y), x, y), args[0], args[1])


def _x_abs(m, name, args):
    w = int(name.rsplit(".i", 1)[1])

    def f(x):
        if isinstance(x, int):
            return abs(to_signed(x, w)) & mask(w)
        t = m.fit(_t(x, w), w, True)
        return Term(z3.If(t.e < 0, -t.e, t.e), 0 if t.lo <= 0 <= t.hi else min(abs(t.lo), abs(t.hi)), max(abs(t.lo), abs(t.hi)))

    return m.lift1(f, args[0])


def _x_ctlz(m, name, args):
    w = int(name.rsplit(".i", 1)[1])
    x = args[0]
    if not isinstance(x, int):
        raise Unsupported("ctlz of symbolic value")
    return w - x.bit_length()


def _x_cttz(m, name, args):
    w = int(name.rsplit(".i", 1)[1])
    x = args[0]
    if not isinstance(x, int):
        raise Unsupported("cttz of symbolic value")
    return w if x == 0 else (x & -x).bit_length() - 1


def _x_math1(fn):
    def h(m, name, args):
        x = args[0]
        if not isinstance(x, float):
            raise Unsupported("%s of non-concrete value" % name)
        return fn(x)

    return h


def _x_pow(m, name, args):
    x, y = args[0], args[1]
    if not (isinstance(x, float) and isinstance(y, float)):
        raise Unsupported("pow of non-concrete value")
    return math.pow(x, y)


def _x_hash_bytes(m, name, args):
    data = m.read_bytes(args[0], args[1])
    f = libstdcxx()._ZSt11_Hash_bytesPKvmm
    f.restype = ctypes.c_size_t
    f.argtypes = [ctypes.c_char_p, ctypes.c_size_t, ctypes.c_size_t]
    return f(data, len(data), args[2])


def _x_need_rehash(m, name, args):
    this = args[0]
    pol = _Policy()
    raw = m.mem.load(this, 4)
    pol.max_load = raw if isinstance(raw, float) else struct.unpack("<f", struct.pack("<I", raw))[0]
    pol.next_resize = m.mem.load(this + 8, 8)
    f = libstdcxx()._ZNKSt8__detail20_Prime_rehash_policy14_M_need_rehashEmmm
    f.restype = _PairBS
    f.argtypes = [ctypes.POINTER(_Policy), ctypes.c_size_t, ctypes.c_size_t, ctypes.c_size_t]
    r = f(ctypes.byref(pol), args[1], args[2], args[3])
    m.mem.store(this + 8, 8, pol.next_resize)
    return [int(r.first), int(r.second)]


def _x_list_hook(m, name, args):
    # void _List_node_base::_M_hook(_List_node_base* position): insert this before position
    this, pos = args[0], args[1]
    prev = m.mem.load(pos + 8, 8)
    m.mem.store(this, 8, pos)  # next
    m.mem.store(this + 8, 8, prev)  # prev
    m.mem.store(prev, 8, this)
    m.mem.store(pos + 8, 8, this)
    return None


def _x_list_unhook(m, name, args):
    this = args[0]
    nxt = m.mem.load(this, 8)
    prev = m.mem.load(this + 8, 8)
    m.mem.store(prev, 8, nxt)
    m.mem.store(nxt + 8, 8, prev)
    return None


# std::string layout: {char* p; size_t len; union {char buf[16]; size_t cap;}}
def _str_cap(m, this):
    p = m.mem.load(this, 8)
    return 15 if p == this + 16 else m.mem.load(this + 16, 8)


def _x_str_create(m, name, args):
    # pointer _M_create(size_type& capacity, size_type old_capacity)
    this, capref, old = args
    cap = m.mem.load(capref, 8)
    if cap > old and cap < 2 * old:
        cap = 2 * old
        m.mem.store(capref, 8, cap)
    return m.alloc(cap + 1)


def _x_str_construct_nc(m, name, args):
    # void _M_construct(size_type n, char c)
    this, n, c = args
    if n > 15:
        p = m.alloc(n + 1)
        m.mem.store(this, 8, p)
        m.mem.store(this + 16, 8, n)
    p = m.mem.load(this, 8)
    for i in range(n):
        m.mem.store(p + i, 1, c & 255)
    m.mem.store(this + 8, 8, n)
    m.mem.store(p + n, 1, 0)
    return None


def _str_set(m, this, data):
    n = len(data)
    p = m.mem.load(this, 8)
    if n > _str_cap(m, this):
        newcap = max(n, 2 * _str_cap(m, this))
        p = m.alloc(newcap + 1)
        m.mem.store(this, 8, p)
        m.mem.store(this + 16, 8, newcap)
    m.write_bytes(p, data + b"\0")
    m.mem.store(this + 8, 8, n)


def _x_str_replace(m, name, args):
    # basic_string& _M_replace(size_type pos, size_type len1, const char* s, size_type len2)
    this, pos, len1, s, len2 = args
    cur = m.read_bytes(m.mem.load(this, 8), m.mem.load(this + 8, 8))
    new = cur[:pos] + m.read_bytes(s, len2) + cur[pos + len1:]
    _str_set(m, this, new)
    return this


def _x_str_append(m, name, args):
    this, s, n = args
    cur = m.read_bytes(m.mem.load(this, 8), m.mem.load(this + 8, 8))
    _str_set(m, this, cur + m.read_bytes(s, n))
    return this


def _x_str_assign(m, name, args):
    # _M_assign(const basic_string&)
    this, other = args
    data = m.read_bytes(m.mem.load(other, 8), m.mem.load(other + 8, 8))
    _str_set(m, this, data)
    return None


def _x_cxa_alloc_exc(m, name, args):
    return m.alloc(args[0] + 128) + 128


def _x_runtime_error_cstr(m, name, args):
    this, s = args
    m.strings[this] = m.read_cstr(s).decode(errors="replace")
    return None


def _x_runtime_error_str(m, name, args):
    this, s = args
    m.strings[this] = m.read_bytes(m.mem.load(s, 8), m.mem.load(s + 8, 8)).decode(errors="replace")
    return None


def _x_throw(m, name, args):
    raise AbortSide("throw", m.strings.get(args[0], "exception"))


def _x_assert_fail(m, name, args):
    raise AbortSide("assert", "%s (%s:%s)" % (m.read_cstr(args[0]).decode(), m.read_cstr(args[1]).decode().split("/")[-1], args[2]))


def _x_throw_named(m, name, args):
    raise AbortSide("throw", name)


def _x_terminate(m, name, args):
    raise AbortSide("terminate", name)


def _x_unsupported_io(m, name, args):
    raise Unsupported("iostream external %s reached" % name)


EXT = {
    "sym_u32": Externals.x_sym_u32,
    "sym_out": Externals.x_sym_out,
    "sym_vs": Externals.x_sym_vs,
    "_Znwm": _x_new,
    "_Znam": _x_new,
    "malloc": _x_new,
    "_ZdlPv": _x_nop,
    "_ZdaPv": _x_nop,
    "_ZdlPvm": _x_nop,
    "free": _x_nop,
    "memcmp": _x_memcmp,
    "bcmp": _x_memcmp,
    "strlen": _x_strlen,
    "memcpy": _x_memcpy,
    "memmove": _x_memcpy,
    "memset": _x_memset,
    "sqrt": _x_math1(math.sqrt),
    "exp2": _x_math1(lambda x: 2.0 ** x),
    "log": _x_math1(math.log),
    "floor": _x_math1(math.floor),
    "ceil": _x_math1(math.ceil),
    "pow": _x_pow,
    "_ZSt11_Hash_bytesPKvmm": _x_hash_bytes,
    "_ZNKSt8__detail20_Prime_rehash_policy14_M_need_rehashEmmm": _x_need_rehash,
    "_ZNSt8__detail15_List_node_base7_M_hookEPS0_": _x_list_hook,
    "_ZNSt8__detail15_List_node_base9_M_unhookEv": _x_list_unhook,
    "_ZNSt7__cxx1112basic_stringIcSt11char_traitsIcESaIcEE9_M_createERmm": _x_str_create,
    "_ZNSt7__cxx1112basic_stringIcSt11char_traitsIcESaIcEE12_M_constructEmc": _x_str_construct_nc,
    "_ZNSt7__cxx1112basic_stringIcSt11char_traitsIcESaIcEE10_M_replaceEmmPKcm": _x_str_replace,
    "_ZNSt7__cxx1112basic_stringIcSt11char_traitsIcESaIcEE9_M_appendEPKcm": _x_str_append,
    "_ZNSt7__cxx1112basic_stringIcSt11char_traitsIcESaIcEE9_M_assignERKS4_": _x_str_assign,
    "__cxa_allocate_exception": _x_cxa_alloc_exc,
    "__cxa_free_exception": _x_nop,
    "_ZNSt13runtime_errorC1EPKc": _x_runtime_error_cstr,
    "_ZNSt13runtime_errorC2EPKc": _x_runtime_error_cstr,
    "_ZNSt13runtime_errorC1ERKNSt7__cxx1112basic_stringIcSt11char_traitsIcESaIcEEE": _x_runtime_error_str,
    "_ZNSt13runtime_errorD1Ev": _x_nop,
    "__cxa_throw": _x_throw,
    "__cxa_rethrow": _x_throw_named,
    "__assert_fail": _x_assert_fail,
    "_ZSt17__throw_bad_allocv": _x_throw_named,
    "_ZSt20__throw_length_errorPKc": _x_throw_named,
    "_ZSt24__throw_out_of_range_fmtPKcz": _x_throw_named,
    "_ZSt28__throw_bad_array_new_lengthv": _x_throw_named,
    "_ZSt19__throw_logic_errorPKc": _x_throw_named,
    "_ZSt9terminatev": _x_terminate,
    "abort": _x_terminate,
    "__cxa_atexit": _x_nop,
    "__cxa_begin_catch": _x_nop,
    "__cxa_end_catch": _x_nop,
    "_ZNSt8ios_base4InitC1Ev": _x_nop,
    "_ZNSt8ios_base4InitD1Ev": _x_nop,
}
EXT_PREFIX = [
    ("llvm.memcpy", _x_memcpy),
    ("llvm.memmove", _x_memcpy),
    ("llvm.memset", _x_memset),
    ("llvm.lifetime", _x_nop),
    ("llvm.assume", _x_nop),
    ("llvm.experimental.noalias", _x_nop),
    ("llvm.dbg", _x_nop),
    ("llvm.umax", _x_umax),
    ("llvm.umin", _x_umin),
    ("llvm.smax", _x_smax),
    ("llvm.smin", _x_smin),
    ("llvm.abs", _x_abs),
    ("llvm.ctlz", _x_ctlz),
    ("llvm.cttz", _x_cttz),
    ("llvm.sqrt", _x_math1(math.sqrt)),
    ("llvm.floor", _x_math1(math.floor)),
    ("llvm.pow", _x_pow),
    ("_ZNSo", _x_unsupported_io),
    ("_ZSt16__ostream_insert", _x_unsupported_io),
    ("_ZNSt7__cxx1119basic_ostringstream", _x_unsupported_io),
    ("_ZNKSt7__cxx1119basic_ostringstream", _x_unsupported_io),
    ("_ZSt4endl", _x_unsupported_io),
]


class Interp(Machine, Ops, Exec, Externals):
    def run_harness(self, entry="harness"):
        """Returns 'ok' or ('abort', kind, msg) for a whole-run abort."""
        try:
            self.call(entry, [])
            return "ok"
        except AbortSide as a:
            self.record_abort(a)
            return ("abort", a.kind, a.msg)


def run_in_thread(fn, stack_mb=512):
    """Deep recursion (nested regions/calls): run in a thread with a big stack."""
    import threading

    sys.setrecursionlimit(200000)
    threading.stack_size(stack_mb * 1024 * 1024)
    box = {}

    def tgt():
        try:
            box["r"] = fn()
        except BaseException as e:  # noqa
            box["e"] = e

    t = threading.Thread(target=tgt)
    t.start()
    t.join()
    if "e" in box:
        raise box["e"]
    return box["r"]
