// ir2json: dump an LLVM-14 module (bitcode or .ll) as JSON for the Python
// symbolic interpreter (vf/llsym/interp.py).  Resolves everything that needs
// the DataLayout: type sizes, struct field offsets, GEP strides, constant
// initialisers; adds the immediate post-dominator of every block.
#include <llvm/IR/LLVMContext.h>
#include <llvm/IR/Module.h>
#include <llvm/IR/Instructions.h>
#include <llvm/IR/IntrinsicInst.h>
#include <llvm/IR/Constants.h>
#include <llvm/IR/DataLayout.h>
#include <llvm/IR/GetElementPtrTypeIterator.h>
#include <llvm/IR/Operator.h>
#include <llvm/IR/CFG.h>
#include <llvm/IRReader/IRReader.h>
#include <llvm/Analysis/PostDominators.h>
#include <llvm/Support/SourceMgr.h>
#include <llvm/Support/raw_ostream.h>
#include <map>
#include <string>
#include <sstream>

using namespace llvm;

static const DataLayout *DL;
static std::map<const Value *, int> LocalIds;

static std::string esc(const std::string &s) {
  std::string o;
  for (unsigned char c : s) {
    if (c == '"' || c == '\\') { o += '\\'; o += c; }
    else if (c < 32 || c > 126) { char b[8]; snprintf(b, sizeof b, "\\u%04x", c); o += b; }
    else o += c;
  }
  return o;
}

static std::string tyStr(Type *T) {
  std::string s; raw_string_ostream os(s); T->print(os); return os.str();
}

// type descriptor: {"k":"int","bits":32} / ptr / double / float / struct / array / vector / void
static std::string tyJson(Type *T) {
  std::ostringstream o;
  if (T->isIntegerTy()) o << "{\"k\":\"int\",\"bits\":" << T->getIntegerBitWidth() << "}";
  else if (T->isPointerTy()) o << "{\"k\":\"ptr\",\"bits\":64}";
  else if (T->isDoubleTy()) o << "{\"k\":\"double\",\"bits\":64}";
  else if (T->isFloatTy()) o << "{\"k\":\"float\",\"bits\":32}";
  else if (T->isX86_FP80Ty()) o << "{\"k\":\"fp80\",\"bits\":80}";
  else if (T->isVoidTy()) o << "{\"k\":\"void\",\"bits\":0}";
  else if (T->isStructTy()) {
    auto *ST = cast<StructType>(T);
    o << "{\"k\":\"struct\",\"size\":" << (ST->isSized() ? DL->getTypeAllocSize(ST).getFixedSize() : 0) << ",\"fields\":[";
    if (ST->isSized()) {
      const StructLayout *SL = DL->getStructLayout(ST);
      for (unsigned i = 0; i < ST->getNumElements(); ++i) {
        if (i) o << ",";
        o << "{\"off\":" << SL->getElementOffset(i) << ",\"t\":" << tyJson(ST->getElementType(i)) << "}";
      }
    }
    o << "]}";
  } else if (T->isArrayTy()) {
    o << "{\"k\":\"array\",\"n\":" << T->getArrayNumElements() << ",\"stride\":" << DL->getTypeAllocSize(T->getArrayElementType()).getFixedSize()
      << ",\"size\":" << DL->getTypeAllocSize(T).getFixedSize() << ",\"t\":" << tyJson(T->getArrayElementType()) << "}";
  } else if (T->isVectorTy()) {
    auto *VT = cast<FixedVectorType>(T);
    o << "{\"k\":\"vector\",\"n\":" << VT->getNumElements() << ",\"stride\":" << DL->getTypeAllocSize(VT->getElementType()).getFixedSize()
      << ",\"size\":" << DL->getTypeAllocSize(T).getFixedSize() << ",\"t\":" << tyJson(VT->getElementType()) << "}";
  } else if (T->isFunctionTy() || T->isLabelTy() || T->isMetadataTy() || T->isTokenTy()) {
    o << "{\"k\":\"other\",\"bits\":0}";
  } else o << "{\"k\":\"unknown\",\"s\":\"" << esc(tyStr(T)) << "\"}";
  return o.str();
}

static std::string constJson(const Constant *C);

static std::string gepJson(const GEPOperator *G, bool isConst);

static std::string valJson(const Value *V) {
  std::ostringstream o;
  if (auto *C = dyn_cast<Constant>(V)) return constJson(C);
  if (isa<BasicBlock>(V)) { o << "{\"v\":\"block\",\"name\":\"" << esc(std::string(V->getName())) << "\"}"; return o.str(); }
  if (isa<MetadataAsValue>(V)) return "{\"v\":\"meta\"}";
  if (isa<InlineAsm>(V)) return "{\"v\":\"asm\"}";
  auto it = LocalIds.find(V);
  if (it == LocalIds.end()) return "{\"v\":\"unknown\"}";
  o << "{\"v\":\"local\",\"id\":" << it->second << "}";
  return o.str();
}

static std::string apStr(const APInt &A) {
  SmallString<40> S; A.toStringUnsigned(S); return std::string(S.str());
}

static std::string constJson(const Constant *C) {
  std::ostringstream o;
  Type *T = C->getType();
  if (auto *CI = dyn_cast<ConstantInt>(C)) {
    o << "{\"v\":\"int\",\"bits\":" << CI->getBitWidth() << ",\"val\":\"" << apStr(CI->getValue()) << "\"}";
  } else if (auto *CF = dyn_cast<ConstantFP>(C)) {
    o << "{\"v\":\"fp\",\"bits\":" << T->getPrimitiveSizeInBits().getFixedSize() << ",\"raw\":\"" << apStr(CF->getValueAPF().bitcastToAPInt()) << "\"}";
  } else if (isa<ConstantPointerNull>(C)) {
    o << "{\"v\":\"null\"}";
  } else if (isa<UndefValue>(C)) {  // includes poison
    o << "{\"v\":\"undef\",\"t\":" << tyJson(T) << "}";
  } else if (isa<ConstantAggregateZero>(C)) {
    o << "{\"v\":\"zero\",\"size\":" << DL->getTypeAllocSize(T).getFixedSize() << ",\"t\":" << tyJson(T) << "}";
  } else if (auto *F = dyn_cast<Function>(C)) {
    o << "{\"v\":\"func\",\"name\":\"" << esc(std::string(F->getName())) << "\"}";
  } else if (auto *GA = dyn_cast<GlobalAlias>(C)) {
    return constJson(GA->getAliasee());
  } else if (auto *GV = dyn_cast<GlobalVariable>(C)) {
    o << "{\"v\":\"global\",\"name\":\"" << esc(std::string(GV->getName())) << "\"}";
  } else if (auto *CDS = dyn_cast<ConstantDataSequential>(C)) {
    o << "{\"v\":\"agg\",\"t\":" << tyJson(T) << ",\"elems\":[";
    for (unsigned i = 0; i < CDS->getNumElements(); ++i) { if (i) o << ","; o << constJson(CDS->getElementAsConstant(i)); }
    o << "]}";
  } else if (isa<ConstantArray>(C) || isa<ConstantStruct>(C) || isa<ConstantVector>(C)) {
    o << "{\"v\":\"agg\",\"t\":" << tyJson(T) << ",\"elems\":[";
    for (unsigned i = 0; i < C->getNumOperands(); ++i) { if (i) o << ","; o << constJson(cast<Constant>(C->getOperand(i))); }
    o << "]}";
  } else if (auto *CE = dyn_cast<ConstantExpr>(C)) {
    unsigned op = CE->getOpcode();
    if (op == Instruction::GetElementPtr) {
      o << "{\"v\":\"cexpr\",\"op\":\"gep\",\"gep\":" << gepJson(cast<GEPOperator>(CE), true) << "}";
    } else {
      o << "{\"v\":\"cexpr\",\"op\":\"" << CE->getOpcodeName() << "\",\"t\":" << tyJson(T) << ",\"args\":[";
      for (unsigned i = 0; i < CE->getNumOperands(); ++i) { if (i) o << ","; o << valJson(CE->getOperand(i)); }
      o << "]";
      if (CE->isCompare()) o << ",\"pred\":" << CE->getPredicate();
      o << "}";
    }
  } else if (isa<BlockAddress>(C)) {
    o << "{\"v\":\"unknown\"}";
  } else {
    o << "{\"v\":\"unknown\"}";
  }
  return o.str();
}

// base + const + sum(index * stride)
static std::string gepJson(const GEPOperator *G, bool) {
  std::ostringstream o;
  int64_t cst = 0;
  std::ostringstream vars;
  bool first = true;
  for (gep_type_iterator GTI = gep_type_begin(G), E = gep_type_end(G); GTI != E; ++GTI) {
    const Value *Idx = GTI.getOperand();
    if (StructType *ST = GTI.getStructTypeOrNull()) {
      unsigned f = cast<ConstantInt>(Idx)->getZExtValue();
      cst += DL->getStructLayout(ST)->getElementOffset(f);
    } else {
      uint64_t stride = DL->getTypeAllocSize(GTI.getIndexedType()).getFixedSize();
      if (auto *CI = dyn_cast<ConstantInt>(Idx)) cst += CI->getSExtValue() * (int64_t)stride;
      else {
        if (!first) vars << ",";
        first = false;
        vars << "{\"idx\":" << valJson(Idx) << ",\"stride\":" << stride << ",\"bits\":" << Idx->getType()->getIntegerBitWidth() << "}";
      }
    }
  }
  o << "{\"base\":" << valJson(G->getPointerOperand()) << ",\"const\":" << cst << ",\"vars\":[" << vars.str() << "]}";
  return o.str();
}

int main(int argc, char **argv) {
  if (argc < 2) { errs() << "usage: ir2json module.bc|.ll\n"; return 2; }
  LLVMContext Ctx;
  SMDiagnostic Err;
  std::unique_ptr<Module> M = parseIRFile(argv[1], Err, Ctx);
  if (!M) { Err.print(argv[0], errs()); return 1; }
  DL = &M->getDataLayout();
  raw_ostream &O = outs();
  O << "{\"globals\":[";
  bool firstG = true;
  for (GlobalVariable &G : M->globals()) {
    if (!firstG) O << ",";
    firstG = false;
    Type *VT = G.getValueType();
    O << "{\"name\":\"" << esc(std::string(G.getName())) << "\",\"size\":" << (VT->isSized() ? DL->getTypeAllocSize(VT).getFixedSize() : 0)
      << ",\"const\":" << (G.isConstant() ? "true" : "false") << ",\"t\":" << tyJson(VT);
    if (G.hasInitializer()) O << ",\"init\":" << constJson(G.getInitializer());
    O << "}";
  }
  O << "],\"functions\":[";
  bool firstF = true;
  for (Function &F : *M) {
    if (!firstF) O << ",";
    firstF = false;
    O << "{\"name\":\"" << esc(std::string(F.getName())) << "\",\"declared\":" << (F.isDeclaration() ? "true" : "false")
      << ",\"vararg\":" << (F.isVarArg() ? "true" : "false") << ",\"ret\":" << tyJson(F.getReturnType());
    LocalIds.clear();
    int nid = 0;
    O << ",\"args\":[";
    unsigned ai = 0;
    for (Argument &A : F.args()) {
      LocalIds[&A] = nid++;
      if (ai) O << ",";
      O << "{\"id\":" << LocalIds[&A] << ",\"t\":" << tyJson(A.getType());
      if (A.hasByValAttr()) O << ",\"byval\":" << DL->getTypeAllocSize(A.getParamByValType()).getFixedSize();
      if (A.hasStructRetAttr()) O << ",\"sret\":true";
      O << "}";
      ++ai;
    }
    O << "]";
    if (F.isDeclaration()) { O << "}"; continue; }
    for (BasicBlock &B : F) for (Instruction &I : B) if (!I.getType()->isVoidTy()) LocalIds[&I] = nid++;
    std::map<const BasicBlock *, int> BIds;
    int bid = 0;
    for (BasicBlock &B : F) BIds[&B] = bid++;
    PostDominatorTree PDT(F);
    O << ",\"nlocals\":" << nid << ",\"blocks\":[";
    bool firstB = true;
    for (BasicBlock &B : F) {
      if (!firstB) O << ",";
      firstB = false;
      int ipd = -1;
      if (auto *N = PDT.getNode(&B)) if (auto *P = N->getIDom()) if (P->getBlock()) ipd = BIds[P->getBlock()];
      O << "{\"id\":" << BIds[&B] << ",\"ipdom\":" << ipd << ",\"insts\":[";
      bool firstI = true;
      for (Instruction &I : B) {
        if (isa<DbgInfoIntrinsic>(I)) continue;
        if (!firstI) O << ",";
        firstI = false;
        O << "{\"op\":\"" << I.getOpcodeName() << "\"";
        if (!I.getType()->isVoidTy()) O << ",\"id\":" << LocalIds[&I];
        O << ",\"t\":" << tyJson(I.getType());
        if (auto *PN = dyn_cast<PHINode>(&I)) {
          O << ",\"inc\":[";
          for (unsigned i = 0; i < PN->getNumIncomingValues(); ++i) {
            if (i) O << ",";
            O << "{\"b\":" << BIds[PN->getIncomingBlock(i)] << ",\"v\":" << valJson(PN->getIncomingValue(i)) << "}";
          }
          O << "]";
        } else if (auto *G = dyn_cast<GetElementPtrInst>(&I)) {
          O << ",\"gep\":" << gepJson(cast<GEPOperator>(G), false);
        } else if (auto *BR = dyn_cast<BranchInst>(&I)) {
          if (BR->isConditional()) O << ",\"cond\":" << valJson(BR->getCondition()) << ",\"T\":" << BIds[BR->getSuccessor(0)] << ",\"F\":" << BIds[BR->getSuccessor(1)];
          else O << ",\"T\":" << BIds[BR->getSuccessor(0)];
        } else if (auto *SW = dyn_cast<SwitchInst>(&I)) {
          O << ",\"cond\":" << valJson(SW->getCondition()) << ",\"default\":" << BIds[SW->getDefaultDest()] << ",\"cases\":[";
          bool fc = true;
          for (auto &Cs : SW->cases()) { if (!fc) O << ","; fc = false; O << "[\"" << apStr(Cs.getCaseValue()->getValue()) << "\"," << BIds[Cs.getCaseSuccessor()] << "]"; }
          O << "]";
        } else if (auto *CB = dyn_cast<CallBase>(&I)) {
          O << ",\"callee\":" << valJson(CB->getCalledOperand()) << ",\"args\":[";
          for (unsigned i = 0; i < CB->arg_size(); ++i) {
            if (i) O << ",";
            O << valJson(CB->getArgOperand(i));
          }
          O << "],\"argt\":[";
          for (unsigned i = 0; i < CB->arg_size(); ++i) {
            if (i) O << ",";
            O << tyJson(CB->getArgOperand(i)->getType());
          }
          O << "],\"byval\":[";
          for (unsigned i = 0; i < CB->arg_size(); ++i) {
            if (i) O << ",";
            O << (CB->isByValArgument(i) ? (long)DL->getTypeAllocSize(CB->getParamByValType(i)).getFixedSize() : 0L);
          }
          O << "]";
          if (auto *II = dyn_cast<InvokeInst>(&I)) O << ",\"normal\":" << BIds[II->getNormalDest()] << ",\"unwind\":" << BIds[II->getUnwindDest()];
        } else {
          O << ",\"args\":[";
          for (unsigned i = 0; i < I.getNumOperands(); ++i) { if (i) O << ","; O << valJson(I.getOperand(i)); }
          O << "]";
          if (auto *C = dyn_cast<CmpInst>(&I)) O << ",\"pred\":" << C->getPredicate();
          if (auto *AI = dyn_cast<AllocaInst>(&I)) O << ",\"asize\":" << DL->getTypeAllocSize(AI->getAllocatedType()).getFixedSize();
          if (auto *LI = dyn_cast<LoadInst>(&I)) O << ",\"size\":" << DL->getTypeStoreSize(LI->getType()).getFixedSize();
          if (auto *SI = dyn_cast<StoreInst>(&I)) O << ",\"size\":" << DL->getTypeStoreSize(SI->getValueOperand()->getType()).getFixedSize() << ",\"vt\":" << tyJson(SI->getValueOperand()->getType());
          if (auto *EV = dyn_cast<ExtractValueInst>(&I)) { O << ",\"idx\":["; bool f = true; for (unsigned x : EV->indices()) { if (!f) O << ","; f = false; O << x; } O << "],\"aggt\":" << tyJson(EV->getAggregateOperand()->getType()); }
          if (auto *IV = dyn_cast<InsertValueInst>(&I)) { O << ",\"idx\":["; bool f = true; for (unsigned x : IV->indices()) { if (!f) O << ","; f = false; O << x; } O << "],\"aggt\":" << tyJson(IV->getAggregateOperand()->getType()); }
          if (isa<CastInst>(&I)) O << ",\"st\":" << tyJson(I.getOperand(0)->getType());
          if (isa<BinaryOperator>(&I) || isa<CmpInst>(&I) || isa<SelectInst>(&I)) O << ",\"st\":" << tyJson(I.getOperand(isa<SelectInst>(&I) ? 1 : 0)->getType());
        }
        O << "}";
      }
      O << "]}";
    }
    O << "]}";
  }
  O << "]}\n";
  return 0;
}
