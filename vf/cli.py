import sys
import threading

sys.setrecursionlimit(100000)


def main():
    if len(sys.argv) < 2:
        print("usage: check <Cnn> [--tier quick|thorough] [--replay file]")
        return 2
    prop = sys.argv[1].upper()
    from vf import runner

    return runner.main("checks." + prop.lower(), sys.argv[2:])


if __name__ == "__main__":
    sys.exit(main())
