"""DeCy: turn a Cython source file of the repo into executable Python.

The .pyx (and its .pxd, for attribute declarations and ctypedefs) is parsed with
Cython's own parser - the one that builds the extension - and the tree is
re-emitted as Python.  C declarations are erased, typed assignments go through
`_cy.coerce`, C++ containers / pointers / pairs are mapped on the shim classes
of vf.decy.shims.  Anything the emitter does not know raises DecyError, which
the checks report as a harness error (never as a pass).
"""
import os
import re

from Cython.Compiler.TreeFragment import parse_from_strings
from Cython.CodeWriter import CodeWriter, ExpressionWriter
from Cython.Compiler import Nodes, ExprNodes


class DecyError(Exception):
    pass


SCALAR_TYPES = {
    "int", "long", "short", "char", "unsigned", "size_t", "Py_ssize_t", "bint", "bool", "float", "double",
    "uint32_t", "uint64_t", "int32_t", "int64_t", "object", "str", "bytes", "unicode", "void", "iterator",
}


def _type_str(base, declarator=None):
    """A compact textual type: base type node + declarator (pointers/refs)."""
    s = _base_str(base)
    d = declarator
    while d is not None:
        if isinstance(d, Nodes.CPtrDeclaratorNode):
            s += "*"
            d = d.base
        elif isinstance(d, Nodes.CReferenceDeclaratorNode):
            d = d.base
        elif isinstance(d, Nodes.CArrayDeclaratorNode):
            s += "[]"
            d = d.base
        elif isinstance(d, Nodes.CFuncDeclaratorNode):
            d = d.base
        else:
            break
    return s


def _base_str(b):
    if isinstance(b, Nodes.CSimpleBaseTypeNode):
        name = b.name or "object"
        if b.module_path:
            name = ".".join(list(b.module_path) + [name])
        return name
    if isinstance(b, Nodes.TemplatedTypeNode):
        args = ",".join(_targ(a) for a in b.positional_args)
        return "%s[%s]" % (_base_str(b.base_type_node), args)
    if isinstance(b, Nodes.CComplexBaseTypeNode):
        return _type_str(b.base_type, b.declarator)
    if isinstance(b, Nodes.MemoryViewSliceTypeNode):
        return "memview"
    if isinstance(b, Nodes.CNestedBaseTypeNode):
        return "iterator"
    if type(b).__name__ in ("CConstOrVolatileTypeNode", "CConstTypeNode"):
        return _base_str(b.base_type)
    raise DecyError("unknown base type node %s" % type(b).__name__)


def _targ(a):
    if isinstance(a, (Nodes.CSimpleBaseTypeNode, Nodes.TemplatedTypeNode, Nodes.CComplexBaseTypeNode)):
        return _base_str(a)
    if isinstance(a, ExprNodes.NameNode):
        return a.name
    if isinstance(a, ExprNodes.AttributeNode):
        return _targ(a.obj) + "." + a.attribute
    if isinstance(a, ExprNodes.IndexNode):
        idx = a.index
        items = idx.args if isinstance(idx, ExprNodes.TupleNode) else [idx]
        return "%s[%s]" % (_targ(a.base), ",".join(_targ(x) for x in items))
    raise DecyError("template argument %s" % type(a).__name__)


def _decl_name(d):
    while not isinstance(d, Nodes.CNameDeclaratorNode):
        d = d.base
    return d


class Emitter(CodeWriter):
    def __init__(self, typedefs, class_attrs):
        super().__init__()
        self.typedefs = typedefs  # name -> type string
        self.class_attrs = class_attrs  # class name -> [(attr, type string)]
        self.scopes = [{}]  # declared C types of locals per function
        self.in_class = None

    # -- helpers --------------------------------------------------------------
    def resolve(self, t):
        """Expand ctypedef names everywhere in a type string."""
        for _ in range(10):
            new = re.sub(r"[A-Za-z_][A-Za-z_0-9.]*", lambda m: self.typedefs.get(m.group(0), m.group(0)), t)
            if new == t:
                break
            t = new
        return t

    def is_scalar(self, t):
        t = self.resolve(t)
        return t in SCALAR_TYPES or t.startswith("unsigned") or t == "memview"

    def needs_default(self, t):
        t = self.resolve(t)
        if t.endswith("*"):
            return False
        return not self.is_scalar(t)

    def needs_coerce(self, t):
        r = self.resolve(t)
        if r in ("char*", "string", "libcpp.string.string"):
            return True
        if r.endswith("*"):
            return False
        return not self.is_scalar(r) and (r.startswith("pair[") or r.startswith("vector[") or r.startswith("unordered_"))

    def expr(self, node):
        """Render an expression node to text."""
        sub = ExprEmitter(self)
        sub.visit(node)
        return sub.result

    def declared(self, name):
        return self.scopes[-1].get(name)

    # -- erased declarations ----------------------------------------------------
    def visit_CImportStatNode(self, node):
        pass

    def visit_FromCImportStatNode(self, node):
        pass

    def visit_CTypeDefNode(self, node):
        pass

    def visit_CDefExternNode(self, node):
        pass

    def visit_CVarDefNode(self, node):
        for d in node.declarators:
            t = _type_str(node.base_type, d)
            nd = _decl_name(d)
            self.scopes[-1][nd.name] = t
            if nd.default is not None:
                rhs = self.expr(nd.default)
                if self.needs_coerce(t):
                    rhs = "_cy.coerce(%r, %s)" % (self.resolve(t), rhs)
                self.line("%s = %s" % (nd.name, rhs))
            elif self.needs_default(t):
                self.line("%s = _cy.default(%r)" % (nd.name, self.resolve(t)))
            elif self.resolve(t).endswith("*"):
                self.line("%s = None" % nd.name)

    def visit_SingleAssignmentNode(self, node):
        if isinstance(node.lhs, ExprNodes.NameNode):
            t = self.declared(node.lhs.name)
            if t is not None and self.needs_coerce(t):
                self.line("%s = _cy.coerce(%r, %s)" % (node.lhs.name, self.resolve(t), self.expr(node.rhs)))
                return
        if isinstance(node.rhs, ExprNodes.ImportNode):
            self._emit_import(node.lhs, node.rhs)
            return
        self.line("%s = %s" % (self.expr(node.lhs), self.expr(node.rhs)))

    def _emit_import(self, lhs, imp):
        mod = imp.module_name.value
        level = imp.level or 0
        if imp.name_list is None if hasattr(imp, "name_list") else True:
            pass
        dots = "." * level
        target = self.expr(lhs)
        if getattr(imp, "is_import_as_name", False) or target != mod.split(".")[0]:
            self.line("import %s%s as %s" % (dots, mod, target)) if not level else self.line("from %s import %s as %s" % (dots, mod, target))
        else:
            self.line("import %s" % mod)

    def visit_FromImportStatNode(self, node):
        imp = node.module
        mod = imp.module_name.value
        level = imp.level or 0
        names = []
        for name, target in node.items:
            tn = self.expr(target)
            names.append(name if tn == name else "%s as %s" % (name, tn))
        self.line("from %s%s import %s" % ("." * level, mod, ", ".join(names)))

    # -- functions -------------------------------------------------------------
    def _args(self, args, scope):
        out = []
        for a in args:
            nd = _decl_name(a.declarator)
            name = nd.name
            if name == "":
                # untyped argument: the "type" is the name
                name = a.base_type.name
            else:
                scope[name] = _type_str(a.base_type, a.declarator)
            s = name
            if a.default is not None:
                s += "=" + self.expr(a.default)
            out.append(s)
        return out

    def _func(self, name, args, body, decorators=None, star_arg=None, starstar_arg=None):
        scope = {}
        self.scopes.append(scope)
        arglist = self._args(args, scope)
        if star_arg is not None:
            arglist.append("*" + star_arg.name)
        if starstar_arg is not None:
            arglist.append("**" + starstar_arg.name)
        for d in decorators or []:
            txt = self.expr(d.decorator)
            if txt.startswith("cython."):
                continue
            self.line("@" + txt)
        self.line("def %s(%s):" % (name, ", ".join(arglist)))
        self.indent()
        # value-typed arguments are copied on entry (C++ pass by value)
        for a in args:
            nd = _decl_name(a.declarator)
            if nd.name and not isinstance(a.declarator, Nodes.CReferenceDeclaratorNode):
                t = scope.get(nd.name)
                if t and self.needs_coerce(t) and self.resolve(t) != "char*":
                    self.line("%s = _cy.coerce(%r, %s)" % (nd.name, self.resolve(t), nd.name))
        n = len(self.result.lines)
        self.visit(body)
        if len(self.result.lines) == n:
            self.line("pass")
        self.dedent()
        self.scopes.pop()
        self.line("")

    def visit_CFuncDefNode(self, node):
        d = node.declarator
        while not isinstance(d, Nodes.CFuncDeclaratorNode):
            d = d.base
        name = _decl_name(d.base).name
        self._func(name, d.args, node.body, getattr(node, "decorators", None))

    def visit_DefNode(self, node):
        self._func(node.name, node.args, node.body, node.decorators, node.star_arg, node.starstar_arg)

    def visit_CClassDefNode(self, node):
        self._class(node.class_name, node.base_type_node if hasattr(node, "base_type_node") else None, node.body, getattr(node, "bases", None))

    def visit_PyClassDefNode(self, node):
        bases = ""
        if node.bases is not None and node.bases.args:
            bases = "(" + ", ".join(self.expr(b) for b in node.bases.args) + ")"
        self.line("class %s%s:" % (node.name, bases))
        self.indent()
        self.visit(node.body)
        self.dedent()
        self.line("")

    def _class(self, name, base, body, bases):
        b = ""
        if bases is not None and getattr(bases, "args", None):
            b = "(" + ", ".join(self.expr(x) for x in bases.args) + ")"
        self.line("class %s%s:" % (name, b))
        self.indent()
        prev = self.in_class
        self.in_class = name
        attrs = list(self.class_attrs.get(name, []))
        # attributes declared in the class body of the .pyx itself
        for st in body.stats if isinstance(body, Nodes.StatListNode) else [body]:
            if isinstance(st, Nodes.CVarDefNode):
                for d in st.declarators:
                    attrs.append((_decl_name(d).name, _type_str(st.base_type, d)))
        self.line("def __new__(cls, *a, **k):")
        self.indent()
        self.line("self = object.__new__(cls)")
        for an, at in attrs:
            if self.needs_default(at):
                self.line("self.%s = _cy.default(%r)" % (an, self.resolve(at)))
            else:
                self.line("self.%s = None" % an)
        self.line("if hasattr(self, '__cinit__'): self.__cinit__(*a, **k)")
        self.line("return self")
        self.dedent()
        self.line("")
        for st in body.stats if isinstance(body, Nodes.StatListNode) else [body]:
            if isinstance(st, Nodes.CVarDefNode):
                continue
            self.visit(st)
        self.in_class = prev
        self.dedent()
        self.line("")

    # -- statements the stock writer lacks ---------------------------------------
    def visit_GILStatNode(self, node):
        self.visit(node.body)

    def visit_DelStatNode(self, node):
        for a in node.args:
            if isinstance(a, ExprNodes.NameNode) or isinstance(a, ExprNodes.AttributeNode):
                # `del ptr` frees C++ memory: no-op here
                self.line("pass  # del %s" % self.expr(a))
            else:
                self.line("del %s" % self.expr(a))

    def visit_AssertStatNode(self, node):
        cond = node.condition if hasattr(node, "condition") else node.cond
        self.line("assert %s" % self.expr(cond))

    def visit_RaiseStatNode(self, node):
        if node.exc_type is None:
            self.line("raise")
        elif node.cause is not None:
            self.line("raise %s from %s" % (self.expr(node.exc_type), self.expr(node.cause)))
        else:
            self.line("raise %s" % self.expr(node.exc_type))

    def visit_ReraiseStatNode(self, node):
        self.line("raise")

    def visit_PassStatNode(self, node):
        self.line("pass")

    def visit_GlobalNode(self, node):
        self.line("global %s" % ", ".join(node.names))

    def visit_ExprStatNode(self, node):
        self.line(self.expr(node.expr))

    def visit_ParallelAssignmentNode(self, node):
        for s in node.stats:
            self.visit(s)

    def visit_CascadedAssignmentNode(self, node):
        self.line(" = ".join(self.expr(l) for l in node.lhs_list) + " = " + self.expr(node.rhs))

    def visit_InPlaceAssignmentNode(self, node):
        self.line("%s %s= %s" % (self.expr(node.lhs), node.operator, self.expr(node.rhs)))

    def visit_ExceptClauseNode(self, node):
        self.startline("except")
        if node.pattern is not None:
            self.put(" ")
            pats = node.pattern if isinstance(node.pattern, list) else [node.pattern]
            self.put(", ".join(self.expr(p) for p in pats) if len(pats) == 1 else "(" + ", ".join(self.expr(p) for p in pats) + ")")
        if node.target is not None:
            self.put(" as ")
            self.visit(node.target)
        self.endline(":")
        self.indent()
        self.visit(node.body)
        self.dedent()

    def visit_ForInStatNode(self, node):
        self.line("for %s in %s:" % (self.expr(node.target), self.expr(node.iterator.sequence)))
        self.indent()
        self.visit(node.body)
        self.dedent()
        if node.else_clause is not None:
            self.line("else:")
            self.indent()
            self.visit(node.else_clause)
            self.dedent()

    def visit_Node(self, node):
        raise DecyError("DeCy: unsupported node %s at %s" % (type(node).__name__, getattr(node, "pos", None)))


class ExprEmitter(ExpressionWriter):
    def __init__(self, owner):
        super().__init__()
        self.owner = owner

    def resolve(self, t):
        return self.owner.resolve(t)

    def expr(self, node):
        sub = ExprEmitter(self.owner)
        sub.visit(node)
        return sub.result

    def visit_ImportNode(self, node):
        self.put("__import__(%r)" % node.module_name.value)

    def visit_NullNode(self, node):
        self.put("None")

    def visit_NewExprNode(self, node):
        self.put("_cy.new(%r)" % self.resolve(_base_str(node.cppclass)))

    def visit_SizeofTypeNode(self, node):
        self.put("_cy.sizeof(%r)" % _type_str(node.base_type, node.declarator))

    def visit_SizeofVarNode(self, node):
        self.put("_cy.sizeof(None)")

    def visit_TypecastNode(self, node):
        t = _type_str(node.base_type, node.declarator)
        self.put("_cy.cast(%r, " % self.resolve(t))
        self.visit(node.operand)
        self.put(")")

    def visit_YieldExprNode(self, node):
        self.put("(yield ")
        if node.arg is not None:
            self.visit(node.arg)
        self.put(")")

    def visit_CondExprNode(self, node):
        # Cython's CodeWriter emits `a if c else b` bare, which loses the grouping
        # inside a larger expression (`x - (1 if c else 0)`)
        self.put("(")
        self.visit(node.true_val)
        self.put(" if ")
        self.visit(node.condition)
        self.put(" else ")
        self.visit(node.false_val)
        self.put(")")

    def visit_PrimaryCmpNode(self, node):
        self.put("(")
        self.visit(node.operand1)
        n = node
        while n is not None:
            self.put(" %s " % n.operator.replace("_", " "))
            self.visit(n.operand2)
            n = n.cascade
        self.put(")")

    visit_CascadedCmpNode = visit_PrimaryCmpNode

    def visit_AmpersandNode(self, node):
        self.visit(node.operand)

    def visit_JoinedStrNode(self, node):
        parts = []
        for v in node.values:
            if isinstance(v, ExprNodes.FormattedValueNode):
                spec = ""
                if v.format_spec is not None:
                    spec = ", " + self.expr(v.format_spec)
                conv = v.conversion_char
                val = self.expr(v.value)
                if conv == "r":
                    val = "repr(%s)" % val
                elif conv == "s":
                    val = "str(%s)" % val
                parts.append("format(%s%s)" % (val, spec))
            else:
                parts.append(self.expr(v))
        self.put("''.join([%s])" % ", ".join(parts))

    def visit_UnicodeNode(self, node):
        self.put(repr(str(node.value)))

    visit_StringNode = visit_UnicodeNode
    visit_IdentifierStringNode = visit_UnicodeNode

    def visit_BytesNode(self, node):
        v = node.value
        self.put(repr(bytes(v, "latin-1") if isinstance(v, str) else bytes(v)))

    def visit_CharNode(self, node):
        self.put(str(ord(node.value)))

    def visit_TupleNode(self, node):
        # the stock writer renders the one-element tuple (x,) as (x)
        items = node.subexpr_nodes()
        self.put("(")
        self.comma_separated_list(items)
        if len(items) == 1:
            self.put(",")
        self.put(")")

    def visit_Node(self, node):
        raise DecyError("DeCy: unsupported expression node %s at %s" % (type(node).__name__, getattr(node, "pos", None)))


def _delegate_to_expr_emitter():
    """Statements that the stock CodeWriter renders itself (if / while / return /
    for ...) visit their expressions with the *statement* writer, i.e. with the
    stock expression methods - which e.g. drop the tail of a cascaded comparison
    (`0 < a < b` came out as `0 < a`) and render (x,) as (x).  Route every
    expression node type that ExprEmitter overrides through ExprEmitter."""

    def make(name):
        def f(self, node):
            self.put(self.expr(node))

        f.__name__ = name
        return f

    for name in list(vars(ExprEmitter)):
        if name.startswith("visit_") and name != "visit_Node" and name not in vars(Emitter):
            setattr(Emitter, name, make(name))


_delegate_to_expr_emitter()


def _collect_decls(tree, typedefs, class_attrs):
    for st in tree.body.stats if isinstance(tree.body, Nodes.StatListNode) else [tree.body]:
        if isinstance(st, Nodes.CTypeDefNode):
            typedefs[_decl_name(st.declarator).name] = _type_str(st.base_type, st.declarator)
        elif isinstance(st, Nodes.CClassDefNode):
            body = st.body
            if body is None:
                continue
            for s in body.stats if isinstance(body, Nodes.StatListNode) else [body]:
                if isinstance(s, Nodes.CVarDefNode):
                    for d in s.declarators:
                        if not isinstance(d, Nodes.CFuncDeclaratorNode) and not isinstance(getattr(d, "base", None), Nodes.CFuncDeclaratorNode):
                            class_attrs.setdefault(st.class_name, []).append((_decl_name(d).name, _type_str(s.base_type, d)))


def translate(pyx_path, extra_pxd=()):
    """Return Python source text for the .pyx at pyx_path."""
    typedefs, class_attrs = {}, {}
    pxds = [pyx_path[:-4] + ".pxd"] + list(extra_pxd)
    for p in pxds:
        if os.path.exists(p):
            src = open(p).read().expandtabs(4)
            t = parse_from_strings(os.path.basename(p)[:-4] + "_pxd", src)
            _collect_decls(t, typedefs, class_attrs)
    src = open(pyx_path).read().expandtabs(4)
    tree = parse_from_strings(os.path.basename(pyx_path)[:-4], src)
    _collect_decls(tree, typedefs, class_attrs)
    em = Emitter(typedefs, class_attrs)
    em.visit(tree)
    body = "\n".join(em.result.lines)
    header = "# generated by DeCy from %s\nfrom vf.decy import shims as _cy\nfrom vf.decy.shims import sym_min as min, sym_max as max, sym_isinstance as isinstance, cvarray, unicode, limits, log10\nNULL = None\n" % pyx_path
    return header + body + "\n", typedefs
