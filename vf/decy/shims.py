"""Run-time support for DeCy output: C++ containers, pointers, pairs, char*,
typed coercions.  Method names are the C++ ones used in the .pyx sources."""
import builtins
import math

import z3

from vf.pysym.engine import SymInt, SymBool, SymReal, to_int_expr, to_real_expr, Unsupported, is_symbolic

unicode = str


class limits:
    INT_MAX = 2147483647
    INT_MIN = -2147483648
    UINT_MAX = 4294967295


def log10(x):
    return math.log10(x)


INT_RANGES = {
    "int": (-(2 ** 31), 2 ** 31 - 1),
    "bint": (None, None),
    "long": (-(2 ** 63), 2 ** 63 - 1),
    "unsigned": (0, 2 ** 32 - 1),
    "unsigned int": (0, 2 ** 32 - 1),
    "size_t": (0, 2 ** 64 - 1),
}

# a hook that decides the iteration order of unordered containers (C16/C07:
# the bucket order of std::unordered_set is not specified)
ORDER_HOOK = None


def _split_args(s):
    out, depth, cur = [], 0, ""
    for ch in s:
        if ch == "[":
            depth += 1
        elif ch == "]":
            depth -= 1
        if ch == "," and depth == 0:
            out.append(cur.strip())
            cur = ""
        else:
            cur += ch
    if cur.strip():
        out.append(cur.strip())
    return out


def _tmpl(t):
    i = t.index("[")
    return t[:i].split(".")[-1], _split_args(t[i + 1 : -1])


def default(t):
    if t.endswith("*"):
        return None
    if "[" in t:
        name, args = _tmpl(t)
        if name == "vector":
            return CppVector(args[0])
        if name == "unordered_map":
            return CppUMap(args[0], args[1])
        if name == "unordered_set":
            return CppUSet(args[0])
        if name == "pair":
            return Pair(default(args[0]), default(args[1]))
        if name == "deque":
            return CppVector(args[0])
        raise Unsupported("DeCy shim: no default for %s" % t)
    if t in ("int", "long", "unsigned", "size_t", "bint", "bool", "char", "short", "Py_ssize_t", "unsigned int"):
        return 0
    if t in ("float", "double"):
        return 0.0
    if t in ("string", "libcpp.string.string"):
        return b""
    return None  # extension types / Python objects start out as None


def new(t):
    def ctor(*a):
        if a:
            raise Unsupported("DeCy shim: new %s with arguments" % t)
        return Ptr(default(t))

    return ctor


def _copy(v):
    if isinstance(v, (Pair, CppVector, CppUMap, CppUSet)):
        return v.copy()
    return v


def coerce(t, v):
    if t == "char*":
        if isinstance(v, CharPtr):
            return CharPtr(v.seq, v.off)
        return CharPtr(v, 0)
    if t in ("string", "libcpp.string.string"):
        if isinstance(v, str):
            return v.encode()
        return v
    return _copy(v)


def sizeof(t):
    return {"int": 4, "float": 4, "double": 8, "char": 1, "long": 8}.get(t, 8)


def cast(t, v):
    return v


class CArray(list):
    """A C array / memoryview row: no negative-index wrap-around, an index
    outside the buffer is an OutOfBounds finding (boundscheck(False) code)."""

    def _chk(self, i):
        if isinstance(i, slice):
            return i
        i = _idx(i)
        if not 0 <= i < len(self):
            raise OutOfBounds("array index %d of %d" % (i, len(self)))
        return i

    def __getitem__(self, i):
        return list.__getitem__(self, self._chk(i))

    def __setitem__(self, i, v):
        list.__setitem__(self, self._chk(i), v)


def cvarray(shape, itemsize, format, **kw):
    if len(shape) == 1:
        return CArray([0] * shape[0].__index__())
    if len(shape) == 2:
        return CArray([CArray([0] * shape[1].__index__()) for _ in range(shape[0].__index__())])
    raise Unsupported("cvarray rank")


class Ptr:
    """T* obtained from `new T()`; p[0] dereferences, attribute access forwards
    (Cython lets p.method() stand for p[0].method())."""

    __slots__ = ("target",)

    def __init__(self, target):
        object.__setattr__(self, "target", target)

    def __getitem__(self, i):
        if isinstance(i, int) and i == 0:
            return self.target
        raise Unsupported("pointer arithmetic on object pointer")

    def __getattr__(self, name):
        return getattr(object.__getattribute__(self, "target"), name)

    def __eq__(self, o):
        if o is None:
            return False
        return self is o

    def __ne__(self, o):
        return not self.__eq__(o)

    def __hash__(self):
        return id(self)

    def __bool__(self):
        return True


class Pair:
    __slots__ = ("first", "second")

    def __init__(self, first=None, second=None):
        self.first = first
        self.second = second

    def copy(self):
        return Pair(_copy(self.first), _copy(self.second))

    def __iter__(self):
        yield self.first
        yield self.second

    def __repr__(self):
        return "Pair(%r, %r)" % (self.first, self.second)


def _idx(i):
    return i if isinstance(i, int) else i.__index__()


class OutOfBounds(Exception):
    """An index outside a C++ container / char buffer: undefined behaviour in
    the compiled module (reported separately, DESIGN 2.2)."""


class CppVector:
    def __init__(self, elem="int", data=None):
        self.elem = elem
        self.data = list(data) if data is not None else []

    def copy(self):
        return CppVector(self.elem, [_copy(x) for x in self.data])

    def push_back(self, v):
        self.data.append(_copy(v))

    def pop_back(self):
        if not self.data:
            raise OutOfBounds("pop_back on empty vector")
        self.data.pop()

    def size(self):
        return len(self.data)

    def empty(self):
        return not self.data

    def clear(self):
        self.data = []

    def at(self, i):
        i = _idx(i)
        if not 0 <= i < len(self.data):
            raise IndexError("vector::at")
        return self.data[i]

    def back(self):
        return self.data[-1]

    def front(self):
        return self.data[0]

    def __getitem__(self, i):
        i = _idx(i)
        if not 0 <= i < len(self.data):
            raise OutOfBounds("vector index %d of %d" % (i, len(self.data)))
        return self.data[i]

    def __setitem__(self, i, v):
        i = _idx(i)
        if not 0 <= i < len(self.data):
            raise OutOfBounds("vector index %d of %d" % (i, len(self.data)))
        self.data[i] = _copy(v)

    def __len__(self):
        return len(self.data)

    def __iter__(self):
        return iter(list(self.data))

    def __repr__(self):
        return "CppVector(%r)" % (self.data,)


_END = object()


class _MapIt:
    __slots__ = ("key", "value")

    def __init__(self, key, value):
        self.key, self.value = key, value

    def __eq__(self, o):
        return False if o is _END else self is o

    def __ne__(self, o):
        return True if o is _END else self is not o


class CppUMap:
    def __init__(self, kt="int", vt="int", data=None):
        self.kt, self.vt = kt, vt
        self.data = dict(data) if data is not None else {}

    def copy(self):
        return CppUMap(self.kt, self.vt, {k: _copy(v) for k, v in self.data.items()})

    def __getitem__(self, k):
        if k not in self.data:
            self.data[k] = default(self.vt)  # operator[] default-inserts
        return self.data[k]

    def __setitem__(self, k, v):
        self.data[k] = _copy(v)

    def find(self, k):
        if k in self.data:
            return _MapIt(k, self.data[k])
        return _END

    def end(self):
        return _END

    def erase(self, k):
        if isinstance(k, _MapIt):
            k = k.key
        self.data.pop(k, None)

    def count(self, k):
        return 1 if k in self.data else 0

    def size(self):
        return len(self.data)

    def clear(self):
        self.data = {}

    def __len__(self):
        return len(self.data)

    def __contains__(self, k):
        return k in self.data

    def __iter__(self):
        items = list(self.data.items())
        if ORDER_HOOK is not None:
            items = ORDER_HOOK(items)
        return iter(items)


class CppUSet:
    def __init__(self, kt="int", data=None):
        self.kt = kt
        self.data = list(data) if data is not None else []

    def copy(self):
        return CppUSet(self.kt, self.data)

    def insert(self, k):
        if not self._has(k):
            self.data.append(k)

    def _has(self, k):
        for x in self.data:
            if x is k or x == k:
                return True
        return False

    def find(self, k):
        return k if self._has(k) else _END

    def end(self):
        return _END

    def count(self, k):
        return 1 if self._has(k) else 0

    def erase(self, k):
        self.data = [x for x in self.data if not (x is k or x == k)]

    def clear(self):
        self.data = []

    def size(self):
        return len(self.data)

    def __len__(self):
        return len(self.data)

    def __contains__(self, k):
        return self._has(k)

    def __iter__(self):
        items = list(self.data)
        if ORDER_HOOK is not None:
            items = ORDER_HOOK(items)
        return iter(items)


class CharPtr:
    """char* into a bytes-like sequence (bytes, or a list of symbolic codes)."""

    __slots__ = ("seq", "off")

    def __init__(self, seq, off=0):
        self.seq = seq
        self.off = off

    def __getitem__(self, i):
        j = self.off + _idx(i)
        n = len(self.seq)
        if j == n:
            return 0  # terminating NUL of a bytes object
        if not 0 <= j < n:
            raise OutOfBounds("char* read at offset %d of buffer length %d" % (j, n))
        return self.seq[j]

    def __iadd__(self, k):
        return CharPtr(self.seq, self.off + _idx(k))

    def __add__(self, k):
        return CharPtr(self.seq, self.off + _idx(k))


class SymBytes:
    """A byte string of concrete length whose bytes may be symbolic ints.  Not an
    instance of str, so `s.encode() if isinstance(s, unicode) else s` keeps it."""

    def __init__(self, codes):
        self.codes = list(codes)

    def __len__(self):
        return len(self.codes)

    def __getitem__(self, i):
        if isinstance(i, slice):
            return SymBytes(self.codes[i])
        return self.codes[i]

    def __iter__(self):
        return iter(self.codes)

    def __add__(self, o):
        return SymBytes(self.codes + list(o))

    def __radd__(self, o):
        return SymBytes(list(o) + self.codes)


def _ite(c, a, b):
    """if-then-else over int/real proxies."""
    if isinstance(a, (SymReal, float)) or isinstance(b, (SymReal, float)):
        return SymReal(z3.If(c, to_real_expr(a), to_real_expr(b)))
    return SymInt(z3.If(c, to_int_expr(a), to_int_expr(b)))


def _num(x):
    return isinstance(x, (int, float, SymInt, SymBool, SymReal))


def sym_min(*args, **kw):
    if kw or not args:
        return builtins.min(*args, **kw)
    vals = list(args[0]) if len(args) == 1 else list(args)
    if not vals:
        return builtins.min(vals)
    if not any(is_symbolic(v) for v in vals) or not all(_num(v) for v in vals):
        return builtins.min(vals)
    r = vals[0]
    for v in vals[1:]:
        c = v < r
        r = _ite(c.e if isinstance(c, SymBool) else z3.BoolVal(bool(c)), v, r)
    return r


def sym_max(*args, **kw):
    if kw or not args:
        return builtins.max(*args, **kw)
    vals = list(args[0]) if len(args) == 1 else list(args)
    if not vals:
        return builtins.max(vals)
    if not any(is_symbolic(v) for v in vals) or not all(_num(v) for v in vals):
        return builtins.max(vals)
    r = vals[0]
    for v in vals[1:]:
        c = v > r
        r = _ite(c.e if isinstance(c, SymBool) else z3.BoolVal(bool(c)), v, r)
    return r


def sym_isinstance(x, t):
    if isinstance(x, SymInt):
        ts = t if isinstance(t, tuple) else (t,)
        return any(c is int or c is object for c in ts) or builtins.isinstance(x, t)
    if isinstance(x, SymBool):
        ts = t if isinstance(t, tuple) else (t,)
        return any(c in (int, bool, object) for c in ts) or builtins.isinstance(x, t)
    if isinstance(x, SymReal):
        ts = t if isinstance(t, tuple) else (t,)
        return any(c in (float, object) for c in ts) or builtins.isinstance(x, t)
    return builtins.isinstance(x, t)
