"""PySym: a small concolic/symbolic executor for plain Python on top of z3.

One *path* of the harness is executed per run.  Proxy values (SymInt, SymBool,
SymReal) carry z3 terms; whenever Python needs a concrete truth value
(`if`, `and`, `while`, dict lookup through __eq__ ...) the engine decides the
condition in the current model, records the taken side in the path condition
and schedules the opposite side.  Scheduled sides are checked for feasibility
by z3 before they are run.  Exploration is exhaustive (depth first by
re-execution) unless a budget cuts it, which is reported as inconclusive.

Harness protocol (the same function runs symbolically and, for replay,
concretely against the real build):

    def harness(e, impl):
        x = e.int("x", 0, 7)            # named input
        ...
        e.check(cond, "message")        # assertion (symbolic or concrete)
        e.out("name", value)            # observable, compared on replay
        e.cover("tag")                  # reachability witness
"""
import time
import fractions
import z3


class _Control(BaseException):
    """Base of the engine's control-flow exceptions (never caught by target
    code that catches Exception)."""


class PathEnd(_Control):
    pass


class Violation(_Control):
    def __init__(self, msg, info=None):
        super().__init__(msg)
        self.msg = msg
        self.info = info


class Unsupported(_Control):
    """The harness met something the encoding cannot express: harness error,
    never a pass."""


class BudgetExceeded(_Control):
    pass


class Inconclusive(_Control):
    """The harness cannot judge this path (e.g. the induction hypothesis of a step check does not fit the implementation):
    counted as an inconclusive obligation - neither a pass nor a violation."""


def _is_num(x):
    return isinstance(x, (int, float, fractions.Fraction)) and not isinstance(x, bool)


def _cur():
    e = Engine.current
    if e is None:
        raise Unsupported("symbolic value used outside an engine run")
    return e


def to_int_expr(v):
    if isinstance(v, SymInt):
        return v.e
    if isinstance(v, SymBool):
        return z3.If(v.e, z3.IntVal(1), z3.IntVal(0))
    if isinstance(v, bool):
        return z3.IntVal(int(v))
    if isinstance(v, int):
        return z3.IntVal(v)
    return None


def to_real_expr(v):
    if isinstance(v, SymReal):
        return v.e
    if isinstance(v, (SymInt, SymBool)):
        return z3.ToReal(to_int_expr(v))
    if isinstance(v, bool):
        return z3.RealVal(int(v))
    if isinstance(v, int):
        return z3.RealVal(v)
    if isinstance(v, float):
        if v != v or v in (float("inf"), float("-inf")):
            raise Unsupported("non-finite float in symbolic real arithmetic")
        return z3.RealVal(str(fractions.Fraction(v)))
    if isinstance(v, fractions.Fraction):
        return z3.RealVal(str(v))
    return None


def to_bool_expr(v):
    if isinstance(v, SymBool):
        return v.e
    if isinstance(v, z3.BoolRef):
        return v
    if isinstance(v, bool):
        return z3.BoolVal(v)
    if isinstance(v, SymInt):
        return v.e != 0
    if isinstance(v, int):
        return z3.BoolVal(v != 0)
    return None


class SymBool:
    __slots__ = ("e",)

    def __init__(self, e):
        self.e = e

    def __bool__(self):
        return _cur().decide(self.e)

    def __repr__(self):
        return "<SymBool %s>" % (self.e,)

    def __hash__(self):
        return hash(bool(self))

    def __invert__(self):  # used as logical not by harness code
        return SymBool(z3.Not(self.e))

    def __and__(self, o):
        b = to_bool_expr(o)
        if b is None:
            return NotImplemented
        return SymBool(z3.And(self.e, b))

    __rand__ = __and__

    def __or__(self, o):
        b = to_bool_expr(o)
        if b is None:
            return NotImplemented
        return SymBool(z3.Or(self.e, b))

    __ror__ = __or__

    def __xor__(self, o):
        b = to_bool_expr(o)
        if b is None:
            return NotImplemented
        return SymBool(z3.Xor(self.e, b))

    __rxor__ = __xor__

    def __eq__(self, o):
        if isinstance(o, (SymBool, bool)):
            return SymBool(self.e == to_bool_expr(o))
        if isinstance(o, (SymInt, int)):
            return SymBool(to_int_expr(self) == to_int_expr(o))
        return NotImplemented

    def __ne__(self, o):
        r = self.__eq__(o)
        if r is NotImplemented:
            return r
        return SymBool(z3.Not(r.e))

    def _i(self):
        return SymInt(to_int_expr(self))

    def __add__(self, o):
        return self._i() + o

    def __radd__(self, o):
        return o + self._i()

    def __sub__(self, o):
        return self._i() - o

    def __rsub__(self, o):
        return o - self._i()

    def __mul__(self, o):
        return self._i() * o

    def __rmul__(self, o):
        return o * self._i()

    def __lt__(self, o):
        return self._i() < o

    def __le__(self, o):
        return self._i() <= o

    def __gt__(self, o):
        return self._i() > o

    def __ge__(self, o):
        return self._i() >= o

    def __index__(self):
        return int(bool(self))

    __int__ = __index__


def _mk_cmp(op):
    def f(self, o):
        a = self.e
        if isinstance(o, SymReal) or isinstance(o, (float, fractions.Fraction)):
            return getattr(SymReal(z3.ToReal(a)), op)(o)
        b = to_int_expr(o)
        if b is None:
            return NotImplemented
        return SymBool(getattr(a, op)(b))

    return f


class SymInt:
    __slots__ = ("e",)

    def __init__(self, e):
        self.e = e

    def __repr__(self):
        return "<SymInt %s>" % (self.e,)

    # -- leaving the symbolic world ---------------------------------------
    def __bool__(self):
        return _cur().decide(self.e != 0)

    def __index__(self):
        return _cur().concretise(self.e)

    __int__ = __index__

    def __str__(self):
        return str(self.__index__())

    def __format__(self, spec):
        return format(self.__index__(), spec)

    def __hash__(self):
        eng = _cur()
        if eng.hash_mode == "const":
            return 0
        return hash(self.__index__())

    def __float__(self):
        return float(self.__index__())

    # -- arithmetic ---------------------------------------------------------
    def _bin(self, o, f, rev=False):
        b = to_int_expr(o)
        if b is None:
            return NotImplemented
        return SymInt(f(b, self.e) if rev else f(self.e, b))

    def __add__(self, o):
        if isinstance(o, (SymReal, float, fractions.Fraction)):
            return SymReal(z3.ToReal(self.e)) + o
        return self._bin(o, lambda a, b: a + b)

    def __radd__(self, o):
        if isinstance(o, (float, fractions.Fraction)):
            return SymReal(to_real_expr(o)) + self
        return self._bin(o, lambda a, b: a + b, True)

    def __sub__(self, o):
        if isinstance(o, (SymReal, float, fractions.Fraction)):
            return SymReal(z3.ToReal(self.e)) - o
        return self._bin(o, lambda a, b: a - b)

    def __rsub__(self, o):
        if isinstance(o, (float, fractions.Fraction)):
            return SymReal(to_real_expr(o)) - self
        return self._bin(o, lambda a, b: a - b, True)

    def __mul__(self, o):
        if isinstance(o, (SymReal, float, fractions.Fraction)):
            return SymReal(z3.ToReal(self.e)) * o
        return self._bin(o, lambda a, b: a * b)

    def __rmul__(self, o):
        if isinstance(o, (float, fractions.Fraction)):
            return SymReal(to_real_expr(o)) * self
        return self._bin(o, lambda a, b: a * b, True)

    def __neg__(self):
        return SymInt(-self.e)

    def __pos__(self):
        return self

    def __abs__(self):
        return SymInt(z3.If(self.e >= 0, self.e, -self.e))

    def __truediv__(self, o):
        return SymReal(z3.ToReal(self.e)) / o

    def __rtruediv__(self, o):
        return SymReal(to_real_expr(o)) / self

    def _divmod(self, a, b):
        """Python floor division / modulo of z3 ints a, b (b may be symbolic)."""
        eng = _cur()
        if z3.is_int_value(b):
            bv = b.as_long()
            if bv == 0:
                raise ZeroDivisionError("integer division or modulo by zero")
            if bv > 0:
                return a / b, a % b
        else:
            if eng.decide(b == 0):
                raise ZeroDivisionError("integer division or modulo by zero")
            if eng.decide(b > 0):
                return a / b, a % b
        # negative divisor: floor(a/b) = floor((-a)/(-b))
        na, nb = -a, -b
        q = na / nb
        r = na % nb  # in [0, -b)
        return q, -r

    def __floordiv__(self, o):
        b = to_int_expr(o)
        if b is None:
            return NotImplemented
        return SymInt(self._divmod(self.e, b)[0])

    def __rfloordiv__(self, o):
        a = to_int_expr(o)
        if a is None:
            return NotImplemented
        return SymInt(self._divmod(a, self.e)[0])

    def __mod__(self, o):
        b = to_int_expr(o)
        if b is None:
            return NotImplemented
        return SymInt(self._divmod(self.e, b)[1])

    def __rmod__(self, o):
        a = to_int_expr(o)
        if a is None:
            return NotImplemented
        return SymInt(self._divmod(a, self.e)[1])

    def __divmod__(self, o):
        b = to_int_expr(o)
        if b is None:
            return NotImplemented
        q, r = self._divmod(self.e, b)
        return SymInt(q), SymInt(r)

    # bit operations: concretise (sound, forks over the value domain)
    def _bit(self, o, f, rev=False):
        if not isinstance(o, (int, SymInt, SymBool)):
            return NotImplemented
        a = self.__index__()
        b = o.__index__() if not isinstance(o, int) else o
        return f(b, a) if rev else f(a, b)

    def __xor__(self, o):
        return self._bit(o, lambda a, b: a ^ b)

    def __rxor__(self, o):
        return self._bit(o, lambda a, b: a ^ b, True)

    def __and__(self, o):
        return self._bit(o, lambda a, b: a & b)

    def __rand__(self, o):
        return self._bit(o, lambda a, b: a & b, True)

    def __or__(self, o):
        return self._bit(o, lambda a, b: a | b)

    def __ror__(self, o):
        return self._bit(o, lambda a, b: a | b, True)

    def __lshift__(self, o):
        return self._bit(o, lambda a, b: a << b)

    def __rlshift__(self, o):
        return self._bit(o, lambda a, b: a << b, True)

    def __rshift__(self, o):
        return self._bit(o, lambda a, b: a >> b)

    def __rrshift__(self, o):
        return self._bit(o, lambda a, b: a >> b, True)

    def __pow__(self, o):
        if isinstance(o, int) and 0 <= o <= 4:
            r = SymInt(z3.IntVal(1))
            for _ in range(o):
                r = r * self
            return r
        return self.__index__() ** (o.__index__() if not isinstance(o, int) else o)

    __lt__ = _mk_cmp("__lt__")
    __le__ = _mk_cmp("__le__")
    __gt__ = _mk_cmp("__gt__")
    __ge__ = _mk_cmp("__ge__")

    def __eq__(self, o):
        if isinstance(o, (SymReal, float, fractions.Fraction)):
            return SymReal(z3.ToReal(self.e)) == o
        b = to_int_expr(o)
        if b is None:
            return NotImplemented
        return SymBool(self.e == b)

    def __ne__(self, o):
        if isinstance(o, (SymReal, float, fractions.Fraction)):
            return SymReal(z3.ToReal(self.e)) != o
        b = to_int_expr(o)
        if b is None:
            return NotImplemented
        return SymBool(self.e != b)


def _mk_rcmp(op):
    def f(self, o):
        b = to_real_expr(o)
        if b is None:
            return NotImplemented
        return SymBool(getattr(self.e, op)(b))

    return f


class SymReal:
    """A z3 Real.  Used only where the target merely adds/compares floats, so
    that IEEE order on finite values coincides with the order of the reals; no
    claim about rounding is made through this type."""

    __slots__ = ("e",)

    def __init__(self, e):
        self.e = e

    def __repr__(self):
        return "<SymReal %s>" % (self.e,)

    def __bool__(self):
        return _cur().decide(self.e != 0)

    def __hash__(self):
        raise Unsupported("hash of a symbolic real")

    def __float__(self):
        return _cur().concretise_real(self.e)

    def _bin(self, o, f, rev=False):
        b = to_real_expr(o)
        if b is None:
            return NotImplemented
        return SymReal(f(b, self.e) if rev else f(self.e, b))

    def __add__(self, o):
        return self._bin(o, lambda a, b: a + b)

    def __radd__(self, o):
        return self._bin(o, lambda a, b: a + b, True)

    def __sub__(self, o):
        return self._bin(o, lambda a, b: a - b)

    def __rsub__(self, o):
        return self._bin(o, lambda a, b: a - b, True)

    def __mul__(self, o):
        return self._bin(o, lambda a, b: a * b)

    def __rmul__(self, o):
        return self._bin(o, lambda a, b: a * b, True)

    def _div(self, a, b):
        if z3.is_rational_value(b) or z3.is_int_value(b):
            if b.numerator_as_long() == 0:
                raise ZeroDivisionError("float division by zero")
        elif _cur().decide(b == 0):
            raise ZeroDivisionError("float division by zero")
        return a / b

    def __truediv__(self, o):
        b = to_real_expr(o)
        if b is None:
            return NotImplemented
        return SymReal(self._div(self.e, b))

    def __rtruediv__(self, o):
        a = to_real_expr(o)
        if a is None:
            return NotImplemented
        return SymReal(self._div(a, self.e))

    def __neg__(self):
        return SymReal(-self.e)

    def __pos__(self):
        return self

    def __abs__(self):
        return SymReal(z3.If(self.e >= 0, self.e, -self.e))

    __lt__ = _mk_rcmp("__lt__")
    __le__ = _mk_rcmp("__le__")
    __gt__ = _mk_rcmp("__gt__")
    __ge__ = _mk_rcmp("__ge__")

    def __eq__(self, o):
        b = to_real_expr(o)
        if b is None:
            return NotImplemented
        return SymBool(self.e == b)

    def __ne__(self, o):
        b = to_real_expr(o)
        if b is None:
            return NotImplemented
        return SymBool(self.e != b)


SYM_TYPES = (SymInt, SymBool, SymReal)


def is_symbolic(v):
    return isinstance(v, SYM_TYPES)


def _canon(cond):
    """(atom, polarity) with Not/distinct stripped and == arguments ordered."""
    pol = True
    while True:
        k = cond.decl().kind()
        if k == z3.Z3_OP_NOT:
            cond = cond.arg(0)
            pol = not pol
            continue
        if k == z3.Z3_OP_DISTINCT and cond.num_args() == 2:
            cond = cond.arg(0) == cond.arg(1)
            pol = not pol
            continue
        break
    if cond.decl().kind() == z3.Z3_OP_EQ:
        a, b = cond.arg(0), cond.arg(1)
        if a.get_id() > b.get_id():
            cond = b == a
    return cond, pol


class _Item:
    __slots__ = ("prefix_len", "pc", "model")

    def __init__(self, prefix_len, pc, model):
        self.prefix_len = prefix_len
        self.pc = pc  # linked list (cond, parent) or None
        self.model = model  # None => must be solved


def _pc_list(pc):
    out = []
    while pc is not None:
        out.append(pc[0])
        pc = pc[1]
    out.reverse()
    return out


class Engine:
    current = None
    symbolic = True

    def __init__(
        self,
        time_budget_s=None,
        solver_timeout_ms=20000,
        max_paths=None,
        hash_mode="const",
        max_decisions=5000,
        fanout_limit=64,
    ):
        self.solver = z3.Solver()
        self.solver.set("timeout", solver_timeout_ms)
        self.time_budget_s = time_budget_s
        self.max_paths = max_paths
        self.hash_mode = hash_mode
        self.max_decisions = max_decisions
        self.fanout_limit = fanout_limit
        self.stats = dict(
            paths=0,
            paths_ok=0,
            paths_vacuous=0,
            decisions=0,
            solver_queries=0,
            solver_s=0.0,
            unknown=0,
            infeasible=0,
            cut=0,
            violations=0,
            unsupported=0,
        )
        self.cover_hits = {}
        self.violations = []
        self.errors = []
        self.notes = []
        self._empty_model = None
        self._int_cache = {}

    # -- solving ------------------------------------------------------------
    def _solve(self, pc):
        """Satisfiability of a path condition (linked list).  The solver's
        assertion stack mirrors the previous query; only the differing suffix is
        popped / pushed (depth-first order shares long prefixes)."""
        t = time.time()
        self.stats["solver_queries"] += 1
        nodes = []
        n = pc
        while n is not None:
            nodes.append(n)
            n = n[1]
        nodes.reverse()
        trail = self.trail
        k = 0
        m = min(len(trail), len(nodes))
        while k < m and trail[k] is nodes[k]:
            k += 1
        if len(trail) > k:
            self.solver.pop(len(trail) - k)
            del trail[k:]
        for nd in nodes[k:]:
            self.solver.push()
            self.solver.add(nd[0])
            trail.append(nd)
        r = self.solver.check()
        self.stats["solver_s"] += time.time() - t
        if r == z3.sat:
            return "sat", self.solver.model()
        if r == z3.unsat:
            return "unsat", None
        return "unknown", None

    def _eval(self, expr):
        return self.model.eval(expr, model_completion=True)

    # -- per-path API ---------------------------------------------------------
    def decide(self, cond):
        if isinstance(cond, bool):
            return cond
        k = cond.get_id()
        c = self.canon_cache.get(k)
        if c is None:
            if z3.is_true(cond):
                c = (None, True, cond, None)
            elif z3.is_false(cond):
                c = (None, False, cond, None)
            else:
                atom, pol = _canon(cond)
                c = (atom, pol, cond, atom.get_id())
            self.canon_cache[k] = c
        atom, pol, _, key = c
        if atom is None:
            return pol
        hit = self.lits.get(key)
        if hit is not None:
            return hit[0] == pol
        # every decision that is not a same-run cache hit is counted, so that
        # decision indices are identical in the run that scheduled an item and
        # in the re-run that executes it
        idx = self.ndec
        self.ndec += 1
        self.stats["decisions"] += 1
        if self.ndec > self.max_decisions:
            raise Unsupported("path exceeds %d decisions" % self.max_decisions)
        pre = self.pre.get(key)
        if pre is not None:
            aval = pre[0]  # implied by the path condition this run started from
        else:
            v = self._eval(atom)
            if z3.is_true(v):
                aval = True
            elif z3.is_false(v):
                aval = False
            else:
                s = z3.simplify(v)
                if z3.is_true(s):
                    aval = True
                elif z3.is_false(s):
                    aval = False
                else:
                    raise Unsupported("cannot evaluate %s in model" % cond)
            if idx >= self.prefix_len:
                natom = self._neg(atom)
                self.work.append(_Item(idx + 1, (natom if aval else atom, self.pc, ((key, not aval, atom),)), None))
                self.pc = (atom if aval else natom, self.pc, ((key, aval, atom),))
        self.lits[key] = (aval, atom)
        return aval == pol

    def _neg(self, atom):
        k = atom.get_id()
        hit = self.neg_cache.get(k)
        if hit is None:
            hit = (z3.Not(atom), atom)
            self.neg_cache[k] = hit
        return hit[0]

    def _lits_of(self, b, out):
        if b.decl().kind() == z3.Z3_OP_AND:
            for c in b.children():
                self._lits_of(c, out)
            return out
        atom, pol = self._canon(b)
        out.append((atom.get_id(), pol, atom))
        return out

    def _canon(self, cond):
        k = cond.get_id()
        hit = self.canon_cache.get(k)
        if hit is None:
            atom, pol = _canon(cond)
            hit = (atom, pol, cond, atom.get_id())
            self.canon_cache[k] = hit
        return hit[0], hit[1]

    def concretise(self, expr):
        if z3.is_int_value(expr):
            return expr.as_long()
        key = ("c", expr.get_id())
        hit = self.decided.get(key)
        if hit is not None:
            return hit[0]
        v = self._eval(expr)
        if not z3.is_int_value(v):
            v = z3.simplify(v)
        val = v.as_long()
        idx = self.ndec
        self.ndec += 1
        self.stats["decisions"] += 1
        if self.ndec > self.max_decisions:
            raise Unsupported("path exceeds %d decisions" % self.max_decisions)
        if idx >= self.prefix_len:
            # n-way fork: the alternative re-runs this same concretisation
            # (prefix_len = idx) with the chosen value excluded
            self.work.append(_Item(idx, (expr != val, self.pc, ()), None))
            self.pc = (expr == val, self.pc, ())
        self.decided[key] = (val, expr)
        return val

    def concretise_real(self, expr):
        v = self._eval(expr)
        v = z3.simplify(v)
        idx = self.ndec
        self.ndec += 1
        if idx >= self.prefix_len:
            self.work.append(_Item(idx, (expr != v, self.pc, ()), None))
            self.pc = (expr == v, self.pc, ())
        return float(fractions.Fraction(v.numerator_as_long(), v.denominator_as_long()))

    def assume(self, cond):
        b = to_bool_expr(cond)
        if b is None:
            raise Unsupported("assume on %r" % (cond,))
        if z3.is_true(b):
            return
        if z3.is_false(b):
            raise PathEnd()
        k = b.get_id()
        hit = self.assume_cache.get(k)
        if hit is None:
            hit = (tuple(self._lits_of(b, [])), b)
            self.assume_cache[k] = hit
        lits = hit[0]
        known = True
        for key, pol, atom in lits:
            h = self.lits.get(key) or self.pre.get(key)
            if h is None or h[0] != pol:
                known = False
                break
        if known:
            for key, pol, atom in lits:
                self.lits.setdefault(key, (pol, atom))
            return
        v = self._eval(b)
        if not z3.is_true(v):
            st, m = self._solve((b, self.pc, lits))
            if st == "unsat":
                raise PathEnd()
            if st == "unknown":
                self.stats["unknown"] += 1
                raise PathEnd()
            self.model = m
        self.pc = (b, self.pc, lits)
        for key, pol, atom in lits:
            self.lits.setdefault(key, (pol, atom))

    def int(self, name, lo=None, hi=None):
        # the variable and its bound constraints are built once per engine and
        # re-used by every path (building z3 terms dominates short paths)
        cacheable = (lo is None or type(lo) is int) and (hi is None or type(hi) is int)
        hit = self._int_cache.get((name, lo, hi)) if cacheable else None
        if hit is None:
            x = z3.Int(name)
            if lo is not None and hi is not None and lo == hi:
                cs = (x == lo,)
            else:
                cs = ()
                if lo is not None:
                    cs += (x >= lo,)
                if hi is not None:
                    cs += (x <= hi,)
            hit = (x, cs, SymInt(x))
            if cacheable:
                self._int_cache[(name, lo, hi)] = hit
        x, cs, sx = hit
        self.inputs[name] = x
        for c in cs:
            self.assume(c)
        return sx

    def bool(self, name):
        x = z3.Bool(name)
        self.inputs[name] = x
        return SymBool(x)

    def real(self, name, lo=None, hi=None):
        x = z3.Real(name)
        self.inputs[name] = x
        if lo is not None:
            self.assume(x >= to_real_expr(lo))
        if hi is not None:
            self.assume(x <= to_real_expr(hi))
        return SymReal(x)

    def choice(self, name, options):
        """A concrete element of `options`, selected by a symbolic index (forks)."""
        options = list(options)
        if len(options) == 1:
            self.int(name, 0, 0)
            return options[0]
        i = self.int(name, 0, len(options) - 1)
        return options[i.__index__()]

    def bit(self, name):
        """Concrete 0/1 chosen by the solver (forks)."""
        return 1 if bool(self.bool(name)) else 0

    def perm(self, name, n):
        """A concrete permutation of range(n) chosen by the solver (forks)."""
        rest = list(range(n))
        out = []
        for k in range(n):
            out.append(rest.pop(self.choice("%s.%d" % (name, k), range(len(rest)))))
        return out

    def check(self, cond, msg, info=None):
        if isinstance(cond, SYM_TYPES):
            ok = bool(cond)
        else:
            ok = bool(cond)
        if not ok:
            raise Violation(msg, info() if callable(info) else info)

    def cover(self, tag):
        self.path_cover.add(tag)

    def inconclusive(self, msg):
        raise Inconclusive(msg)

    def out(self, name, value):
        self.outputs.append((name, value))

    def value(self, v):
        """Model value of a (possibly symbolic) harness value, recursively."""
        if isinstance(v, SymInt):
            return z3.simplify(self._eval(v.e)).as_long()
        if isinstance(v, SymBool):
            return z3.is_true(z3.simplify(self._eval(v.e)))
        if isinstance(v, SymReal):
            r = z3.simplify(self._eval(v.e))
            return fractions.Fraction(r.numerator_as_long(), r.denominator_as_long())
        if isinstance(v, (list, tuple)):
            return type(v)(self.value(x) for x in v) if type(v) in (list, tuple) else [self.value(x) for x in v]
        if isinstance(v, dict):
            return {self.value(k): self.value(x) for k, x in v.items()}
        if isinstance(v, (set, frozenset)):
            return sorted((self.value(x) for x in v), key=repr)
        return v

    def witness(self):
        w = {}
        for name, x in self.inputs.items():
            v = self._eval(x)
            if not (z3.is_int_value(v) or z3.is_true(v) or z3.is_false(v)):
                v = z3.simplify(v)
            if z3.is_int_value(v):
                w[name] = v.as_long()
            elif z3.is_true(v):
                w[name] = True
            elif z3.is_false(v):
                w[name] = False
            elif z3.is_rational_value(v):
                w[name] = [v.numerator_as_long(), v.denominator_as_long()]
            else:
                w[name] = str(v)
        return w

    # -- exploration ----------------------------------------------------------
    def explore(self, fn, on_path=None):
        """Run fn(engine) over all feasible paths.  on_path(engine, status,
        result) is called at the end of each completed path with status in
        {'ok','violation'}; it may raise Violation itself (e.g. replay
        mismatch)."""
        t0 = time.time()
        self.trail = []
        self.canon_cache = {}
        self.neg_cache = {}
        self.assume_cache = {}
        st, m = self._solve(None)
        self._empty_model = m
        self.work = [_Item(0, None, m)]
        while self.work:
            if self.time_budget_s is not None and time.time() - t0 > self.time_budget_s:
                self.stats["cut"] += len(self.work)
                self.work = []
                break
            if self.max_paths is not None and self.stats["paths"] >= self.max_paths:
                self.stats["cut"] += len(self.work)
                self.work = []
                break
            item = self.work.pop()
            if item.model is None:
                st, m = self._solve(item.pc)
                if st == "unsat":
                    self.stats["infeasible"] += 1
                    continue
                if st == "unknown":
                    self.stats["unknown"] += 1
                    continue
                item.model = m
            self.prefix_len = item.prefix_len
            self.model = item.model
            self.pc = item.pc
            self.ndec = 0
            self.decided = {}
            self.lits = {}
            self.pre = {}
            n = item.pc
            while n is not None:
                for key, pol, atom in n[2]:
                    self.pre.setdefault(key, (pol, atom))
                n = n[1]
            self.fanout = {}
            self.inputs = {}
            self.outputs = []
            self.path_cover = set()
            self.stats["paths"] += 1
            Engine.current = self
            status, result = "ok", None
            try:
                try:
                    result = fn(self)
                    self.stats["paths_ok"] += 1
                except Violation as v:
                    status, result = "violation", v
                if on_path is not None:
                    try:
                        on_path(self, status, result)
                    except Violation as v2:
                        status, result = "violation", v2
                if status == "violation":
                    self.stats["violations"] += 1
                    self.violations.append(
                        dict(msg=result.msg, info=result.info, witness=self.witness())
                    )
                for tag in self.path_cover:
                    self.cover_hits[tag] = self.cover_hits.get(tag, 0) + 1
            except PathEnd:
                self.stats["paths_vacuous"] += 1
            except Inconclusive as inc:
                self.stats["cut"] += 1
                if len(self.notes) < 5:
                    self.notes.append("inconclusive path: %s | witness=%r" % (inc, self.witness()))
            except Unsupported as u:
                self.stats["unsupported"] += 1
                self.errors.append("unsupported: %s | witness=%r" % (u, self.witness()))
            finally:
                Engine.current = None
        self.stats["wall_s"] = time.time() - t0
        return self.stats

    @property
    def complete(self):
        s = self.stats
        return s["cut"] == 0 and s["unknown"] == 0 and s["unsupported"] == 0


class ConcreteEngine:
    """Replays one witness with plain Python values (same harness API)."""

    symbolic = False

    def __init__(self, witness):
        self.w = witness
        self.outputs = []
        self.path_cover = set()

    def _get(self, name):
        if name not in self.w:
            # input not constrained on the symbolic path: default like z3 completion
            return None
        return self.w[name]

    def int(self, name, lo=None, hi=None):
        v = self._get(name)
        if v is None:
            v = 0
            if lo is not None and v < lo:
                v = lo
            if hi is not None and v > hi:
                v = hi
        return int(v)

    def bool(self, name):
        v = self._get(name)
        return bool(v) if v is not None else False

    def real(self, name, lo=None, hi=None):
        v = self._get(name)
        if v is None:
            return float(lo) if lo is not None else 0.0
        if isinstance(v, list):
            return fractions.Fraction(v[0], v[1])
        return fractions.Fraction(v)

    def choice(self, name, options):
        options = list(options)
        return options[self.int(name, 0, len(options) - 1)]

    def bit(self, name):
        return 1 if self.bool(name) else 0

    def perm(self, name, n):
        rest = list(range(n))
        out = []
        for k in range(n):
            out.append(rest.pop(self.choice("%s.%d" % (name, k), range(len(rest)))))
        return out

    def assume(self, cond):
        if not cond:
            raise PathEnd()

    def check(self, cond, msg, info=None):
        if not cond:
            raise Violation(msg, info() if callable(info) else info)

    def cover(self, tag):
        self.path_cover.add(tag)

    def inconclusive(self, msg):
        raise Inconclusive(msg)

    def out(self, name, value):
        self.outputs.append((name, value))

    def value(self, v):
        if isinstance(v, (set, frozenset)):
            return sorted(v, key=repr)
        return v

    def witness(self):
        return dict(self.w)


def run_concrete(fn, witness):
    """Returns (status, detail, outputs): status in ok / violation / vacuous / error."""
    e = ConcreteEngine(witness)
    try:
        fn(e)
        return "ok", None, e.outputs
    except Violation as v:
        return "violation", v.msg, e.outputs
    except PathEnd:
        return "vacuous", None, e.outputs
    except Inconclusive as inc:
        return "inconclusive", str(inc), e.outputs
