"""Load the repo's pure-Python modules from the *current* working tree into a
private "symbolic world": the source is re-read from /repo on every run,
compiled (optionally after an AST transformation) and executed in fresh module
objects whose imports of compiled/IO modules are redirected to models.

The real `whatshap` package stays importable next to it for replay."""
import ast
import builtins
import os
import sys
import types

from .engine import SymInt, SymBool, SymReal, Unsupported

REPO = os.environ.get("VERIF_REPO", "/repo")


class _IntMeta(type):
    def __instancecheck__(cls, x):
        return isinstance(x, (int, SymInt, SymBool))


class sym_int(int, metaclass=_IntMeta):
    def __new__(cls, x=0, *a):
        if isinstance(x, SymInt):
            return x
        if isinstance(x, SymBool):
            return x._i()
        if isinstance(x, SymReal):
            raise Unsupported("int() of a symbolic real")
        return int(x, *a)


class _FloatMeta(type):
    def __instancecheck__(cls, x):
        return isinstance(x, (float, SymReal))


class sym_float(float, metaclass=_FloatMeta):
    def __new__(cls, x=0.0):
        if isinstance(x, SymReal):
            return x
        if isinstance(x, (SymInt, SymBool)):
            from .engine import to_real_expr

            return SymReal(to_real_expr(x))
        return float(x)


class _BoolMeta(type):
    def __instancecheck__(cls, x):
        return isinstance(x, (bool, SymBool))


class sym_bool(metaclass=_BoolMeta):
    def __new__(cls, x=False):
        if isinstance(x, SymBool):
            return x
        if isinstance(x, SymInt):
            return x != 0
        return bool(x)


def sym_abs(x):
    return abs(x)


DEFAULT_SHADOWS = {"int": sym_int, "float": sym_float, "bool": sym_bool}


class SymWorld:
    def __init__(self, overrides=None, shadows=None, transformer=None, per_module_globals=None, repo=None, decy=()):
        self.repo = repo or REPO
        self.decy = set(decy)  # Cython modules to be translated by DeCy
        self.overrides = dict(overrides or {})
        self.shadows = dict(DEFAULT_SHADOWS)
        if shadows:
            self.shadows.update(shadows)
        self.transformer = transformer
        self.per_module_globals = per_module_globals or {}
        self.modules = {}
        self.sources = []

    def _path(self, name):
        rel = name.replace(".", "/")
        p = os.path.join(self.repo, rel + ".py")
        if os.path.exists(p):
            return p, False
        p = os.path.join(self.repo, rel, "__init__.py")
        if os.path.exists(p):
            return p, True
        p = os.path.join(self.repo, rel + ".pyx")
        if os.path.exists(p) and name in self.decy:
            return p, False
        return None, False

    def _import(self, name, globals=None, locals=None, fromlist=(), level=0):
        if level:
            pkg = globals.get("__package__") or ""
            parts = pkg.split(".")
            if level > 1:
                parts = parts[: -(level - 1)]
            base = ".".join(parts)
            name = base + ("." + name if name else "")
        top = name.split(".")[0]
        if top != "whatshap" and name not in self.overrides and top not in self.overrides:
            return builtins.__import__(name, globals, locals, fromlist, 0)
        mod = self.load(name)
        if fromlist:
            for f in fromlist:
                if f != "*" and not hasattr(mod, f):
                    sub = name + "." + f
                    if sub in self.overrides or self._path(sub)[0]:
                        self.load(sub)
            return mod
        return self.load(top)

    def load(self, name):
        if name in self.modules:
            return self.modules[name]
        if name in self.overrides:
            m = self.overrides[name]
            self.modules[name] = m
            self._link(name, m)
            return m
        top = name.split(".")[0]
        if top in self.overrides and top != name:
            # attribute of an overridden package
            m = self.overrides[top]
            for part in name.split(".")[1:]:
                m = getattr(m, part)
            return m
        if name == "whatshap":
            m = types.ModuleType("whatshap")
            m.__path__ = [os.path.join(self.repo, "whatshap")]
            m.__package__ = "whatshap"
            m.__version__ = "verif"
            self.modules[name] = m
            return m
        path, is_pkg = self._path(name)
        if path is None:
            raise ImportError("symbolic world: no pure-Python source for %s (add an override/model)" % name)
        if "." in name:
            self.load(name.rsplit(".", 1)[0])
        self.sources.append(os.path.relpath(path, self.repo))
        if path.endswith(".pyx"):
            from vf.decy.emit import translate

            pxds = [os.path.join(self.repo, "whatshap", f) for f in ("priorityqueue.pxd",)]
            src, _ = translate(path, extra_pxd=pxds)
            self.decy_sources = getattr(self, "decy_sources", {})
            self.decy_sources[name] = src
        else:
            src = open(path).read()
        tree = ast.parse(src, path)
        if self.transformer is not None:
            tree = self.transformer(name, tree)
            ast.fix_missing_locations(tree)
        code = compile(tree, path, "exec")
        m = types.ModuleType(name)
        m.__file__ = path
        m.__package__ = name if is_pkg else name.rsplit(".", 1)[0]
        if is_pkg:
            m.__path__ = [os.path.dirname(path)]
        b = dict(vars(builtins))
        b["__import__"] = self._import
        b.update(self.shadows)
        m.__dict__["__builtins__"] = b
        m.__dict__.update(self.per_module_globals.get(name, {}))
        self.modules[name] = m
        # dataclasses and typing look modules up in sys.modules by __module__
        prev = sys.modules.get(name)
        sys.modules[name] = m
        try:
            exec(code, m.__dict__)
        finally:
            if prev is not None:
                sys.modules[name] = prev
            else:
                del sys.modules[name]
        self._link(name, m)
        return m

    def _link(self, name, m):
        if "." in name:
            parent, leaf = name.rsplit(".", 1)
            if parent in self.modules:
                try:
                    setattr(self.modules[parent], leaf, m)
                except Exception:
                    pass
