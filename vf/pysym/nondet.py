"""Hash-seed nondeterminism as a symbolic variable (C16).

`NSet` / `NFrozenSet` stand for the built-in set types inside modules loaded
through SymWorld(shadows=nondet.shadows(), transformer=nondet.transformer):
whenever such a set is *iterated* (for, list(), join, sorted, ...) and holds
hash-randomised elements (str, bytes, or objects flagged by `is_seed_sensitive`),
its elements are produced in an order chosen by ORDER_HOOK - in a symbolic run a
solver-chosen permutation, i.e. every order some PYTHONHASHSEED could produce
and more.  Set displays and comprehensions are rewritten to calls so that they
build NSets too.

EXTRA_SENSITIVE holds additional predicates (module state: every harness sets the
list it wants before running).  `id_hashed` flags objects with the default identity
hash: a set of those is ordered by memory addresses, which is not a function of the
input either (used by C16 seed_haplotag for the sets of Read objects)."""
import ast
import builtins

ORDER_HOOK = None  # callable(list) -> list
SENSITIVE_TYPES = (str, bytes)
EXTRA_SENSITIVE = []  # predicates


def id_hashed(x):
    """Predicate for EXTRA_SENSITIVE: objects that use the default identity hash.  A set of such objects is ordered by
    memory addresses - not by the hash seed, but not by the input either (whatshap.core.Read wrappers in
    haplotag's `reads_to_consider`).  Opt-in: `nondet.EXTRA_SENSITIVE[:] = [nondet.id_hashed]`."""
    t = type(x)
    if t in (int, float, bool, complex, type(None), str, bytes, tuple, frozenset):
        return False
    return getattr(t, "__hash__", None) is object.__hash__


def is_seed_sensitive(x):
    if isinstance(x, SENSITIVE_TYPES):
        return True
    if isinstance(x, tuple):
        return any(is_seed_sensitive(y) for y in x)
    for p in EXTRA_SENSITIVE:
        if p(x):
            return True
    return False


def _order(items):
    items = list(items)
    if ORDER_HOOK is None or len(items) < 2:
        return items
    if not any(is_seed_sensitive(x) for x in items):
        return items
    # canonical base order first, so that the hook's permutation means the same thing in every run
    try:
        items.sort(key=repr)
    except Exception:
        pass
    return ORDER_HOOK(items)


def _wrap(cls, r):
    if isinstance(r, (set, frozenset)) and not isinstance(r, (NSet, NFrozenSet)):
        return (NFrozenSet if isinstance(r, frozenset) else NSet)(r)
    return r


BUILT = [0]  # number of NSet/NFrozenSet objects created (vacuity guard for the checks)


class NSet(set):
    def __init__(self, *a):
        BUILT[0] += 1
        set.__init__(self, *a)

    def __iter__(self):
        return iter(_order(set.__iter__(self)))

    def pop(self):
        items = _order(set.__iter__(self))
        if not items:
            raise KeyError("pop from an empty set")
        set.discard(self, items[0])
        return items[0]

    def copy(self):
        return NSet(set.__iter__(self))

    def __repr__(self):
        return "{" + ", ".join(repr(x) for x in self) + "}" if len(self) else "set()"


class NFrozenSet(frozenset):
    def __iter__(self):
        return iter(_order(frozenset.__iter__(self)))

    def copy(self):
        return self


for _name in ("union", "intersection", "difference", "symmetric_difference", "__or__", "__and__", "__sub__", "__xor__", "__ror__", "__rand__", "__rsub__", "__rxor__"):
    def _mk(name):
        def f(self, *a):
            base = set if isinstance(self, set) else frozenset
            return _wrap(type(self), getattr(base, name)(self, *a))

        f.__name__ = name
        return f

    setattr(NSet, _name, _mk(_name))
    setattr(NFrozenSet, _name, _mk(_name))


def shadows():
    return {"set": NSet, "frozenset": NFrozenSet}


class _T(ast.NodeTransformer):
    def visit_Set(self, node):
        self.generic_visit(node)
        return ast.copy_location(ast.Call(func=ast.Name(id="set", ctx=ast.Load()), args=[ast.List(elts=node.elts, ctx=ast.Load())], keywords=[]), node)

    def visit_SetComp(self, node):
        self.generic_visit(node)
        return ast.copy_location(ast.Call(func=ast.Name(id="set", ctx=ast.Load()), args=[ast.ListComp(elt=node.elt, generators=node.generators)], keywords=[]), node)


def transformer(modname, tree):
    return _T().visit(tree)
