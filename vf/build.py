"""Scratch rebuild of the repo's compiled extensions from the *current* working
tree (for replaying solver witnesses against the real build), cached by source
hash under /verif/.cache/ext, plus native harness builds for LLSym replays."""
import hashlib
import glob
import importlib.util
import os
import shutil
import subprocess
import sys
import sysconfig
from concurrent.futures import ThreadPoolExecutor

VERIF = os.path.dirname(os.path.dirname(os.path.abspath(__file__)))
REPO = os.environ.get("VERIF_REPO", "/repo")
CACHE = os.path.join(VERIF, ".cache", "ext")

CORE_SOURCES = [
    "src/pedigree.cpp", "src/pedigreedptable.cpp", "src/pedigreecolumncostcomputer.cpp",
    "src/columnindexingiterator.cpp", "src/columnindexingscheme.cpp", "src/entry.cpp", "src/graycodes.cpp",
    "src/read.cpp", "src/readset.cpp", "src/columniterator.cpp", "src/indexset.cpp", "src/genotype.cpp",
    "src/binomial.cpp", "src/pedmecheuristic.cpp", "src/multinomial.cpp", "src/pedigreepartitions.cpp",
    "src/phredgenotypelikelihoods.cpp", "src/genotyper.cpp", "src/genotypedistribution.cpp",
    "src/genotypedptable.cpp", "src/genotypecolumncostcomputer.cpp", "src/backwardcolumniterator.cpp",
    "src/transitionprobabilitycomputer.cpp", "src/hapchat/basictypes.cpp", "src/hapchat/balancedcombinations.cpp",
    "src/hapchat/binomialcoefficient.cpp", "src/hapchat/hapchatcore.cpp", "src/hapchat/hapchatcolumniterator.cpp",
    "src/caller.cpp",
]
EXTS = {
    "core": ["whatshap/core.pyx"] + CORE_SOURCES,
    "priorityqueue": ["whatshap/priorityqueue.pyx"],
    "readselect": ["whatshap/readselect.pyx"],
    "align": ["whatshap/align.pyx"],
    "_variants": ["whatshap/_variants.pyx"],
}
SOLVER_SOURCES = [
    "src/polyphase/allelematrix.cpp", "src/polyphase/clustereditingsolution.cpp", "src/polyphase/clustereditingsolver.cpp",
    "src/polyphase/edgeheap.cpp", "src/polyphase/inducedcostheuristic.cpp", "src/polyphase/progenygenotypelikelihoods.cpp",
    "src/polyphase/staticsparsegraph.cpp", "src/polyphase/switchflipcalculator.cpp", "src/polyphase/trianglesparsematrix.cpp",
    "src/polyphase/readscoring.cpp", "src/polyphase/haplothreader.cpp", "src/polyphase/tupleconverter.cpp",
]
EXTS["polyphase.solver"] = ["whatshap/polyphase/solver.pyx"] + SOLVER_SOURCES
ORDER = ["core", "polyphase.solver", "priorityqueue", "readselect", "align", "_variants"]


def _hash_for(names):
    h = hashlib.sha256()
    files = set()
    for n in names:
        files.update(EXTS[n])
    files.update(glob.glob(os.path.join(REPO, "src", "*.h")))
    files.update(glob.glob(os.path.join(REPO, "src", "hapchat", "*.h")))
    files.update(glob.glob(os.path.join(REPO, "whatshap", "*.pxd")))
    if any(n.startswith("polyphase") for n in names):
        files.update(glob.glob(os.path.join(REPO, "src", "polyphase", "*.h")))
        files.update(glob.glob(os.path.join(REPO, "whatshap", "polyphase", "*.pxd")))
    for f in sorted(files):
        p = f if os.path.isabs(f) else os.path.join(REPO, f)
        h.update(f.encode())
        try:
            h.update(open(p, "rb").read())
        except OSError:
            h.update(b"<missing>")
    return h.hexdigest()[:20]


def _run(cmd, cwd=None):
    r = subprocess.run(cmd, cwd=cwd, stdout=subprocess.PIPE, stderr=subprocess.STDOUT, text=True)
    if r.returncode != 0:
        raise RuntimeError("build failed: %s\n%s" % (" ".join(cmd), r.stdout[-3000:]))
    return r.stdout


def ext_suffix():
    return sysconfig.get_config_var("EXT_SUFFIX")


def build_ext(name):
    """Build one extension from the working tree; returns the .so path."""
    key = _hash_for({"readselect": ["readselect", "core", "priorityqueue"], "polyphase.solver": ["polyphase.solver", "core"]}.get(name, [name]))
    out = os.path.join(CACHE, "%s-%s%s" % (name, key, ext_suffix()))
    if os.path.exists(out):
        try:
            os.utime(out)  # mark as recently used (see the cleanup below)
        except OSError:
            pass
        return out
    os.makedirs(CACHE, exist_ok=True)
    work = os.path.join(CACHE, "build-%s-%s-%d" % (name, key, os.getpid()))
    shutil.rmtree(work, ignore_errors=True)
    os.makedirs(work)
    try:
        inc = sysconfig.get_paths()["include"]
        srcs = EXTS[name]
        pyx = srcs[0]
        gen = os.path.join(work, name.split(".")[-1] + ".cpp")
        cython = os.path.join(os.path.dirname(sys.executable), "cython")
        if not os.path.exists(cython):
            cython = "/venv/bin/cython"
        _run([cython, "-3", "--cplus", "-I", REPO, os.path.join(REPO, pyx), "-o", gen], cwd=REPO)
        flags = ["-fPIC", "-O1", "-std=c++11", "-UNDEBUG", "-I" + os.path.join(REPO, "src"), "-I" + inc, "-I" + os.path.join(REPO, "whatshap"), "-w"]
        objs = []

        def cc(src):
            o = os.path.join(work, src.replace("/", "_") + ".o")
            _run(["g++", "-c"] + flags + [src if os.path.isabs(src) else os.path.join(REPO, src), "-o", o])
            return o

        with ThreadPoolExecutor(16) as ex:
            objs = list(ex.map(cc, [gen] + srcs[1:]))
        tmp = out + ".tmp%d" % os.getpid()
        _run(["g++", "-shared"] + objs + ["-o", tmp])
        os.replace(tmp, out)
    finally:
        shutil.rmtree(work, ignore_errors=True)
    # keep the cache small: drop older builds of the same extension - but never one that was used
    # within the last hours (concurrent runs on a mutated scratch copy would otherwise delete the
    # build of the unchanged tree under the feet of a run that is about to load it)
    import time

    for f in glob.glob(os.path.join(CACHE, name + "-*" + ext_suffix())):
        if f != out:
            try:
                if time.time() - os.path.getmtime(f) > 6 * 3600:
                    os.remove(f)
            except OSError:
                pass
    return out


_loaded = {}


def prepare_repo():
    """A scratch worktree (VERIF_REPO) lacks the generated _version.py and must
    come first on sys.path (the editable install points at /repo)."""
    if REPO != "/repo":
        v = os.path.join(REPO, "whatshap", "_version.py")
        if not os.path.exists(v):
            open(v, "w").write("version = __version__ = '0.0.verif'\nversion_tuple = (0, 0)\n")
        if REPO not in sys.path:
            sys.path.insert(0, REPO)



def load_real(names=ORDER):
    """Load freshly built extensions as whatshap.<name> (must run before the
    first `import whatshap` in this process)."""
    prepare_repo()
    names = [n for n in ORDER if n in names or (n == "core" and ("readselect" in names or "polyphase.solver" in names)) or (n == "priorityqueue" and "readselect" in names)]
    if REPO != "/repo" and "polyphase.solver" not in names and not glob.glob(os.path.join(REPO, "whatshap", "polyphase", "solver*.so")):
        names = [n for n in ORDER if n in names or n in ("core", "polyphase.solver")]
    if "whatshap" in sys.modules and any(("whatshap." + n) not in _loaded for n in names):
        for n in names:
            if ("whatshap." + n) in sys.modules and ("whatshap." + n) not in _loaded:
                raise RuntimeError("whatshap.%s already imported from the prebuilt tree" % n)
    flags = sys.getdlopenflags()
    sys.setdlopenflags(os.RTLD_GLOBAL | os.RTLD_NOW)
    try:
        for n in names:
            full = "whatshap." + n
            if full in _loaded:
                continue
            so = build_ext(n)
            spec = importlib.util.spec_from_file_location(full, so)
            mod = importlib.util.module_from_spec(spec)
            sys.modules[full] = mod
            spec.loader.exec_module(mod)
            _loaded[full] = so
    finally:
        sys.setdlopenflags(flags)
    import whatshap  # noqa

    for n in names:
        if "." not in n:
            setattr(sys.modules["whatshap"], n, sys.modules["whatshap." + n])
    return {n: sys.modules["whatshap." + n] for n in names}


if __name__ == "__main__":
    import time

    for n in sys.argv[1:] or ORDER:
        t = time.time()
        print(n, build_ext(n), "%.1fs" % (time.time() - t))
