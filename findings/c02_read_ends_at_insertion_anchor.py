import pysam, random, subprocess, sys, os
random.seed(7)
ref=''.join(random.choice('ACGT') for _ in range(400))
# SNV at 0-based 100, insertion after anchor at 0-based 160
snv=100; anchor=160
alt_base='A' if ref[snv]!='A' else 'C'
ins='GATTACA'
open('ref.fa','w').write('>chr1\n'+ref+'\n'); pysam.faidx('ref.fa')
with open('in.vcf','w') as f:
    f.write('##fileformat=VCFv4.2\n##contig=<ID=chr1,length=400>\n##FORMAT=<ID=GT,Number=1,Type=String,Description="GT">\n#CHROM\tPOS\tID\tREF\tALT\tQUAL\tFILTER\tINFO\tFORMAT\ts\n')
    f.write('chr1\t%d\t.\t%s\t%s\t.\t.\t.\tGT\t0/1\n'%(snv+1,ref[snv],alt_base))
    f.write('chr1\t%d\t.\t%s\t%s\t.\t.\t.\tGT\t0/1\n'%(anchor+1,ref[anchor],ref[anchor]+ins))
# haplotype A: SNV alt + insertion; haplotype B: reference.
hapA=ref[:snv]+alt_base+ref[snv+1:]
h=pysam.AlignmentHeader.from_dict({'HD':{'VN':'1.6','SO':'coordinate'},'SQ':[{'SN':'chr1','LN':400}],'RG':[{'ID':'g','SM':'s'}]})
with pysam.AlignmentFile('r.bam','wb',header=h) as o:
    def rd(name,start,end,seq):
        a=pysam.AlignedSegment(h); a.query_name=name; a.reference_id=0; a.reference_start=start; a.query_sequence=seq; a.cigartuples=[(0,len(seq))]; a.mapping_quality=60; a.flag=0; a.query_qualities=pysam.qualitystring_to_array('I'*len(seq)); a.set_tag('RG','g'); o.write(a)
    # error-free read of haplotype A that ends exactly at the insertion's anchor base
    rd('A1',60,anchor+1,hapA[60:anchor+1])
pysam.index('r.bam')
r=subprocess.run([sys.executable,'-m','whatshap','phase','--reference','ref.fa','-o','out.vcf','in.vcf','r.bam'],capture_output=True,text=True,env=dict(os.environ,PYTHONPATH='/repo'))
print(r.returncode); print([l for l in open('out.vcf') if not l.startswith('##')])
