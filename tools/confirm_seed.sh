#!/bin/bash
# tools/confirm_seed.sh <seed dir under seeded/>: independent confirmation of a seeded change in a scratch worktree:
# applies, (re)builds if compiled sources are touched, runs the repo's test suite, runs the demo with and without the patch.
# Appends the outcome to seeded/<seed>/meta.json under "confirmed_by_lead". The worktree is removed afterwards.
seed=$1
S=/verif/seeded/$seed
wt=/tmp/confirm-$seed
git -C /repo worktree remove --force $wt >/dev/null 2>&1; rm -rf $wt
git -C /repo worktree add -q --detach $wt HEAD || exit 2
cp /repo/whatshap/*.so /repo/whatshap/_version.py $wt/whatshap/; cp /repo/whatshap/polyphase/*.so $wt/whatshap/polyphase/
cd $wt
demo=$(ls $S/demo.* | head -1)
run_demo() { if [[ $demo == *.py ]]; then PYTHONPATH=$wt timeout 1200 /venv/bin/python $demo > $1 2>&1; else PYTHONPATH=$wt timeout 1200 bash $demo > $1 2>&1; fi; echo $?; }
# demos refer to the seeder's own worktree path: rewrite to this one
sed -i "s#/tmp/seed-[A-Za-z0-9]*#$wt#g" $demo 2>/dev/null
rc_without=$(run_demo /tmp/confirm-$seed.without.log)
git apply $S/patch.diff || { echo "patch does not apply"; exit 2; }
built=no
if git diff --name-only | grep -qE '\.pyx$|\.pxd$|^src/'; then built=yes; /venv/bin/python setup.py build_ext --inplace > /tmp/confirm-$seed.build.log 2>&1 || echo "BUILD FAILED"; fi
tests=$(PYTHONPATH=$wt /venv/bin/python -m pytest -q -p no:cacheprovider --timeout=900 tests 2>&1 | tail -1)
rc_with=$(run_demo /tmp/confirm-$seed.with.log)
msg=$(tail -3 /tmp/confirm-$seed.with.log | tr '\n' ' ' | cut -c1-300)
/venv/bin/python - "$S/meta.json" "$rc_without" "$rc_with" "$tests" "$built" "$msg" <<'PY'
import json,sys
p,rw,rc,tests,built,msg=sys.argv[1:7]
m=json.load(open(p))
m["confirmed_by_lead"]={"worktree":"scratch git worktree of /repo HEAD, removed afterwards","rebuilt_extensions":built,"tests_with_patch":tests,"demo_exit_without_patch":int(rw),"demo_exit_with_patch":int(rc),"demo_message_with_patch":msg}
json.dump(m,open(p,"w"),indent=1)
print(p, m["confirmed_by_lead"])
PY
cd /; git -C /repo worktree remove --force $wt; rm -f /tmp/confirm-$seed.*.log
