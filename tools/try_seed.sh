#!/bin/bash
# tools/try_seed.sh <seed dir name under seeded/> <property id> [extra check args]
# Runs the property's quick check against a scratch copy of /repo with the seeded patch applied
# (VERIF_REPO), so that concurrently running checks on /repo are not disturbed; the copy is removed afterwards.
# (With nothing else running, `git -C /repo apply` + `git -C /repo checkout -- .` is equivalent.)
set -u
seed=$1; prop=$2; shift 2
cd /verif
scratch=/var/tmp/seedrun-$$
rm -rf $scratch; cp -r /repo $scratch || exit 2
trap 'rm -rf $scratch' EXIT
git -C $scratch apply /verif/seeded/$seed/patch.diff || { echo "patch does not apply"; exit 2; }
VERIF_REPO=$scratch timeout ${SEED_TIMEOUT:-3000} ./check $prop --tier ${SEED_TIER:-quick} --no-evidence "$@" 2>&1 | grep -E "^VIOLATION|what:|^C[0-9]+ |HARNESS|KNOWN" | cut -c1-400 | head -${SEED_LINES:-12}
echo "exit=${PIPESTATUS[0]}"
