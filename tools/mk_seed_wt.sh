#!/bin/bash
# tools/mk_seed_wt.sh <property> <suffix>: scratch git worktree of /repo HEAD for a seeding sub-agent at /tmp/seed-<property><suffix>,
# with the compiled extensions of /repo copied in so that the test suite runs without a rebuild (pure-Python changes).
p=$1; s=$2
wt=/tmp/seed-$p$s
git -C /repo worktree remove --force $wt >/dev/null 2>&1; rm -rf $wt
git -C /repo worktree add -q --detach $wt HEAD || exit 2
cp /repo/whatshap/*.so /repo/whatshap/_version.py $wt/whatshap/; cp /repo/whatshap/polyphase/*.so $wt/whatshap/polyphase/
mkdir -p $wt/seed
echo $wt
