#!/usr/bin/env python3
"""Regenerates MANIFEST.json from the table below (kept next to the checks so
that the manifest never drifts from what exists)."""
import json
import os

VERIF = os.path.dirname(os.path.dirname(os.path.abspath(__file__)))

CHECKS = {
    "C18": dict(
        engine="PySym + DeCy",
        technique="bounded symbolic execution (z3) of whatshap/graph.py and of the DeCy translation of priorityqueue.pyx: bounded histories plus one inductive step from an arbitrary valid state; every path replayed on the compiled extension rebuilt from the working tree",
        text="Within the stated bounds every path of the real code is explored with symbolic scores/values and each assertion is decided by z3; the inductive step (arbitrary valid heap / forest + one operation) extends the claim to histories of any length for structures up to the bounded size.",
        note="Trusted: z3, the PySym proxies, the DeCy emitter and C++ container shims (validated by the repo's own priority-queue tests on the translation and by replaying every explored path on the compiled module). Outside: heaps > 7 entries, tuple scores longer than 2, scores beyond the small symbolic ranges (only order matters), C int overflow.",
        design_ref="DESIGN.md §4 C18",
    ),
}

CHECKS.update({
    "C01": dict(
        engine="LLSym",
        technique="bounded symbolic execution of the real C++ DP from LLVM IR (clang -O1) with state merging at post-dominators; final obligations (optimality vs every bipartition/transmission sequence, witness attains cost, unflagged alleles agree with every column optimum, no reachable assert/throw) decided by z3 in linear integer arithmetic against a definition-level oracle; counter-examples replayed on a native g++ build and judged by brute force",
        text="Per instance shape (read x column incidence, pedigree, genotype mode) ALL allele patterns, weights, recombination costs and likelihoods within the stated ranges are covered at once; the claim is 'holds for every input of every enumerated shape', nothing beyond the shapes.",
        note="Trusted: clang/LLVM 14 IR as the meaning of the source, the LLSym interpreter and its libstdc++ externals (validated on every run by evaluating the merged symbolic result on random inputs against the native twin), z3, the short oracle. Outside: coverage > 3 (hence anything that depends on the width of the bipartition index, e.g. > 2^16 bipartitions per column), > 6 columns, > 4 reads, weights >= 64, quartets, core.pyx marshalling.",
        design_ref="DESIGN.md §2.3, §4 C01",
    ),
    "C02": dict(
        engine="LLSym + PySym/DeCy",
        technique="(a) ef_lemma: same LLSym symbolic run of the real DP with entries constrained to error-free copies (allele = h[column] xor s[read]); z3 decides 'cost = 0 and each read-connected component carries the true haplotypes up to a swap, nothing flagged as tie'; (b) ef_detect: bounded symbolic execution (PySym/z3, DeCy for the .pyx kernels) of ReadSetReader.read on symbolic DNA: a read that is an exact copy of a haplotype never records the allele the haplotype does not carry, whatever part of the variant it covers; every path replayed on the real module with real pysam.AlignedSegment objects; (c) ef_sources: the same executor on two input files (source ids) whose reads may share a name: each error-free read arrives in the read set as its own read with the alleles of its own haplotype",
        text="(a) solver lemma at the solver interface, for all true haplotypes / read origins / weights >= 1 of every enumerated shape; (b) the input side of that lemma: reference <= 7 (10) symbolic bases, one variant of every kind at every position, one read over every reference interval, re-alignment with overhang 1-2 (3) and CIGAR-based SNV detection; (c) two SNVs at every pair of positions of a 6 (8) base reference, one read per input file in three layouts, equal or different names. The remaining pipeline stages are claimed by their own properties (C07, C03, C04, C09); the byte-level BAM/VCF path is outside.",
        note="As C01 and C06. One known finding (an uninformative read that stops at an insertion's anchor base is recorded as REF; reproduced with the CLI: findings/c02_read_ends_at_insertion_anchor.py). Whole-pipeline composition with real BAM/VCF files is not encodable (htslib) and not claimed.",
        design_ref="DESIGN.md §4 C02 (a)",
    ),
    "C05": dict(
        engine="LLSym + PySym",
        technique="LLSym symbolic run of the real DP on trio shapes in trusted-genotype mode; z3 decides: child alleles come from the respective parent's genotype, the transmission value selects the parental haplotype under one fixed labelling, read-less columns with a homozygous parent are phased; sub-check ped_parts: LLSym run of Pedigree + PedigreePartitions alone, all transmission values and every order of addRelationship calls - each child's partitions follow the two bits of the k-th added relationship (the decoding phase.py and --recombination-list use); sub-checks ped_filter / ped_genetic (PySym/z3): find_phaseable_variants resp. run_whatshap itself under stubs (reader, read input, solver contract stub, recording writer) on solver-chosen trio genotypes and read sets: conflict / missing-genotype variants never reach the solver, child-heterozygous variants with a homozygous parent reach solver and writer with or without reads",
        text="Bounded: 2-3 column trios with up to 2-3 reads, all alleles/weights/recombination costs symbolic; ped_parts: trio, quartet (both orders), child listed before its parents (thorough: two trios, three generations, three children); ped_genetic: trio, 1-3 (4) variants, all genotype rows for <= 2 variants, 8 representative rows beyond, 27 read patterns; a second unrelated trio in the same run (1-2 variants, representative rows for both families); sub-check run (checks/phase_run.py, pedigree shapes): trio without reads through the REAL VcfReader and PhasedVcfWriter, two records sharing a position in every kind combination (snv / indel / multi-ALT), --only-snvs, both tags: the first usable record of every position comes out phased for the child.",
        note="As C01. The labelling convention of the transmission bits is not spelled out by the statement; the weaker reading (one fixed convention for all inputs) is asserted. Conflict/missing-genotype filtering (Python) is claimed by sub-check ped_filter when present.",
        design_ref="DESIGN.md §4 C05",
    ),
    "C20": dict(
        engine="PySym",
        technique="bounded symbolic execution (PySym/z3) of whatshap.cli.phase.run_whatshap with the environment stubbed (VCF reader/writer, read input, exact solver as contract stub, in-memory files); every path replayed on the real module with real files",
        text="All three list files are checked against what each (chromosome, family) step produced, for 1-2 chromosomes x {single, trio, trio + unrelated sample} x distrust on/off with solver-chosen read patterns (including a phase set nested inside the family's block, 5 variants), transmission vectors and genotype changes; the phase set of every listed read is compared with the component the VCF writer is handed for the read's first variant (first variant on the first base of the contig included). Sub-check run: the changed-genotype list against the REAL writer: listed changes == GT differences between input and output document (incl. changes to homozygous), none without --distrust-genotypes. aux quartet shape (children listed in different orders in VCF and PED): each recombination line names the child whose relationship bits of the transmission value changed.",
        note="Trusted: the stubs listed in the evidence (they stand for C01/C04); PySym proxies. Outside: real BAM/VCF I/O, more than 2 chromosomes / 2 families (the defect class is per-step file handling).",
        design_ref="DESIGN.md §4 C20",
    ),
})

CHECKS.update({
    "C06": dict(
        engine="PySym + DeCy",
        technique="bounded symbolic execution (PySym/z3) of ReadSetReader.read and everything below it - variants.py, vcf.py normalisation, the DeCy translations of _variants.pyx and align.pyx - with symbolic DNA (reference, inserted and substituted bases); the read and its canonical CIGAR are derived from (reference, variants, carried alleles); every path replayed through the real variants.py, the rebuilt compiled _variants/align/core and real pysam.AlignedSegment objects",
        text="A substitution whose bases all lie inside the skipped bases of an N operator counts as not overlapped (no allele may be recorded). Exhaustive within the bounds: reference <= 7 (thorough 10) bases, one or two variants of every kind (SNV, MNP, 1-2 base insertion/deletion, padded records, multi-allelic), clips, =/X, N skips, mate pairs in all orientations, overhang 0-2 (3). Clauses: never the other allele; nothing for non-overlapped variants; allele found with a reference; found without one for SNVs and unshiftable indels.",
        note="Trusted: duck-typed alignment + in-memory reader (validated by the replay through real AlignedSegments), core model, SymStr, DeCy. Seven genuine defects were found; four are repaired in /repo, three stay as known findings (--overhang 0 x2, neighbouring carried indel in the re-alignment window: each needs a design decision in allele detection). Outside: default overhang 10, affine/k-mer re-alignment, supplementary alignments, P operator.",
        design_ref="DESIGN.md §4 C06, §9",
    ),
    "C07": dict(
        engine="PySym + DeCy",
        technique="bounded symbolic execution (PySym/z3) of the DeCy translation of readselect.pyx (with priorityqueue.pyx, coverage.py, graph.py) with symbolic cap, qualities, source ids and unordered_set iteration order; plus a z3 lemma over unbounded integers for the per-member cap expression extracted from phase.py's AST; every path replayed on the rebuilt compiled readselect/core",
        text="Sub-check phase_select: phase.select_reads (what `whatshap phase` hands to the solver) over the DeCy readselection, 3 (4) reads covering solver-chosen subsets of 4 variants incl. gapped reads, k in {1,2}: no variant spanned more than k times. Sub-check covmon: CovMonitor alone against its definition, index ranges over small values and the neighbourhood of every integer literal harvested from coverage.py (block sizes of a bucketed implementation enter the bound by themselves). All read/variant incidence structures with <= 3 (thorough 4) reads over <= 4 variants: subset, span coverage <= k, maximality, independence of the C++ unordered_set order; arithmetic lemma: family_size * max(1, k // family_size) <= k for all 1 <= family_size <= k, and the 23 validation bound.",
        note="Trusted: DeCy shims, core model (validated by the repo's readselect tests on the translation and by per-path replay on the compiled module). Outside: more than 4 reads / 4 variants.",
        design_ref="DESIGN.md §4 C07, §9",
    ),
    "C08": dict(
        engine="PySym",
        technique="bounded symbolic execution (PySym/z3) of determine_genotype and GenotypeVcfWriter.write_genotypes with likelihoods on a symbolic dyadic grid (every order and tie pattern reachable, exact as binary floats); replay on the compiled core",
        text="Decision layer only: GT is genotype i iff l_i is the strict maximum above the threshold; GL lists l_0..l_2 in index order; GQ sums exactly the other genotypes. The first sentence of the property (GL equals the HMM posterior) is NOT claimed: GenotypeDPTable computes in x87 long double, no encoding within reach.",
        note="Trusted: core model Genotype/PhredGenotypeLikelihoods, opaque log10 stub, stand-in record objects. Outside: HMM numerics, log10/round values, htslib.",
        design_ref="DESIGN.md §4 C08, §9",
    ),
    "C11": dict(
        engine="PySym",
        technique="bounded symbolic execution (PySym/z3) of compare(), compare_pair, compare_block, compute_switch_flips, switch_encoding, hamming, BedCreator, compare_multiway on VariantTables built from solver-chosen haplotype bits, phase-set structure and symbolic positions; oracle from the definitions; every path replayed on the real module with the compiled Genotype",
        text="Diploid, 2-3 files: all haplotype-string pairs of one block of <= 7 (thorough 9) variants, all <= 2-set structures incl. unphased/absent variants for <= 3-5 variants, multi-allelic hets (unambiguous clauses only), multiway with 3 files. Ploidy > 2 is not claimed (double-scored C++ DP).",
        note="Trusted: PySym, core model Genotype, the oracle. run_compare's file handling is covered for hash-seed independence by C16 only.",
        design_ref="DESIGN.md §4 C11, §9",
    ),
    "C12": dict(
        engine="PySym",
        technique="bounded symbolic execution (PySym/z3) of run_stats plus VcfReader's record-to-table code over a read-only pysam model with symbolic positions; every path replayed end to end (VCF text, real pysam, real run_stats with --tsv/--block-list/--gtf)",
        text="Sub-check samples: two-sample VCF, --sample absent / first / second; counts: three-chromosome shapes with every --chromosome selection pattern. <= 3 (4) records with every call class (hom, het, phased in <= 3 sets, missing, partial) and SNV/indel, <= 6 (7) het records with every interleaving/nesting of <= 3 phase sets, <= 2 chromosomes, PS and HP, --only-snvs, --chromosome.",
        note="Trusted: vcfread_model (re-validated by every replay), print/open capture. Outside: multi-sample files, --chr-lengths, NG50/median values (compared symbolic vs real only).",
        design_ref="DESIGN.md §4 C12, §9",
    ),
    "C14": dict(
        engine="PySym",
        technique="bounded symbolic execution (PySym/z3) of whatshap/cli/split.py (run_split and helpers) over an in-memory file model, option flags symbolic, structure solver-chosen; every path replayed through the real run_split on materialised FASTQ/BAM and list files",
        text="<= 3 (4) reads with names from a pool of 3 (all duplicate patterns), <= 4 list lines (2-/4-column, header or not), ploidy 2-3, every option combination incl. --only-largest-block and the histogram.",
        note="Trusted: io_model (validated on every path by the replay). One known finding stays (zero-length FASTQ read rewritten in FASTA form by pysam's str()). Outside: gzip/htslib byte level.",
        design_ref="DESIGN.md §4 C14, §9",
    ),
    "C15": dict(
        engine="PySym",
        technique="bounded symbolic execution (PySym/z3) of force_genotypes (likelihoods arbitrary extended reals), aggregate_results, compute_cut_positions and phase_single_individual with the heuristic stages replaced by arbitrary outputs of the right shape; replay on the real modules, plus a concrete scenario on the real scipy",
        text="Sub-check phase_block: phase_single_block incl. the recursive sub-instance call with clustering / threading / reordering replaced by their contracts (threading returns genotype-conforming haplotypes iff genotypes are trusted); the block result must carry the input genotype at every position. Ploidy 2-4, <= 3 alleles, <= 4 positions: allele multiset after forcing equals the genotype; phase sets are intervals named by their first position. Cluster editing, threading and reordering heuristics (double-scored C++/ILP) are NOT claimed.",
        note="Trusted: binom/log stubs, core model Read/ReadSet. The VCF writing stage is claimed by C04.",
        design_ref="DESIGN.md §4 C15, §9",
    ),
    "C16": dict(
        engine="PySym",
        technique="the hash seed as a symbolic variable: inside the repo modules set/frozenset iteration over hash-randomised elements yields a solver-chosen permutation (PySym/z3); run_compare, run_polyphase, run_whatshap (phase), run_genotype, run_haplotag, run_stats, run_unphase and run_split are executed under stubs twice (canonical order / solver's order; one permutation per distinct set content, as one process has one seed) and everything they write must be identical; a difference is confirmed by running the real CLI under several PYTHONHASHSEED values; sub-check repeat: the pre-state of the file system is symbolic - per output path of stats / phase (three lists) / learn the solver chooses whether a file of an earlier run is already there, and the outputs must equal those of a run on an empty file system (replay: real CLI into a fresh and into a pre-populated directory); sub-check polyphase_threads: the data flow of the worker branch of solve_polyphase_instance (jobs sorted by size, results put back by block id) under a synchronous pool stand-in equals the sequential branch for solver-chosen block layouts and block results",
        text="compare: 2-3 single-sample VCFs, all naming patterns, --ignore-sample-name, all four output files + stdout; polyphase: 2-3 samples with solver-chosen het sets; phase: trio / quartet / trio+single / two trios x 1-2 chromosomes x --use-ped-samples x --distrust-genotypes, VCF and all three lists; genotype: same families, --no-priors, --prioroutput; haplotag: two samples sharing barcodes / read names, --sample subsets; polyphase also with the REAL phase_single_individual under --use-prephasing (one sample pre-phased, the others not); stats (plain and tabix-indexed input, --chromosome), unphase, split: one pass each. polyphase --threads: only the data flow of the worker branch is claimed (polyphase_threads); worker scheduling and htslib compression threads are NOT claimed: no interleaving of OS processes/threads is visible to a symbolic executor of the source.",
        note="Trusted: nondet set shim (over-approximates hash orders; reports need a real reproduction under two PYTHONHASHSEED values), the stubs listed in the evidence (the solver contract stubs assume independence from the order of add_individual calls). Three hash-seed defects were found and repaired in /repo (compare multiway sample column, PedReader.samples(), haplotag sample loop). haplotagphase is not encoded for hash-seed independence (it builds no set); learn is covered for repetition only (its compiled Caller is a model that appends to the output path in the mode src/caller.cpp uses).",
        design_ref="DESIGN.md §4 C16, §9",
    ),
    "C19": dict(
        engine="LLSym + DeCy/PySym",
        technique="(a) LLSym symbolic run of the real Genotype class (src/genotype.cpp, binomial.cpp from LLVM IR) with value-set allele inputs, z3 decides canonical index, index<->alleles round trip, restore, equality/order vs index; (b) DeCy + PySym of align.edit_distance against a symbolic full-matrix Levenshtein, banded contract for every band; replay on native twin / rebuilt extension",
        text="(a) ploidy/alleles (1,4) (2,3) (2,5) (3,3) (4,2), pairs (1,4) (2,3) (3,2) [thorough to (6,2), (3,4)]; (b) all string pairs of length <= 5 (6) and all bands.",
        note="Trusted: as C01 / C18. Outside: ploidy*alleles beyond the listed shapes (limits 14/16 are not reached), longer strings, affine-gap and k-mer alignment.",
        design_ref="DESIGN.md §4 C19, §9",
    ),
})

CHECKS.update({
    "C03": dict(
        engine="PySym",
        technique="bounded symbolic execution (PySym/z3) of compute_overall_components, find_components and ComponentFinder on every read x variant incidence matrix with symbolic strictly increasing positions; oracle = reflexive-transitive closure of 'share a read', representative = minimum position, master-block merge; composition to the PS/HP values written by the real PhasedVcfWriter (pysam model, replay on real pysam)",
        text="Every incidence matrix for 4 positions x 3 reads, 5 x 2, trios 3 x 3 and 4 x 2, homozygous subsets, het/hom super reads in distrust mode.",
        note="Trusted: core model read iteration (replayed on the rebuilt extension), pysam model. Read selection is claimed by C07.",
        design_ref="DESIGN.md §4 C03, §9",
    ),
    "C04": dict(
        engine="PySym",
        technique="bounded symbolic execution (PySym/z3) of PhasedVcfWriter (write, _remove_existing_phasing, _set_PS/_set_HP, header repair, VcfAugmenter streaming) against an executable pysam model with solver-chosen phasing results; record-by-record diff oracle; every path replayed with real pysam on materialised VCF files and the compiled core",
        text="<= 3 records, 2 samples, 2 chromosomes, both tags, only_snvs, mav, pre-existing PS/HP phasing, duplicate positions, multi-ALT and no-ALT records, missing contig lines. Sub-check run (checks/phase_run.py): whatshap.cli.phase.run_whatshap as a whole over one VCF - the real VcfReader reads it, the real PhasedVcfWriter streams it out (both on the pysam model; replay on real files), read input and exact solver are solver-chosen contract stubs; 2 samples x 2 chromosomes x 3 records of kinds snv/indel/multi-ALT, input unphased / PS- / HP-phased, --tag, --only-snvs, --sample, --distrust-genotypes, reads per (chromosome, sample) none/all. Oracle of run for C04: all records in order with their fixed fields, unselected samples/chromosomes untouched, other FORMAT values unchanged, alleles preserved unless distrusted, only heterozygous calls of usable variants phased.",
        note="Trusted: pysam model (every encoded fact probed against pysam 0.24.1 and validated per path by the replay). One known finding (HP = None written as NUL bytes). Outside: htslib BCF/bgzip serialisation, HS sets.",
        design_ref="DESIGN.md §4 C04, §9",
    ),
    "C09": dict(
        engine="PySym",
        technique="bounded symbolic execution (PySym/z3) of both encoders (_set_PS/_set_HP) and both decoders (_extract_GT_PS_phase/_extract_HP_phase, VcfReader, VariantTable.phases_of) through the pysam model incl. htslib's write/read normalisation; re-phasing hygiene for all four old x new tag pairs; phased_blocks_as_reads on symbolic tables; replay on real pysam files",
        text="Sub-check run: as C04 run, oracle: after re-phasing an already phased input every phase statement (phased GT, PS, HP) of a target sample on a processed chromosome sits at a variant the new run handed to the solver for that sample (also for samples without reads). Bounded as C04; positions up to 2^31-2, HP ids from a small concrete domain (they pass through str/int). The clause 'a phased VCF as only input reproduces every phase set' rests on the DP (C01/C02 lemma) and is covered only up to the pseudo-read construction.",
        note="Three genuine defects around the HP tag were found and repaired in /repo (see DESIGN 9.5); no open finding.",
        design_ref="DESIGN.md §4 C09, §9",
    ),
    "C10": dict(
        engine="PySym",
        technique="bounded symbolic execution (PySym/z3) of haplotag.py: prepare_haplotag_information, attempt_add_phase_information, ignore_read, linked-read pooling and run_haplotag's main loop under file stand-ins, with symbolic allele qualities; independent score oracle, tie rejection, haplotype-swap symmetry, conservation/order of records; replay on the real module with real pysam.AlignedSegment and the compiled core",
        text="<= 3 (4) variants in <= 2 phase sets, ploidy 2-3, <= 2 linked reads, <= 4 records + unplaced tail, 4 region configurations, --tag-supplementary; the AlignmentFile stand-in answers fetch() and the BAM index queries (get_index_statistics, mapped/unmapped counts) from the same records, incl. a second contig that holds only a placed unmapped record; adjacent --regions whose boundary is the first base of a record.",
        note="Trusted: haplotag_model stand-ins. Two genuine defects (duplicate output for alignments overlapping two --regions, stale tags on the unmapped tail) were found and repaired in /repo. Outside: BAM/CRAM file I/O, --output-threads.",
        design_ref="DESIGN.md §4 C10, §9",
    ),
    "C13": dict(
        engine="PySym",
        technique="bounded symbolic execution (PySym/z3) of run_unphase/unphase_header against the pysam model, applied twice (idempotence), and of unphase(phase(x)) vs unphase(x) using the real writer; every path replayed through the real CLI function on a materialised VCF",
        text="<= 3 records x <= 2 samples, ploidy 0 (no GT) to 4 per call, alleles <= 2, every missing pattern, phased bit, HP/PS/PQ present or not; plus genotypes at and beyond the limits of whatshap.core.Genotype (allele index 15-17, ploidy 14-16).",
        note="Trusted: pysam model. The three crashes found were repaired in /repo (23ba0a4).",
        design_ref="DESIGN.md §4 C13, §9",
    ),
    "C17": dict(
        engine="PySym",
        technique="bounded symbolic execution (PySym/z3) of the chain haplotag (tags) -> haplotagphase (compute_votes, best_candidate, consensus, run_haplotagphase bookkeeping); replay through the real run_haplotagphase with real VcfReader/PhasedVcfWriter/pysam on files written from the witness",
        text="<= 3 (4) variants in <= 2 phase sets, <= 2 (3) error-free reads, partially unphased second input; sub-check chain_multiallelic mixes 1-ALT and 2-ALT records (all six ordered het genotypes over alleles 0,1,2) through the allele_to_id / id_to_allele path; sub-check chain_options: SNV and insertion records with solver-chosen --only-indels, --gap-threshold {0,70,100}, --cut-poly {0,10}.",
        note="Trusted: PhasedInputReader stand-in. One genuine defect (already phased variants without votes were un-phased) was found and repaired in /repo.",
        design_ref="DESIGN.md §4 C17, §9",
    ),
})

NOT_APPLICABLE = {}


def main():
    props = [json.loads(l)["id"] for l in open(os.path.join(VERIF, "properties.jsonl"))]
    checks = []
    for pid in props:
        if pid not in CHECKS:
            continue
        c = CHECKS[pid]
        checks.append(
            dict(
                property_id=pid,
                quick_cmd="./check %s --tier quick" % pid,
                thorough_cmd="./check %s --tier thorough" % pid,
                evidence_file="evidence/%s.json" % pid,
                replay_cmd_template="./check %s --replay {path}" % pid,
                engine=c["engine"],
                level_claimed=dict(category="model_checking", text=c["text"], design_ref=c["design_ref"]),
                level_note=c["note"],
                technique=c["technique"],
            )
        )
    na = []
    for pid in props:
        if pid not in CHECKS:
            na.append(dict(property_id=pid, reason=NOT_APPLICABLE.get(pid, "check not built yet in this round (see DESIGN.md §8 build order); no claim is made")))
    man = dict(
        version=1,
        setup_cmd="./setup.sh && .venv/bin/python -m vf.build && .venv/bin/python -c 'from vf.llsym import pipeline; pipeline.ensure_ir2json(); pipeline.core_bitcode()'",
        hooks=dict(
            guard="WHATSHAP_VERIF",
            enable="no hook is compiled into whatshap: every harness drives public or module-level functions of the working tree directly (DESIGN.md §2)",
            baseline_off_cmd="cd /repo && /venv/bin/python -m pytest -ra -q -p no:cacheprovider --timeout=900 --continue-on-collection-errors",
            source_commits=[],
            add_only=True,
        ),
        engines=[
            dict(name="PySym", path="vf/pysym", serves_properties=[p for p in CHECKS], kind_free_text="concolic symbolic executor for the repo's Python on z3 (exhaustive path exploration by re-execution, per-path replay on the real build)"),
            dict(name="LLSym", path="vf/llsym", serves_properties=[p for p in CHECKS if "LLSym" in CHECKS[p]["engine"]], kind_free_text="C++ core -> LLVM IR (clang++-14 -O1) -> JSON (ir2json, LLVM C++ API) -> symbolic IR interpreter with state merging, LIA obligations in z3, native g++ twin for replay"),
            dict(name="DeCy", path="vf/decy", serves_properties=[p for p in CHECKS if "DeCy" in CHECKS[p]["engine"]], kind_free_text="Cython .pyx -> Python via Cython's own parser, executed under PySym"),
        ],
        checks=checks,
        not_applicable=na,
        notes="Exit codes: 0 held / only KNOWN-FINDING lines, 1 VIOLATION reproduced on the real build, 3 harness error (never a VIOLATION line). See DESIGN.md.",
    )
    json.dump(man, open(os.path.join(VERIF, "MANIFEST.json"), "w"), indent=1)
    try:
        import jsonschema

        jsonschema.validate(man, json.load(open("/root/.vp/MANIFEST.schema.json")))
        print("MANIFEST.json valid:", len(checks), "checks,", len(na), "not applicable")
    except ImportError:
        print("MANIFEST.json written (jsonschema not available to validate)")


if __name__ == "__main__":
    main()
