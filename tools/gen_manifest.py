#!/usr/bin/env python3
"""Regenerates MANIFEST.json from the table below (kept next to the checks so
that the manifest never drifts from what exists)."""
import json
import os

VERIF = os.path.dirname(os.path.dirname(os.path.abspath(__file__)))

CHECKS = {
    "C18": dict(
        engine="PySym + DeCy",
        technique="bounded symbolic execution (z3) of whatshap/graph.py and of the DeCy translation of priorityqueue.pyx: bounded histories plus one inductive step from an arbitrary valid state; every path replayed on the compiled extension rebuilt from the working tree",
        text="Within the stated bounds every path of the real code is explored with symbolic scores/values and each assertion is decided by z3; the inductive step (arbitrary valid heap / forest + one operation) extends the claim to histories of any length for structures up to the bounded size.",
        note="Trusted: z3, the PySym proxies, the DeCy emitter and C++ container shims (validated by the repo's own priority-queue tests on the translation and by replaying every explored path on the compiled module). Outside: heaps > 7 entries, tuple scores longer than 2, scores beyond the small symbolic ranges (only order matters), C int overflow.",
        design_ref="DESIGN.md §4 C18",
    ),
}

NOT_APPLICABLE = {}


def main():
    props = [json.loads(l)["id"] for l in open(os.path.join(VERIF, "properties.jsonl"))]
    checks = []
    for pid in props:
        if pid not in CHECKS:
            continue
        c = CHECKS[pid]
        checks.append(
            dict(
                property_id=pid,
                quick_cmd="./check %s --tier quick" % pid,
                thorough_cmd="./check %s --tier thorough" % pid,
                evidence_file="evidence/%s.json" % pid,
                replay_cmd_template="./check %s --replay {path}" % pid,
                engine=c["engine"],
                level_claimed=dict(category="model_checking", text=c["text"], design_ref=c["design_ref"]),
                level_note=c["note"],
                technique=c["technique"],
            )
        )
    na = []
    for pid in props:
        if pid not in CHECKS:
            na.append(dict(property_id=pid, reason=NOT_APPLICABLE.get(pid, "check not built yet in this round (see DESIGN.md §8 build order); no claim is made")))
    man = dict(
        version=1,
        setup_cmd="./setup.sh && .venv/bin/python -m vf.build",
        hooks=dict(
            guard="WHATSHAP_VERIF",
            enable="no hook is compiled into whatshap: every harness drives public or module-level functions of the working tree directly (DESIGN.md §2)",
            baseline_off_cmd="cd /repo && /venv/bin/python -m pytest -ra -q -p no:cacheprovider --timeout=900 --continue-on-collection-errors",
            source_commits=[],
            add_only=True,
        ),
        engines=[
            dict(name="PySym", path="vf/pysym", serves_properties=[p for p in CHECKS], kind_free_text="concolic symbolic executor for the repo's Python on z3 (exhaustive path exploration by re-execution, per-path replay on the real build)"),
            dict(name="DeCy", path="vf/decy", serves_properties=[p for p in CHECKS if "DeCy" in CHECKS[p]["engine"]], kind_free_text="Cython .pyx -> Python via Cython's own parser, executed under PySym"),
        ],
        checks=checks,
        not_applicable=na,
        notes="Exit codes: 0 held / only KNOWN-FINDING lines, 1 VIOLATION reproduced on the real build, 3 harness error (never a VIOLATION line). See DESIGN.md.",
    )
    json.dump(man, open(os.path.join(VERIF, "MANIFEST.json"), "w"), indent=1)
    try:
        import jsonschema

        jsonschema.validate(man, json.load(open("/root/.vp/MANIFEST.schema.json")))
        print("MANIFEST.json valid:", len(checks), "checks,", len(na), "not applicable")
    except ImportError:
        print("MANIFEST.json written (jsonschema not available to validate)")


if __name__ == "__main__":
    main()
