#!/usr/bin/env python3
"""Regenerates MANIFEST.json from the table below (kept next to the checks so
that the manifest never drifts from what exists)."""
import json
import os

VERIF = os.path.dirname(os.path.dirname(os.path.abspath(__file__)))

CHECKS = {
    "C18": dict(
        engine="PySym + DeCy",
        technique="bounded symbolic execution (z3) of whatshap/graph.py and of the DeCy translation of priorityqueue.pyx: bounded histories plus one inductive step from an arbitrary valid state; every path replayed on the compiled extension rebuilt from the working tree",
        text="Within the stated bounds every path of the real code is explored with symbolic scores/values and each assertion is decided by z3; the inductive step (arbitrary valid heap / forest + one operation) extends the claim to histories of any length for structures up to the bounded size.",
        note="Trusted: z3, the PySym proxies, the DeCy emitter and C++ container shims (validated by the repo's own priority-queue tests on the translation and by replaying every explored path on the compiled module). Outside: heaps > 7 entries, tuple scores longer than 2, scores beyond the small symbolic ranges (only order matters), C int overflow.",
        design_ref="DESIGN.md §4 C18",
    ),
}

CHECKS.update({
    "C01": dict(
        engine="LLSym",
        technique="bounded symbolic execution of the real C++ DP from LLVM IR (clang -O1) with state merging at post-dominators; final obligations (optimality vs every bipartition/transmission sequence, witness attains cost, unflagged alleles agree with every column optimum, no reachable assert/throw) decided by z3 in linear integer arithmetic against a definition-level oracle; counter-examples replayed on a native g++ build and judged by brute force",
        text="Per instance shape (read x column incidence, pedigree, genotype mode) ALL allele patterns, weights, recombination costs and likelihoods within the stated ranges are covered at once; the claim is 'holds for every input of every enumerated shape', nothing beyond the shapes.",
        note="Trusted: clang/LLVM 14 IR as the meaning of the source, the LLSym interpreter and its libstdc++ externals (validated on every run by evaluating the merged symbolic result on random inputs against the native twin), z3, the short oracle. Outside: coverage > 3, > 6 columns, > 4 reads, weights >= 64, quartets, core.pyx marshalling.",
        design_ref="DESIGN.md §2.3, §4 C01",
    ),
    "C02": dict(
        engine="LLSym",
        technique="same LLSym symbolic run of the real DP with entries constrained to error-free copies (allele = h[column] xor s[read]); z3 decides 'cost = 0 and each read-connected component carries the true haplotypes up to a swap, nothing flagged as tie'",
        text="Solver lemma of C02 at the solver interface, for all true haplotypes / read origins / weights >= 1 of every enumerated shape. The surrounding pipeline stages are claimed by their own properties (C06, C07, C03, C04, C09); the byte-level BAM/VCF path is outside.",
        note="As C01. Whole-pipeline composition with real BAM/VCF files is not encodable (htslib) and not claimed.",
        design_ref="DESIGN.md §4 C02 (a)",
    ),
    "C05": dict(
        engine="LLSym",
        technique="LLSym symbolic run of the real DP on trio shapes in trusted-genotype mode; z3 decides: child alleles come from the respective parent's genotype, the transmission value selects the parental haplotype under one fixed labelling, read-less columns with a homozygous parent are phased",
        text="Bounded: 2-3 column trios with up to 2-3 reads, all alleles/weights/recombination costs symbolic.",
        note="As C01. The labelling convention of the transmission bits is not spelled out by the statement; the weaker reading (one fixed convention for all inputs) is asserted. Conflict/missing-genotype filtering (Python) is claimed by sub-check ped_filter when present.",
        design_ref="DESIGN.md §4 C05",
    ),
    "C20": dict(
        engine="PySym",
        technique="bounded symbolic execution (PySym/z3) of whatshap.cli.phase.run_whatshap with the environment stubbed (VCF reader/writer, read input, exact solver as contract stub, in-memory files); every path replayed on the real module with real files",
        text="All three list files are checked against what each (chromosome, family) step produced, for 1-2 chromosomes x {single, trio, trio + unrelated sample} x distrust on/off with solver-chosen read patterns, transmission vectors and genotype changes.",
        note="Trusted: the stubs listed in the evidence (they stand for C01/C04); PySym proxies. Outside: real BAM/VCF I/O, more than 2 chromosomes / 2 families (the defect class is per-step file handling).",
        design_ref="DESIGN.md §4 C20",
    ),
})

NOT_APPLICABLE = {}


def main():
    props = [json.loads(l)["id"] for l in open(os.path.join(VERIF, "properties.jsonl"))]
    checks = []
    for pid in props:
        if pid not in CHECKS:
            continue
        c = CHECKS[pid]
        checks.append(
            dict(
                property_id=pid,
                quick_cmd="./check %s --tier quick" % pid,
                thorough_cmd="./check %s --tier thorough" % pid,
                evidence_file="evidence/%s.json" % pid,
                replay_cmd_template="./check %s --replay {path}" % pid,
                engine=c["engine"],
                level_claimed=dict(category="model_checking", text=c["text"], design_ref=c["design_ref"]),
                level_note=c["note"],
                technique=c["technique"],
            )
        )
    na = []
    for pid in props:
        if pid not in CHECKS:
            na.append(dict(property_id=pid, reason=NOT_APPLICABLE.get(pid, "check not built yet in this round (see DESIGN.md §8 build order); no claim is made")))
    man = dict(
        version=1,
        setup_cmd="./setup.sh && .venv/bin/python -m vf.build && .venv/bin/python -c 'from vf.llsym import pipeline; pipeline.ensure_ir2json(); pipeline.core_bitcode()'",
        hooks=dict(
            guard="WHATSHAP_VERIF",
            enable="no hook is compiled into whatshap: every harness drives public or module-level functions of the working tree directly (DESIGN.md §2)",
            baseline_off_cmd="cd /repo && /venv/bin/python -m pytest -ra -q -p no:cacheprovider --timeout=900 --continue-on-collection-errors",
            source_commits=[],
            add_only=True,
        ),
        engines=[
            dict(name="PySym", path="vf/pysym", serves_properties=[p for p in CHECKS], kind_free_text="concolic symbolic executor for the repo's Python on z3 (exhaustive path exploration by re-execution, per-path replay on the real build)"),
            dict(name="LLSym", path="vf/llsym", serves_properties=[p for p in CHECKS if "LLSym" in CHECKS[p]["engine"]], kind_free_text="C++ core -> LLVM IR (clang++-14 -O1) -> JSON (ir2json, LLVM C++ API) -> symbolic IR interpreter with state merging, LIA obligations in z3, native g++ twin for replay"),
            dict(name="DeCy", path="vf/decy", serves_properties=[p for p in CHECKS if "DeCy" in CHECKS[p]["engine"]], kind_free_text="Cython .pyx -> Python via Cython's own parser, executed under PySym"),
        ],
        checks=checks,
        not_applicable=na,
        notes="Exit codes: 0 held / only KNOWN-FINDING lines, 1 VIOLATION reproduced on the real build, 3 harness error (never a VIOLATION line). See DESIGN.md.",
    )
    json.dump(man, open(os.path.join(VERIF, "MANIFEST.json"), "w"), indent=1)
    try:
        import jsonschema

        jsonschema.validate(man, json.load(open("/root/.vp/MANIFEST.schema.json")))
        print("MANIFEST.json valid:", len(checks), "checks,", len(na), "not applicable")
    except ImportError:
        print("MANIFEST.json written (jsonschema not available to validate)")


if __name__ == "__main__":
    main()
