#!/bin/bash
# tools/thorough_sweep.sh [ids...]: runs the thorough tier of the given properties (default: all but C01) one after the other,
# without writing evidence, and prints one summary line per property (exit code, wall seconds, last result line).
# Meant for `vp run -- tools/thorough_sweep.sh`: confirms that every thorough command finishes end-to-end on the unchanged tree.
ids=${@:-C18 C19 C03 C04 C09 C13 C12 C11 C08 C10 C14 C15 C17 C20 C07 C06 C16 C05 C02}
for p in $ids; do
  t0=$(date +%s)
  out=$(VERIF_JOBS=${VERIF_JOBS:-8} timeout ${SWEEP_TIMEOUT:-5400} ./check $p --tier thorough --no-evidence 2>&1); rc=$?
  t1=$(date +%s)
  echo "SWEEP $p exit=$rc wall=$((t1-t0))s :: $(echo "$out" | grep -E "^(VIOLATION|HARNESS|KNOWN)" | head -5 | tr '\n' '|') $(echo "$out" | tail -1 | cut -c1-200)"
done
