#!/usr/bin/env python3
"""tools/mk_seed_prompt.py <property> <suffix> [taken idea ...]: writes /tmp/seedprompt-<property><suffix>.txt, the complete brief for a
seeding sub-agent: the property's record from properties.jsonl, the worktree, the deliverables. Nothing about the checks in /verif."""
import json, sys
pid, suffix, taken = sys.argv[1], sys.argv[2], sys.argv[3:]
prop = next(json.loads(l) for l in open('/verif/properties.jsonl') if json.loads(l)['id'] == pid)
prop = {k: prop[k] for k in ('id', 'title', 'statement', 'quantifier', 'why_tests_cant', 'anchors') if k in prop}
wt = f'/tmp/seed-{pid}{suffix}'
txt = f"""You are helping to evaluate a verification effort for WhatsHap (read-based haplotype phasing; Python + Cython + C++).
You work ONLY inside the scratch git worktree {wt} (a checkout of the repository with the compiled extensions already in place).
Do not read or touch /repo, /verif or anything else outside {wt} (reading /venv's installed libraries is fine).

A semantic property the software is supposed to satisfy (this is all you get):

{json.dumps(prop, indent=1)}

YOUR TASK: make a change to whatshap's *source* (not to tests) that BREAKS this property, while the code still builds and the existing
test suite still passes. It must be a realistic slip: the kind of thing a maintainer could introduce in a refactoring, optimisation,
"simplification" or feature tweak and a reviewer could wave through. It must NOT be exposed by ordinary use at once: it has to need
something specific to manifest - an unusual input, a particular multi-step sequence, a particular combination of options, a boundary
value, or two cooperating sites that each look fine alone. Keep the diff small (a few lines to a few dozen).
{('Ideas that were already used by others for this property - pick something DIFFERENT in nature and location: ' + '; '.join(taken)) if taken else ''}

How to work:
* Python is /venv/bin/python. Always run with the worktree first on the path: `cd {wt} && PYTHONPATH={wt} /venv/bin/python ...`.
* Test suite: `cd {wt} && PYTHONPATH={wt} /venv/bin/python -m pytest -q -p no:cacheprovider --timeout=900 tests` (about 40 s; the three
  `test_vcf_with_missing_headers[*]` failures are pre-existing and expected; everything else must pass with your change).
* If you change a .pyx/.pxd file or anything under src/, rebuild in place: `cd {wt} && /venv/bin/python setup.py build_ext --inplace`
  (1-3 minutes). Pure-Python changes need no rebuild.
* No network. Do not install anything.

Deliverables, all in {wt}/seed/ :
1. patch.diff  - `git -C {wt} diff -- whatshap src setup.py > seed/patch.diff` of your source change only (no tests, no demo, no build output).
2. demo.py (or demo.sh) - a small self-contained program that checks the property on a specific input through the real code
   (public functions or the `whatshap` CLI via `/venv/bin/python -m whatshap ...`), prints what is violated and exits non-zero WITH your
   change, and exits 0 WITHOUT it. It is run as `cd <worktree> && PYTHONPATH=<worktree> /venv/bin/python demo.py`; do not hard-code
   {wt} in it (derive paths from `os.environ.get('PYTHONPATH')`/`whatshap.__file__`, create input files in a tempfile directory).
3. meta.json - {{"property": "{pid}", "summary": what you changed and why it looks innocent, "needs": what exactly is needed for the
   violation to manifest, "tests": last line of the pytest run with the change, "demo_with_patch": exit code + message,
   "demo_without_patch": exit code}}.
Verify all of it yourself: tests with the patch, demo with the patch (fails), `git stash`/revert, demo without (passes). If you rebuilt
extensions, rebuild again after reverting before the "without" run, and leave the worktree with your patch applied and built.
Spend at most about 40 minutes. In your final message give a 5-line summary (what changed, what it needs, test result, demo results).
"""
open(f'/tmp/seedprompt-{pid}{suffix}.txt', 'w').write(txt)
print(f'/tmp/seedprompt-{pid}{suffix}.txt')
