#!/bin/bash
# tools/take_seed.sh <property> <n>: collect a seeder's result from /tmp/seed-<property>b/seed into seeded/<property>-<n>,
# remove the seeder's worktree, confirm the seed independently (tools/confirm_seed.sh) and run the property's quick check against it.
p=$1; n=$2; shift 2
cd /verif
d=/tmp/seed-${p}${SEED_SUFFIX:-b}
if [ -d $d/seed ]; then mkdir -p seeded/$p-$n; cp $d/seed/patch.diff $d/seed/meta.json seeded/$p-$n/; cp $d/seed/demo.* seeded/$p-$n/; git -C /repo worktree remove --force $d; fi
bash tools/confirm_seed.sh $p-$n 2>&1 | tail -1 | cut -c1-400
bash tools/try_seed.sh $p-$n $p "$@" 2>&1 | cut -c1-500
