#!/bin/bash
# Idempotent offline set-up: overlay venv on /venv with z3 + crosshair from the wheelhouse.
set -e
cd "$(dirname "$0")"
if [ ! -x .venv/bin/python ] || ! .venv/bin/python -c "import z3, jsonschema" 2>/dev/null; then
  rm -rf .venv
  /venv/bin/python -m venv .venv
  echo "import site; site.addsitedir('/venv/lib/python3.12/site-packages')" > .venv/lib/python3.12/site-packages/zz.pth
  PIP_NO_INDEX=1 .venv/bin/pip install -q --no-index --find-links /opt/veriftools/wheels z3-solver crosshair-tool jsonschema >/dev/null
fi
mkdir -p .cache evidence replays
