"""C01 - the exact solver returns a minimum-cost (Ped)MEC solution with a matching witness.

Engine: LLSym (vf/llsym): the real PedigreeDPTable and everything below it is
compiled from the working tree to LLVM IR and executed symbolically for one
instance *shape* at a time (alleles, weights, recombination costs and phred
likelihoods symbolic); the results are compared in z3 (LIA) with the
definition of the objective."""
import itertools
import os
import json
import time

import z3

from vf.runner import SubCheck, JobResult

PROPERTY = "C01"

HET = (0, 1)


def _chk(d):
    """the solver's precondition (ColumnIterator throws otherwise): reads sorted by their first column"""
    firsts = [r["cols"][0] for r in d["reads"]]
    assert firsts == sorted(firsts), "harness shape with unsorted reads: %r" % (d["reads"],)
    return d


def single(ncols, reads, **kw):
    d = dict(individuals=[0], trios=[], ncols=ncols, reads=[dict(sample=0, cols=list(c)) for c in reads], genotypes=[[HET] * ncols])
    d.update(kw)
    return _chk(d)


def trio(ncols, reads, genotypes, **kw):
    """reads: [(sample, cols)], individuals 0=father 1=mother 2=child"""
    d = dict(individuals=[0, 1, 2], trios=[(0, 1, 2)], ncols=ncols, reads=[dict(sample=s, cols=list(c)) for s, c in reads], genotypes=genotypes)
    d.update(kw)
    return _chk(d)


def interval_shapes(ncols, nreads, maxcov, gaps=False):
    """all multisets of `nreads` read intervals [a,b] (b>a) over ncols columns whose coverage stays <= maxcov,
    sorted by start (the DP's precondition), up to duplicates"""
    ivs = [(a, b) for a in range(ncols) for b in range(a + 1, ncols)]
    out = []
    for combo in itertools.combinations_with_replacement(ivs, nreads):
        cov = [0] * ncols
        for a, b in combo:
            for c in range(a, b + 1):
                cov[c] += 1
        if max(cov) > maxcov:
            continue
        if any(cov[c] == 0 for c in range(ncols)):
            continue
        out.append([tuple(range(a, b + 1)) for a, b in sorted(combo)])
    return out


class DPCheck(SubCheck):
    """shared machinery: one symbolic run per shape + obligations"""

    sources = ["src/pedigreedptable.cpp", "src/pedigreecolumncostcomputer.cpp", "src/pedigreepartitions.cpp", "src/columnindexingscheme.cpp", "src/columnindexingiterator.cpp", "src/graycodes.cpp", "src/columniterator.cpp", "src/readset.cpp", "src/read.cpp", "src/entry.cpp", "src/pedigree.cpp", "src/genotype.cpp", "src/binomial.cpp", "src/phredgenotypelikelihoods.cpp", "src/indexset.cpp"]
    encoded = ["PedigreeDPTable::{PedigreeDPTable,compute_table,compute_column,get_optimal_score,get_optimal_partitioning,get_super_reads}", "PedigreeColumnCostComputer::{ctor,set_partitioning,update_partitioning,get_cost,get_alleles}", "PedigreePartitions", "ColumnIndexingScheme", "ColumnIndexingIterator", "GrayCodes", "ColumnIterator", "ReadSet", "Read", "Entry", "Pedigree", "Genotype", "PhredGenotypeLikelihoods (all from LLVM IR, clang++-14 -O1)"]
    stubs = ["libstdc++ externals modelled in vf/llsym/interp.py (operator new, memcpy/memmove/memset, std::string _M_create/_M_construct/_M_replace/_M_append, list hook/unhook, _Prime_rehash_policy::_M_need_rehash and _Hash_bytes called in the real libstdc++ via ctypes, __cxa_throw/__assert_fail end the path with a recorded obligation)"]
    assumptions = ["reads sorted by first position, variants sorted within reads (documented precondition of PedigreeDPTable)", "weights, recombination costs and phred likelihoods within the stated ranges (sums far below 2^32: no unsigned wrap)", "read names distinct"]
    solver_timeout_ms = 600000

    def setup(self):
        from vf.llsym import pipeline

        pipeline.ensure_ir2json()
        pipeline.core_bitcode()

    def budget(self, tier):
        return 900 if tier == "quick" else 3000

    def obligations(self, run, orc, tier):
        """yield (name, z3 expression that must be UNSAT, kind)"""
        raise NotImplementedError

    def judge_concrete(self, shape, inp, native):
        """independent brute-force judgement of a native run: returns None if fine or a message"""
        raise NotImplementedError

    def run(self, shape, tier, seed):
        from vf.llsym import dpcheck, pipeline, dp_harness
        from vf.llsym.values import Unsupported

        t0 = time.time()
        errors, viol, samples = [], [], []
        stats = dict(paths=0, decisions=0, solver_queries=0, solver_s=0.0)
        nob = ndis = ninc = 0
        replays = 0
        cover = {}
        try:
            budget = int(os.environ.get("VERIF_LLSYM_BUDGET") or shape.get("budget") or self.budget(tier))
            run = dpcheck.symbolic_run(shape, time_budget=budget)
        except Unsupported as u:
            return JobResult(sub=self.name, shape=shape, stats=stats, violations=[], samples=[], cover={}, errors=([] if "time budget exceeded" in str(u) else ["LLSym unsupported: %s" % u]), replays=0, obligations=1, discharged=0, inconclusive=1, wall_s=time.time() - t0)
        it = run.it
        stats["decisions"] = it.stats["merges"] + it.stats["splits"]
        stats["solver_queries"] = it.stats["fit_queries"]
        stats["solver_s"] = it.stats["fit_s"]
        orc = dpcheck.Oracle(shape)
        conflict = orc.conflict_columns()
        cons = list(it.constraints)
        # (5)/(4) aborts
        exe = pipeline.native_twin(run.src)
        expected_throw = bool(conflict) and not shape.get("distrust")
        if expected_throw:
            cover["mendelian conflict shape"] = 1
            # every input must throw: run status must be an abort with that message and no output reachable
            nob += 1
            if run.status != "ok" and "Mendelian conflict" in str(run.status):
                ndis += 1
            else:
                st, exc, outs = pipeline.run_native(exe, {})
                replays += 1
                if st == "ok":
                    viol.append(dict(sub=self.name, shape=shape, witness={}, msg="no admissible allele assignment in column %s but no Mendelian-conflict exception" % conflict, info=None, reproduced=True, concrete=[st, exc]))
                else:
                    errors.append("expected Mendelian conflict: symbolic run status %r but native %r" % (run.status, st))
        else:
            if run.status != "ok":
                # the whole run aborted for all inputs
                inp = {nm: lo for nm, lo, hi in dp_harness.input_specs(shape)}
                st, exc, outs = pipeline.run_native(exe, inp)
                replays += 1
                nob += 1
                if st != "ok":
                    viol.append(dict(sub=self.name, shape=shape, witness=inp, msg="solver aborts on a valid instance: %s" % (exc or st), info=dict(symbolic=str(run.status)), reproduced=True, concrete=[st, exc]))
                else:
                    errors.append("symbolic run aborted (%r) but native run is fine" % (run.status,))
            for g, kind, msg in it.aborts:
                nob += 1
                ge = it.lits.guard_expr(frozenset(g))
                r, model, dt = dpcheck.solve(ge, cons, self.solver_timeout_ms)
                stats["solver_queries"] += 1
                stats["solver_s"] += dt
                if r == "unsat":
                    ndis += 1
                elif r == "unknown":
                    ninc += 1
                else:
                    inp = dpcheck.model_inputs(run, model)
                    st, exc, outs = pipeline.run_native(exe, inp)
                    replays += 1
                    if st != "ok":
                        viol.append(dict(sub=self.name, shape=shape, witness=inp, msg="reachable %s in the solver: %s" % (kind, msg), info=None, reproduced=True, concrete=[st, exc]))
                    else:
                        errors.append("abort %s/%s reachable symbolically with %r but native run is fine" % (kind, msg, inp))
        if run.status == "ok" and not expected_throw:
            cover["symbolic run completed"] = 1
            if it.stats["merges"] > 0:
                cover["state merging exercised"] = 1
            # validation of the merged result against the native twin
            bad = dpcheck.validate_against_native(run, n=3 if tier == "quick" else 6, seed=seed)
            replays += 3 if tier == "quick" else 6
            for b in bad[:2]:
                errors.append("symbolic result disagrees with native twin: %s" % json.dumps(b, default=str)[:800])
            if not bad:
                notab = [z3.Not(it.lits.guard_expr(frozenset(g))) for g, k, m in it.aborts]
                part = shape.get("part") or [0, 1]
                for oi, (name, expr, tag) in enumerate(self.obligations(run, orc, tier)):
                    cover[tag] = cover.get(tag, 0)
                    if oi % part[1] != part[0]:
                        continue
                    nob += 1
                    cover[tag] = cover.get(tag, 0) + 1
                    r, model, dt = dpcheck.solve(expr, cons + notab, self.solver_timeout_ms)
                    stats["solver_queries"] += 1
                    stats["solver_s"] += dt
                    if r == "unsat":
                        ndis += 1
                        if len(samples) < 2:
                            samples.append(dict(sub=self.name, shape=shape, obligation=name, result="unsat", solver_s=round(dt, 3)))
                    elif r == "unknown":
                        ninc += 1
                    else:
                        inp = dpcheck.model_inputs(run, model)
                        st, exc, outs = pipeline.run_native(exe, inp)
                        replays += 1
                        why = self.judge_concrete(shape, inp, (st, exc, outs))
                        if why:
                            viol.append(dict(sub=self.name, shape=shape, witness=inp, msg=why, info=dict(obligation=name, native={"%s[%d]" % k: v for k, v in outs.items()}), reproduced=True, concrete=[st, exc]))
                        else:
                            errors.append("obligation %s has a model %r that the brute-force oracle does not confirm on the native twin" % (name, inp))
                        break
        stats["paths"] = nob
        return JobResult(sub=self.name, shape=shape, stats=stats, violations=viol, samples=samples, cover=cover, errors=errors, replays=replays, obligations=nob, discharged=ndis, inconclusive=ninc, wall_s=time.time() - t0,
                         llsym=dict(it.stats, interp_s=round(run.interp_s, 2)))

    def replay(self, shape, witness):
        from vf.llsym import pipeline, dp_harness

        exe = pipeline.native_twin(dp_harness.generate(shape))
        st, exc, outs = pipeline.run_native(exe, witness)
        why = self.judge_concrete(shape, witness, (st, exc, outs))
        return ("violation" if why else "ok"), why, [("%s[%d]" % k, v) for k, v in sorted(outs.items())]


def decode_outputs(shape, outs):
    R, C, K = len(shape["reads"]), shape["ncols"], len(shape["individuals"])
    B = tuple(1 - outs[("part", r)] for r in range(R))  # part==1 <=> haplotype 0
    T = tuple(outs[("tv", c)] for c in range(C))
    sr = {(k, h, c): outs[("sr_%d_%d" % (k, h), c)] for k in range(K) for h in range(2) for c in range(C)}
    return B, T, sr


class Optimality(DPCheck):
    name = "dp_opt"
    required_cover = ["symbolic run completed", "state merging exercised", "optimality", "witness", "alleles"]

    def shapes(self, tier):
        out = []
        W = 15
        if tier == "quick":
            # coverage <= 2, <= 4 reads, <= 4 columns
            for C in (2, 3, 4):
                for R in (2, 3, 4):
                    for sh in interval_shapes(C, R, 2):
                        out.append(single(C, sh, W=W, Rc=0))
            # chains with C = 5, 6 (k = floor(sqrt(C)) > 1: columns dropped and recomputed in the backtrace)
            out.append(single(5, [(0, 1), (1, 2), (2, 3), (3, 4)], W=W, Rc=0))
            out.append(single(6, [(0, 1), (1, 2), (2, 3), (3, 4), (4, 5)], W=W, Rc=0))
            # coverage 3
            out.append(single(3, [(0, 1), (0, 1, 2), (1, 2)], W=W, Rc=0))
            out.append(single(2, [(0, 1), (0, 1), (0, 1)], W=W, Rc=0))
            # gapped read (BLANK entry)
            out.append(single(3, [(0, 2), (0, 1), (1, 2)], W=W, Rc=0))
            out.append(single(4, [(0, 1, 3), (1, 2), (2, 3)], W=W, Rc=0))
            # homozygous / mixed genotypes
            out.append(single(3, [(0, 1, 2), (0, 1), (1, 2)], W=W, Rc=0, genotypes=[[(0, 1), (1, 1), (0, 1)]]))
            out.append(single(2, [(0, 1), (0, 1)], W=W, Rc=0, genotypes=[[(0, 0), (0, 1)]]))
            # distrust mode
            out.append(single(2, [(0, 1), (0, 1)], W=W, Rc=0, distrust=True, G=15))
            out.append(single(3, [(0, 1), (1, 2)], W=W, Rc=0, distrust=True, G=15))
        else:
            for C in (2, 3, 4):
                for R in (2, 3, 4):
                    for sh in interval_shapes(C, R, 3):
                        out.append(single(C, sh, W=63, Rc=0))
            for C in (5, 6):
                for R in (C - 1, C):
                    for sh in interval_shapes(C, R, 2):
                        out.append(single(C, sh, W=63, Rc=0))
            out.append(single(3, [(0, 2), (0, 1), (1, 2)], W=63, Rc=0))
            out.append(single(4, [(0, 1, 3), (1, 2), (2, 3)], W=63, Rc=0))
            out.append(single(4, [(0, 3), (0, 1, 2), (1, 2, 3)], W=63, Rc=0))
            for gts in itertools.product([(0, 0), (0, 1), (1, 1)], repeat=2):
                out.append(single(2, [(0, 1), (0, 1)], W=63, Rc=0, genotypes=[list(gts)]))
            for C in (2, 3):
                for R in (2, 3):
                    for sh in interval_shapes(C, R, 2):
                        out.append(single(C, sh, W=63, Rc=0, distrust=True, G=63))
        return out

    def bounds(self, tier):
        sh = self.shapes(tier)
        return "%d single-individual instance shapes (reads x columns incidence fixed per shape: every interval-read multiset with coverage <= %d, <= 4 reads, <= 4 columns; chains to 6 columns; gapped reads; hom/het genotype mixes; distrust mode); per shape ALL allele patterns and ALL weights in [0,%d] (likelihoods [0,%d]) at once" % (len(sh), 2 if tier == "quick" else 3, sh[0].get("W"), 15 if tier == "quick" else 63)

    def obligations(self, run, orc, tier):
        from vf.llsym import dpcheck

        it = run.it
        shape = run.shape
        outs = {k: v[1] for k, v in it.outputs.items()}
        cost = dpcheck.to_z3(it, outs[("cost", 0)])
        R, C, K = len(shape["reads"]), shape["ncols"], len(shape["individuals"])
        # (1) no bipartition / transmission sequence is cheaper
        Ts = list(orc.all_T())
        for B in orc.all_B():
            objs = [orc.objective(B, T) for T in Ts]
            objs = [o for o in objs if o is not None]
            if objs:
                yield ("opt B=%s" % "".join(map(str, B)), z3.Or(*[o < cost for o in objs]), "optimality")
        # (2)+(3) the returned partition / transmission vector attains the cost; unflagged alleles agree with every column optimum
        part = [dpcheck.to_z3(it, outs[("part", r)]) for r in range(R)]
        tv = [dpcheck.to_z3(it, outs[("tv", c)]) for c in range(C)]
        pv = [dpcheck.values_of(outs[("part", r)]) for r in range(R)]
        tvv = [dpcheck.values_of(outs[("tv", c)]) for c in range(C)]
        if any(v is None for v in pv + tvv):
            raise RuntimeError("partition / transmission outputs are not value sets")
        bad = []
        for r in range(R):
            if any(v not in (0, 1) for v in pv[r]):
                bad.append(part[r] > 1)
        for c in range(C):
            if any(v >= 4 ** orc.nt for v in tvv[c]):
                bad.append(tv[c] >= 4 ** orc.nt)
        if bad:
            yield ("outputs in range", z3.Or(*bad), "witness")
        wit = []
        allele_bad = []
        for Bp in itertools.product(*pv):
            B = tuple(1 - b for b in Bp)
            for T in itertools.product(*tvv):
                sel = z3.And(*([part[r] == Bp[r] for r in range(R)] + [tv[c] == T[c] for c in range(C)]))
                o = orc.objective(B, T)
                if o is None:
                    wit.append(sel)
                    continue
                wit.append(z3.And(sel, o != cost))
                for c in range(C):
                    cc = orc.col_costs(c, T[c], B)
                    m = orc.col_min(c, T[c], B)
                    for k in range(K):
                        for h in range(2):
                            s = dpcheck.to_z3(it, outs[("sr_%d_%d" % (k, h), c)])
                            for a, al, e in cc:
                                # an optimal assignment giving this haplotype the other allele while the super read claims 0/1
                                allele_bad.append(z3.And(sel, e == m, s != 3, s != al[k][h]))
                            allele_bad.append(z3.And(sel, s != 0, s != 1, s != 3))
        yield ("witness attains cost", z3.Or(*wit), "witness")
        # split the allele obligation per column to keep queries small
        yield ("unflagged alleles agree with all column optima", z3.Or(*allele_bad), "alleles")

    def judge_concrete(self, shape, inp, native):
        from vf.llsym import dp_harness

        st, exc, outs = native
        best, objective = dp_harness.brute_force(shape, inp)
        if st != "ok":
            if best is None and exc and "Mendelian" in exc:
                return None
            return "solver failed on a valid instance: %s" % (exc or st)
        if best is None:
            return "no admissible solution exists but the solver returned one"
        cost = outs[("cost", 0)]
        if cost != best:
            return "reported cost %d differs from the true minimum %d" % (cost, best)
        B, T, sr = decode_outputs(shape, outs)
        got = objective(B, T)
        if got != cost:
            return "returned partition/transmission vector has objective %s, reported cost is %d" % (got, cost)
        # alleles
        from vf.llsym.dpcheck import admissible

        idx = {ind: i for i, ind in enumerate(shape["individuals"])}
        for c in range(shape["ncols"]):
            hp, adm = admissible(shape, c, T[c])
            costs = []
            for assign, al in adm:
                cst = 0
                if shape.get("distrust"):
                    for i in range(len(shape["individuals"])):
                        cst += inp["gl_%d_%d_%d" % (i, c, al[i][0] + al[i][1])]
                for r, rd in enumerate(shape["reads"]):
                    if c in rd["cols"]:
                        fixed = (rd.get("alleles") or {}).get(str(c))
                        a = fixed if fixed is not None else inp["a_%d_%d" % (r, c)]
                        if ((assign >> hp[idx[rd["sample"]]][B[r]]) & 1) != a:
                            fw = (rd.get("weights") or {}).get(str(c))
                            cst += fw if fw is not None else inp["w_%d_%d" % (r, c)]
                costs.append((cst, al))
            mn = min(x for x, _ in costs)
            for k in range(len(shape["individuals"])):
                for h in range(2):
                    s = sr[(k, h, c)]
                    if s in (0, 1):
                        for cst, al in costs:
                            if cst == mn and al[k][h] != s:
                                return "super-read allele %d of individual %d haplotype %d at column %d is not flagged as a tie although an equally optimal assignment gives %d" % (s, k, h, c, al[k][h])
                    elif s != 3:
                        return "super-read allele code %d" % s
        return None


class Pedigree(Optimality):
    """same obligations on pedigree instances: trio (one transmission value per column, 4 values),
    symbolic recombination costs; Mendelian-conflict shapes must throw for every input"""

    name = "dp_ped"
    required_cover = ["symbolic run completed", "state merging exercised", "optimality", "witness", "alleles", "mendelian conflict shape"]

    def shapes(self, tier):
        H = (0, 1)
        out = []
        allhet = [[H, H], [H, H], [H, H]]
        if tier == "quick":
            for k in range(3):  # obligations of the two heavy shapes are spread over three jobs each
                out.append(trio(2, [(2, (0, 1)), (2, (0, 1))], allhet, W=15, Rc=15, part=[k, 3]))
                out.append(trio(2, [(0, (0, 1)), (2, (0, 1))], [[H, H], [(0, 0), H], [H, H]], W=15, Rc=15, part=[k, 3]))
            out.append(trio(2, [(2, (0, 1))], [[(0, 0), H], [H, (1, 1)], [H, H]], W=15, Rc=15))
            # (4-column trios - k = floor(sqrt(4)) = 2: columns dropped in the forward pass and recomputed in the backtrace,
            #  with a different symbolic recombination cost per column - are in the thorough tier: their optimality
            #  queries take between 20 s and 10 min depending on z3's search order)

            # Mendelian conflict in column 1: father 0/0, mother 0/0, child 0/1
            out.append(trio(2, [(2, (0, 1))], [[H, (0, 0)], [H, (0, 0)], [H, H]], W=15, Rc=15))
        else:
            for reads in ([(2, (0, 1)), (2, (0, 1))], [(0, (0, 1)), (2, (0, 1))], [(0, (0, 1)), (1, (0, 1)), (2, (0, 1))], [(2, (0, 1, 2)), (2, (1, 2))], [(1, (0, 1)), (2, (1, 2))]):
                C = 1 + max(max(c) for s, c in reads)
                out.append(trio(C, reads, [[H] * C, [H] * C, [H] * C], W=31, Rc=31))
            for gf, gm, gc in itertools.product([(0, 0), H, (1, 1)], repeat=3):
                out.append(trio(2, [(2, (0, 1))], [[H, gf], [H, gm], [H, gc]], W=31, Rc=31))
            out.append(trio(2, [(2, (0, 1)), (2, (0, 1))], allhet, W=31, Rc=31, distrust=True, G=31))
            out.append(trio(4, [(2, (0, 1, 2, 3))], [[H] * 4, [H] * 4, [H] * 4], W=31, Rc=31))
            out.append(trio(4, [(2, (0, 1)), (2, (2, 3))], [[H] * 4, [H] * 4, [H] * 4], W=31, Rc=31))
            # father and child read over 4 columns: the smallest shape in which a transmission change competes with a
            # read error while columns are recomputed in the backtrace (seeded change C01-1 needs exactly this).
            # Interpretation takes 1-2 hours (wrap-analysis queries on large terms), hence its own budget.
            out.append(trio(4, [(0, (0, 1, 2, 3)), (2, (0, 1, 2, 3))], [[H] * 4, [H] * 4, [H] * 4], W=15, Rc=15, budget=10800))
        return out

    def bounds(self, tier):
        return "%d trio shapes (father, mother, child; <= 3 reads, <= 3 columns; het and hom/het genotype mixes incl. Mendelian-conflict columns; distrust mode in thorough), symbolic alleles, weights and recombination costs" % len(self.shapes(tier))


SUBCHECKS = {c.name: c for c in [Optimality(), Pedigree()]}
