"""C16 - results depend on the input only (hash seed, repetition).

Technique (PySym): the interpreter's hash seed becomes a symbolic variable - inside the repo modules loaded through
SymWorld(shadows=nondet.shadows(), transformer=nondet.transformer) every iteration over a set / frozenset that holds
hash-randomised elements (str, VcfVariants, and - opt-in - identity-hashed objects) yields a solver-chosen order
(e.perm).  The command-level function is run once with the canonical order and once with the solver's order; everything
it writes must be identical.  A reported difference is confirmed on the REAL CLI: the same input is materialised as
files and the command is run under several PYTHONHASHSEED values, two of which must disagree on the same output.

Sub-checks
  seed_compare    run_compare (2-3 VCFs; pairwise / multiway TSV, BED, longest-block TSV, stdout)
  seed_polyphase  run_polyphase's sample loop
  seed_phase      run_whatshap with --ped [--use-ped-samples] [--distrust-genotypes]: PedReader.samples() = list(set()),
                  setup_families, family loop; real PhasedVcfWriter on the pysam model; read / recombination /
                  changed-genotype lists
  seed_genotype   run_genotype: samples = frozenset(samples), prior loop, families; --prioroutput
  seed_haplotag   run_haplotag with 2-3 samples: compute_variant_file_samples_to_use / compute_shared_samples (sets),
                  per-sample loop, barcode clouds (sets of Read objects)
  seed_stats, seed_unphase, seed_split   the commands that hardly use sets, one pass each under NSet shadows
  repeat          "repetition": what the output paths hold before a run (left over from an earlier run of the same command,
                  solver-chosen per path) must not influence what they hold afterwards: stats (--tsv/--block-list/--gtf),
                  phase (--output-read-list/--recombination-list/--changed-genotype-list), learn (-o; the compiled
                  Caller appends to the file, run_learn has to empty it first)

In the new sub-checks one permutation is chosen per distinct set content and run (`_memo_hook`).  Dict iteration is
insertion-ordered in Python and is not a source of nondeterminism by itself (it only forwards the order of what was
inserted); it is therefore left alone.

Not applicable (stated in DESIGN.md): --threads of polyphase and --output-threads (no interleaving of OS threads /
processes / htslib worker threads is visible to a symbolic executor of the Python/C++ source).
"""
import io
import json
import os
import shutil
import subprocess
import sys
import tempfile
import types
import contextlib

from vf.runner import SubCheck, REPO
from vf.pysym.loader import SymWorld
from vf.pysym import nondet

PROPERTY = "C16"

VCF_HEADER = """##fileformat=VCFv4.2
##contig=<ID=chr1,length=10000>
##contig=<ID=chr2,length=10000>
##FORMAT=<ID=GT,Number=1,Type=String,Description="Genotype">
##FORMAT=<ID=PS,Number=1,Type=Integer,Description="Phase set">
#CHROM\tPOS\tID\tREF\tALT\tQUAL\tFILTER\tINFO\tFORMAT\t%s
"""


def vcf_text(sample, phases):
    """phases: list of (chrom, pos, gt-string)"""
    out = VCF_HEADER % sample
    for chrom, pos, gt in phases:
        out += "%s\t%d\t.\tA\tC\t.\tPASS\t.\tGT:PS\t%s:%d\n" % (chrom, pos, gt, 100)
    return out


class MemFS:
    """In-memory text files behind the builtin open() of a command module.  Modes as in Python: "w" truncates at open
    (even if nothing is written afterwards), "a" continues after what the path already holds, "x" refuses an existing path,
    "r" reads.  PRE: what the paths hold before the command starts (sub-check `repeat`: left over from an earlier run)."""

    PRE = {}

    def __init__(self):
        self.files = dict(MemFS.PRE)

    def open(self, path, mode="r", *a, **k):
        fs, key = self, str(path)
        existing = fs.files.get(key)
        if "b" in mode:
            raise IOError("MemFS: binary mode is not modelled")
        if "r" in mode:
            if existing is None:
                raise FileNotFoundError(key)
            return io.StringIO(existing)
        if "x" in mode and existing is not None:
            raise FileExistsError(key)

        class F(io.StringIO):
            def flush(s):
                fs.files[key] = s.getvalue()

            def close(s):
                if not s.closed:
                    fs.files[key] = s.getvalue()
                io.StringIO.close(s)

            def __exit__(s, *x):
                s.close()

        f = F()
        if "a" in mode and existing is not None:
            f.write(existing)
        fs.files[key] = f.getvalue()
        return f


class SeedCompare(SubCheck):
    name = "seed_compare"
    encoded = ["whatshap.cli.compare.run_compare", "get_sample_names", "get_common_chromosomes", "get_variant_tables", "compare", "compare_pair", "compare_multiway", "whatshap.vcf.VariantTable"]
    sources = ["whatshap/cli/compare.py", "whatshap/vcf.py"]
    stubs = ["VcfReader replaced by a stub yielding VariantTables built by the harness (symbolic run); the replay runs the real `python -m whatshap compare` on VCF files under several PYTHONHASHSEED values", "built-in set/frozenset replaced by vf/pysym/nondet.py inside the repo modules: iteration order of sets holding strings (or VcfVariants, which hash through their allele strings) is chosen by the solver", "whatshap.core.Genotype model; polyploid SwitchFlipCalculator not reached (ploidy 2)"]
    assumptions = ["the solver-chosen orders over-approximate what hash randomisation can produce; a difference is reported only when two real PYTHONHASHSEED values reproduce it"]
    replay_every = 8  # a replay is 4 runs of the real CLI (one per hash seed); violations are always replayed
    required_cover = ["three files", "ignore sample name with different names", "sets of hash-randomised elements are built inside the command"]

    def shapes(self, tier):
        out = []
        for nfiles in (2, 3):
            for ignore in (False, True):
                for names in (["alpha", "alpha", "alpha"], ["alpha", "beta", "gamma"], ["alpha", "beta", "alpha"]):
                    if not ignore and len(set(names[:nfiles])) > 1:
                        continue
                    out.append(dict(nfiles=nfiles, ignore=ignore, names=names[:nfiles], nchrom=1, nvar=2 if tier == "quick" else 3))
        if tier != "quick":
            out.append(dict(nfiles=2, ignore=False, names=["alpha", "alpha"], nchrom=2, nvar=2))
        return out

    def bounds(self, tier):
        return "2-3 single-sample VCFs, sample names equal / all different / two equal, --ignore-sample-name on/off, %d chromosome(s), 2 (thorough: 3) phased het variants each with solver-chosen phase bits; every iteration over a set of <= 3 strings / variants in a solver-chosen order; outputs compared: --tsv-pairwise, --tsv-multiway, --switch-error-bed, --longest-block-tsv, stdout" % (1 if tier == "quick" else 2)

    def setup(self):
        from vf.models import core_model

        self.core_model = core_model

    def sym_impl(self):
        return "sym"

    def real_impl(self):
        return "real"

    def scenario(self, e, shape):
        chroms = ["chr1", "chr2"][: shape["nchrom"]]
        files = []
        for i in range(shape["nfiles"]):
            rows = []
            for c in chroms:
                for k, pos in enumerate((100, 200, 300)[: shape.get("nvar", 3)]):
                    bit = e.bit("ph_%d_%s_%d" % (i, c, k)) if (i > 0 and k > 0) else 0
                    rows.append((c, pos, "0|1" if bit == 0 else "1|0"))
            files.append(rows)
        return chroms, files

    def harness(self, e, shape, impl):
        chroms, files = self.scenario(e, shape)
        if shape["nfiles"] == 3:
            e.cover("three files")
        if shape["ignore"] and len(set(shape["names"])) > 1:
            e.cover("ignore sample name with different names")
        if impl == "real":
            return self.run_real(e, shape, files)
        core = self.core_model
        if not hasattr(self, "_world"):
            solver_modname = "whatshap.polyphase.solver"
            w = SymWorld(overrides={"whatshap.core": core, solver_modname: types.SimpleNamespace(SwitchFlipCalculator=None), "whatshap.cli": self._climod()}, shadows=nondet.shadows(), transformer=nondet.transformer)
            self._world = (w.load("whatshap.cli.compare"), w.load("whatshap.vcf"))
        cmp_mod, vcf = self._world
        iterated = [0]

        def run(order_hook):
            fs = MemFS()
            cmp_mod.__dict__["__builtins__"]["open"] = fs.open
            tables = []
            for i, rows in enumerate(files):
                per = {}
                for c in chroms:
                    vt = vcf.VariantTable(c, [shape["names"][i]])
                    for (cc, pos, gt) in rows:
                        if cc != c:
                            continue
                        ph = vcf.VariantCallPhase(block_id=100, phase=tuple(int(x) for x in gt.split("|")), quality=None)
                        vt.add_variant(vcf.BiallelicVcfVariant(pos - 1, "A", "C"), [core.Genotype([0, 1])], [ph], [None], [None])
                    per[c] = vt
                tables.append(per)

            class Reader:
                def __init__(s, path, **k):
                    s.path = path
                    s.idx = int(path[1])
                    s.samples = [shape["names"][s.idx]]

                def __iter__(s):
                    return iter([tables[s.idx][c] for c in chroms])

            cmp_mod.VcfReader = Reader
            nondet.ORDER_HOOK = order_hook
            buf = io.StringIO()
            exc = None
            try:
                with contextlib.redirect_stdout(buf):
                    cmp_mod.run_compare(["f%d.vcf" % i for i in range(len(files))], 2, ignore_sample_name=shape["ignore"], tsv_pairwise="pair.tsv", tsv_multiway="multi.tsv" if len(files) > 2 else None, switch_error_bed="sw.bed", longest_block_tsv="lb.tsv")
            except Exception as ex:  # an input the command rejects/crashes on: the *same* outcome is required for every order
                exc = type(ex).__name__
            finally:
                nondet.ORDER_HOOK = None
            fs.files["<stdout>"] = buf.getvalue()
            fs.files["<exception>"] = exc
            return fs.files

        nondet.EXTRA_SENSITIVE[:] = [lambda x: hasattr(x, "reference_allele")]  # VcfVariant hashes through its allele strings
        nondet.BUILT[0] = 0
        base = run(None)
        if nondet.BUILT[0]:
            e.cover("sets of hash-randomised elements are built inside the command")
        counter = [0]

        def hook(items):
            counter[0] += 1
            iterated[0] += 1
            p = e.perm("ord%d" % counter[0], len(items))
            return [items[i] for i in p]

        other = run(hook)
        if iterated[0]:
            e.cover("a set was iterated in a solver-chosen order")
        for k in sorted(base):
            e.check(base[k] == other.get(k), "output %s depends on the iteration order of a set (hash seed)" % k, lambda k=k: dict(file=k, canonical=base[k][-400:], other=(other.get(k) or "")[-400:]))

    @staticmethod
    def _climod():
        m = types.ModuleType("whatshap.cli")
        m.__path__ = []
        m.CommandLineError = type("CommandLineError", (Exception,), {})
        return m

    def run_real(self, e, shape, files):
        tmp = tempfile.mkdtemp(prefix="c16-", dir="/var/tmp")
        try:
            paths = []
            for i, rows in enumerate(files):
                p = os.path.join(tmp, "f%d.vcf" % i)
                open(p, "w").write(vcf_text(shape["names"][i], rows))
                paths.append(p)
            results = []
            for seed in ("0", "1", "2", "3"):
                out = os.path.join(tmp, "out%s" % seed)
                os.makedirs(out)
                cmd = [sys.executable, "-m", "whatshap", "compare", "--tsv-pairwise", os.path.join(out, "pair.tsv"), "--switch-error-bed", os.path.join(out, "sw.bed"), "--longest-block-tsv", os.path.join(out, "lb.tsv")]
                if len(files) > 2:
                    cmd += ["--tsv-multiway", os.path.join(out, "multi.tsv")]
                if shape["ignore"]:
                    cmd += ["--ignore-sample-name"]
                cmd += paths
                env = dict(os.environ, PYTHONHASHSEED=seed, PYTHONPATH=REPO + os.pathsep + os.environ.get("PYTHONPATH", ""))
                r = subprocess.run(cmd, stdout=subprocess.PIPE, stderr=subprocess.PIPE, text=True, env=env, cwd=tmp)
                res = {"<stdout>": r.stdout.replace(out, "OUT"), "<rc>": r.returncode}
                for f in sorted(os.listdir(out)):
                    res[f] = open(os.path.join(out, f)).read()
                results.append(res)
            for r in results[1:]:
                for k in results[0]:
                    e.check(results[0][k] == r.get(k), "output %s depends on the iteration order of a set (hash seed)" % k, None)
        finally:
            shutil.rmtree(tmp, ignore_errors=True)

    def classify(self, shape, v):
        m = v["msg"]
        if "multi.tsv" in m and shape["ignore"] and len(set(shape["names"])) > 1:
            return "seed_compare:multiway-sample-column-joined-from-a-set:ignore_sample_name"
        return "seed_compare:%s:names=%s" % (m, ",".join(shape["names"]))


SUBCHECKS = {c.name: c for c in [SeedCompare()]}


class SeedPolyphase(SubCheck):
    """run_polyphase's per-chromosome / per-sample orchestration under stubs, with the iteration order of
    frozenset(samples) (and of every other set of strings) chosen by the solver."""

    name = "seed_polyphase"
    encoded = ["whatshap.cli.polyphase.run_polyphase (sample loop, variant-table filtering, result collection)", "whatshap.vcf.VariantTable.remove_rows_by_index / subset_rows_by_position / genotypes_of"]
    sources = ["whatshap/cli/polyphase.py", "whatshap/vcf.py"]
    stubs = ["PhasedInputReader.read returns one read over all offered variants", "phase_single_individual replaced by a deterministic function of (sample, variants offered) - the clustering/threading heuristics are not applicable (DESIGN C15)", "VcfReader yields a harness-built table, PhasedVcfWriter records what it is given", "set/frozenset -> vf/pysym/nondet.py", "replay: the real `whatshap polyphase` on tests/data/polyploid.multisample.chr22.42M.5k.vcf + two BAMs under 4 PYTHONHASHSEED values"]
    assumptions = ["as seed_compare"]
    required_cover = ["two samples with different heterozygous sets", "sample set iterated in a solver-chosen order", "real phase_single_individual with --use-prephasing: one sample pre-phased, the others not"]
    replay_every = 1000

    def shapes(self, tier):
        # psi: the REAL phase_single_individual runs (pre-phasing handling, cut positions -> components, super reads); the stand-ins
        # move one level down (solve_polyphase_instance as a function of its arguments AND of the parameter object it is handed)
        psi = [dict(nsamples=2, nvar=3, psi=True), dict(nsamples=3, nvar=3, psi=True)]
        return ([dict(nsamples=2, nvar=3), dict(nsamples=3, nvar=3)] if tier == "quick" else [dict(nsamples=2, nvar=3), dict(nsamples=3, nvar=3), dict(nsamples=3, nvar=4)]) + psi

    def bounds(self, tier):
        return "2-3 samples, 3 (thorough: 4) variants with solver-chosen het/hom genotype per sample and variant, one chromosome; every iteration over a set of sample names in a solver-chosen order"

    def setup(self):
        from vf.models import core_model

        self.core_model = core_model

    def sym_impl(self):
        return "sym"

    def real_impl(self):
        return "real"

    def harness(self, e, shape, impl):
        names = ["sA", "sB", "sC"][: shape["nsamples"]]
        nvar = shape["nvar"]
        het = {s: [e.bit("het_%s_%d" % (s, v)) for v in range(nvar)] for s in names}
        if len({tuple(h) for h in het.values()}) > 1:
            e.cover("two samples with different heterozygous sets")
        if impl == "real":
            return self.run_real_psi(e) if shape.get("psi") else self.run_real(e)
        core = self.core_model
        if not hasattr(self, "_world"):
            self._world = self._load_world(core)
        mod, vcf = self._world
        nondet.EXTRA_SENSITIVE[:] = [lambda x: hasattr(x, "reference_allele")]  # explicit: the list is module state shared with the other sub-checks of a worker
        return self._run_sym(e, shape, names, nvar, het, core, mod, vcf)

    def _load_world(self, core):
        climod = types.ModuleType("whatshap.cli")
        climod.__path__ = []
        climod.CommandLineError = type("CommandLineError", (Exception,), {})
        climod.log_memory_usage = lambda *a, **k: None
        climod.PhasedInputReader = None
        pp = types.ModuleType("whatshap.polyphase")
        pp.__path__ = []
        pp.PolyphaseParameter = lambda **k: types.SimpleNamespace(**k)
        pp.create_genotype_list = pp.extract_partial_phasing = None
        stubmod = lambda **k: types.SimpleNamespace(**k)
        w = SymWorld(
            overrides={"whatshap.core": core, "whatshap.cli": climod, "whatshap.polyphase": pp, "whatshap.polyphase.algorithm": stubmod(solve_polyphase_instance=None, compute_cut_positions=None), "whatshap.polyphase.plots": stubmod(draw_plots=None), "whatshap.polyphase.solver": stubmod(AlleleMatrix=None)},
            shadows=nondet.shadows(),
            transformer=nondet.transformer,
        )
        mod = w.load("whatshap.cli.polyphase")
        import logging

        mod.logger.setLevel(logging.ERROR)
        self._orig_psi = mod.phase_single_individual
        return mod, w.load("whatshap.vcf")

    def _run_sym(self, e, shape, names, nvar, het, core, mod, vcf):
        def run(hook):
            written = []
            vt = vcf.VariantTable("chr1", names)
            psi = bool(shape.get("psi"))
            for v in range(nvar):
                # psi: the first sample comes pre-phased (one block over its heterozygous variants), the others do not
                phases = [vcf.VariantCallPhase(block_id=100, phase=(0, 1), quality=None) if (psi and s == names[0] and het[s][v]) else None for s in names]
                vt.add_variant(vcf.BiallelicVcfVariant(100 * (v + 1), "A", "C"), [core.Genotype([0, 1] if het[s][v] else [0, 0]) for s in names], phases, [None] * len(names), [None] * len(names))

            class Reader:
                def __init__(s, *a, **k):
                    s.samples = list(names)

                def __enter__(s):
                    return s

                def __exit__(s, *a):
                    return None

                def __iter__(s):
                    return iter([vt])

            class Writer:
                def __init__(s, *a, **k):
                    pass

                def __enter__(s):
                    return s

                def __exit__(s, *a):
                    return None

                def write(s, chromosome, superreads, components, haploid=None):
                    plain = lambda rs: rs if isinstance(rs, tuple) else [[(v.position, v.allele) for v in r] for r in rs]
                    written.append((chromosome, sorted((k, plain(v)) for k, v in superreads.items()), sorted((k, sorted(v.items())) for k, v in components.items())))

            class Input:
                has_vcfs = False

                def __init__(s, paths, ref, nsi, *a, **k):
                    s.nsi = nsi

                def __enter__(s):
                    return s

                def __exit__(s, *a):
                    return None

                def read(s, chromosome, variants, sample):
                    rs = core.ReadSet()
                    r = core.Read("r_" + sample, 50, 0, s.nsi[sample])
                    for vv in variants:
                        r.add_variant(vv.position, 0, 10)
                    rs.add(r)
                    return rs, set()

            def phase_single(readset, table, sample, param, output, timers):
                pos = [v.position for v in table.variants]
                return {p: pos[0] for p in pos}, {}, tuple(pos)

            mod.VcfReader, mod.PhasedVcfWriter, mod.PhasedInputReader = Reader, Writer, Input
            kw = {}
            if psi:
                e.cover("real phase_single_individual with --use-prephasing: one sample pre-phased, the others not")
                mod.phase_single_individual = self._orig_psi
                mod.create_genotype_list = lambda table, sample: [dict((a, g.as_vector().count(a)) for a in g.as_vector()) for g in table.genotypes_of(sample)]
                # contract of extract_partial_phasing: None iff the sample has no phased block of >= 2 variants
                mod.extract_partial_phasing = lambda table, sample, ploidy: ("prephasing of", sample) if sum(1 for ph in table.phases_of(sample) if ph is not None) >= 2 else None
                mod.AlleleMatrix = lambda readset: ("allele matrix", tuple(sorted(readset.get_positions())))

                def solve(am, genotype_list, param, timers, prephasing=None, quiet=False):
                    n = len(am[1])
                    k = (1 if prephasing is not None else 0) + (2 if param.use_prephasing else 0) + param.block_cut_sensitivity
                    return types.SimpleNamespace(breakpoints=[], haplotypes=[[(i + j + k) % 2 for j in range(n)] for i in range(param.ploidy)], clustering=[], threads=[])

                mod.solve_polyphase_instance = solve
                mod.compute_cut_positions = lambda breakpoints, ploidy, sens: ([0], [[0] for _ in range(ploidy)])
                kw = dict(use_prephasing=True, block_cut_sensitivity=0)
            else:
                mod.phase_single_individual = phase_single
            nondet.ORDER_HOOK = hook
            try:
                mod.run_polyphase(["x.bam"], "in.vcf", 2, output=io.StringIO(), write_command_line_header=False, **kw)
            finally:
                nondet.ORDER_HOOK = None
            return written

        base = run(None)
        cnt = [0]

        def hook(items):
            cnt[0] += 1
            return [items[i] for i in e.perm("ord%d" % cnt[0], len(items))]

        other = run(hook)
        if cnt[0]:
            e.cover("sample set iterated in a solver-chosen order")
        e.check(base == other, "what polyphase writes depends on the iteration order of the sample set (hash seed)", lambda: dict(canonical=str(base)[:500], other=str(other)[:500]))

    def run_real_psi(self, e):
        """the real CLI with --use-prephasing -B 0 on the repository's pre-phased tetraploid instance plus a second sample column
        that carries the same genotypes without phasing, under 6 hash seeds (cached per process)"""
        if not hasattr(self, "_psi_real"):
            data = os.path.join(REPO, "tests", "data")
            src, bam = os.path.join(data, "polyploid.cuts.vcf"), os.path.join(data, "polyploid.cuts.bam")
            outs = []
            if os.path.exists(src) and os.path.exists(bam):
                tmp = tempfile.mkdtemp(prefix="c16psi-", dir="/var/tmp")
                try:
                    vcf_in = os.path.join(tmp, "two-samples.vcf")
                    with open(src) as f, open(vcf_in, "w") as o:
                        for line in f:
                            line = line.rstrip("\n")
                            if line.startswith("##"):
                                o.write(line + "\n")
                            elif line.startswith("#CHROM"):
                                o.write(line + "\tUnphased\n")
                            else:
                                fl = line.split("\t")
                                gt = fl[9].split(":")[0].replace("|", "/")
                                o.write("\t".join(fl + [":".join([gt] + ["."] * (len(fl[8].split(":")) - 1))]) + "\n")
                    sample = [l.split("\t")[9].strip() for l in open(vcf_in) if l.startswith("#CHROM")][0]
                    for seed in ("0", "1", "2", "3", "4", "5"):
                        out = os.path.join(tmp, "o%s.vcf" % seed)
                        env = dict(os.environ, PYTHONHASHSEED=seed, PYTHONPATH=REPO + os.pathsep + os.environ.get("PYTHONPATH", ""))
                        r = subprocess.run([sys.executable, "-m", "whatshap", "polyphase", "--ploidy", "4", "--ignore-read-groups", "--sample", sample, "--sample", "Unphased", "--use-prephasing", "-B", "0", "-o", out, vcf_in, bam],
                                           stdout=subprocess.PIPE, stderr=subprocess.PIPE, text=True, env=env, cwd=tmp)
                        outs.append("".join(l for l in open(out) if not l.startswith("##commandline")) if os.path.exists(out) else "rc=%d %s" % (r.returncode, r.stderr[-200:]))
                finally:
                    shutil.rmtree(tmp, ignore_errors=True)
            self._psi_real = outs
        for o in self._psi_real[1:]:
            e.check(o == self._psi_real[0], "what polyphase writes depends on the iteration order of the sample set (hash seed)", None)

    def run_real(self, e):
        data = os.path.join(REPO, "tests", "data")
        vcf_in = os.path.join(data, "polyploid.multisample.chr22.42M.5k.vcf")
        bams = [os.path.join(data, "polyploid.human1.chr22.42M.5k.bam"), os.path.join(data, "polyploid.human2.chr22.42M.5k.bam")]
        if not (os.path.exists(vcf_in) and all(os.path.exists(b) for b in bams)):
            return
        tmp = tempfile.mkdtemp(prefix="c16p-", dir="/var/tmp")
        try:
            outs = []
            for seed in ("0", "1", "2", "3"):
                out = os.path.join(tmp, "o%s.vcf" % seed)
                env = dict(os.environ, PYTHONHASHSEED=seed, PYTHONPATH=REPO + os.pathsep + os.environ.get("PYTHONPATH", ""))
                r = subprocess.run([sys.executable, "-m", "whatshap", "polyphase", "--ploidy", "2", "-o", out, vcf_in] + bams, stdout=subprocess.PIPE, stderr=subprocess.PIPE, text=True, env=env, cwd=tmp)
                txt = "".join(l for l in open(out) if not l.startswith("##commandline")) if os.path.exists(out) else "rc=%d" % r.returncode
                outs.append(txt)
            for o in outs[1:]:
                e.check(o == outs[0], "what polyphase writes depends on the iteration order of the sample set (hash seed)", None)
        finally:
            shutil.rmtree(tmp, ignore_errors=True)

    def classify(self, shape, v):
        return "seed_polyphase:%s" % v["msg"]


SUBCHECKS["seed_polyphase"] = SeedPolyphase()


# =====================================================================================================================
# seed_phase / seed_genotype: whatshap phase / genotype with --ped (--use-ped-samples)
# =====================================================================================================================
PH_POS = [100, 110, 120]  # 0-based variant positions (reads of length 50 starting at 90 cover all of them)
PH_CHROMS = ["chrA", "chrB"]
REAL_SEEDS = ("0", "1", "2", "3", "4", "5")

# role -> genotype (allele pair) at the three variants; Mendelian-consistent for every trio below
ROLE_GT = {
    "father": [(0, 1), (0, 1), (0, 1)],
    "mother": [(0, 1), (0, 0), (0, 1)],
    "child": [(0, 0), (0, 1), (0, 1)],
    "child2": [(0, 1), (0, 0), (1, 1)],
    "single": [(0, 1), (0, 1), (0, 0)],
}
# family layouts: VCF column order (deliberately not sorted), PED lines (child, father, mother), role of every sample
LAYOUTS = {
    "trio": dict(samples=["mum", "kid", "dad"], ped=[("kid", "dad", "mum")], roles=dict(dad="father", mum="mother", kid="child")),
    # two children of the same parents.  Data chosen so that the REAL solver has to place a recombination in both children
    # (three father reads 1,1,1 against children that carry 1,1,0 of him; --recombrate 1000 makes two recombinations cheaper
    # than re-phasing the father), i.e. the recombination list has one row per child at the same position
    "quartet": dict(samples=["mum", "sis", "kid", "dad"], ped=[("kid", "dad", "mum"), ("sis", "dad", "mum")], roles=dict(dad="father", mum="mother", kid="child", sis="child2"), recombrate=1000,
                    gt=dict(dad=[(0, 1)] * 3, mum=[(0, 0)] * 3, kid=[(0, 1), (0, 1), (0, 0)], sis=[(0, 1), (0, 1), (0, 0)]),
                    reads=dict(dad=[[1, 1, 1]] * 3, mum=[[0, 0, 0]], kid=[[1, 1, 0]], sis=[[1, 1, 0]])),
    "two-trios": dict(samples=["mum", "pa", "kid", "ch", "dad", "ma"], ped=[("kid", "dad", "mum"), ("ch", "pa", "ma")], roles=dict(dad="father", mum="mother", kid="child", pa="father", ma="mother", ch="child")),
    "trio+single": dict(samples=["solo", "mum", "kid", "dad"], ped=[("kid", "dad", "mum"), ("solo", "0", "0")], roles=dict(dad="father", mum="mother", kid="child", solo="single")),
}


def _nh(name):
    return sum(map(ord, name))


class PedScenario:
    """Concrete input of one path: VCF content, PED text, reads - used to drive the stubs of the symbolic run and to
    materialise the files of the real run."""

    def __init__(self, e, shape):
        lay = LAYOUTS[shape["fam"]]
        self.shape = shape
        self.samples = list(lay["samples"])
        self.roles = lay["roles"]
        self.chroms = PH_CHROMS[: shape["nchrom"]]
        self.distrust = bool(shape.get("distrust"))
        self.ped_text = "".join("F%d %s %s %s 0 1\n" % (i, c, f, m) for i, (c, f, m) in enumerate(lay["ped"]))
        self.trios = [t for t in lay["ped"] if t[1] != "0"]
        self.recombrate = lay.get("recombrate", 1.26)
        # solver-chosen structure: the first child's genotype at the first variant (homozygous -> genetic-haplotyping master block)
        self.kid_het0 = e.bit("kid_het_at_first_variant") if "gt" not in lay else 0
        # with --distrust-genotypes: do the likelihoods of father / mother contradict their called genotype at the first variant?
        parents = [s for s in self.samples if self.roles[s] in ("father", "mother")]
        first = [s for s in parents if s in lay["ped"][0]]  # solver-chosen for the parents of the first trio only (keeps the two-trio shapes small)
        self.pl_flip = {s: (e.bit("pl_contradicts_gt_%s" % s) if (self.distrust and s in first) else 0) for s in parents}
        self.gt, self.pl = {}, {}
        for c in self.chroms:
            for v in range(3):
                for s in self.samples:
                    g = lay["gt"][s][v] if "gt" in lay else ROLE_GT[self.roles[s]][v]
                    if v == 0 and self.roles[s] == "child" and self.kid_het0:
                        g = (0, 1)
                    self.gt[c, v, s] = g
                    if self.distrust:
                        best = sum(g)
                        if v == 0 and self.pl_flip.get(s):
                            best = 0
                        self.pl[c, v, s] = tuple(0 if i == best else 50 for i in range(3))
        # reads: (name, [(variant index, allele)]) per (chromosome, sample); on the second chromosome and under distrust no read
        # covers the first variant (it stays reachable through genetic haplotyping only)
        self.reads = {}
        for ci, c in enumerate(self.chroms):
            for s in self.samples:
                if "reads" in lay:
                    full = [[(v, a) for v, a in enumerate(al)] for al in lay["reads"][s]]
                else:
                    full = [[(v, (_nh(s) + k + v) % 2) for v in sp] for k, sp in enumerate([(0, 1), (1, 2)])]
                if self.distrust or ci == 1:
                    full = [[(v, a) for v, a in r if v != 0] for r in full]
                self.reads[c, s] = [("%s_%s_r%d" % (c, s, k), r) for k, r in enumerate(full) if len(r) >= 2]

    def key(self):
        return repr((self.shape["fam"], self.shape["nchrom"], self.distrust, self.kid_het0, sorted(self.pl_flip.items())))

    def doc(self, with_pl=True):
        """with_pl=False: the copy handed to the writer in the symbolic run (pysam_model does not serialise Integer vectors;
        the likelihoods reach the command through the VcfReader stand-in)"""
        with_pl = with_pl and self.distrust
        header = [("FORMAT", "GT", "1", "String")] + ([("FORMAT", "PL", "G", "Integer")] if with_pl else []) + [("contig", c) for c in self.chroms]
        records = []
        for c in self.chroms:
            for v, pos in enumerate(PH_POS):
                calls = []
                for s in self.samples:
                    call = {"GT": self.gt[c, v, s], "phased": False}
                    if with_pl:
                        call["PL"] = self.pl[c, v, s]
                    calls.append(call)
                records.append(dict(chrom=c, pos=pos + 1, id=None, ref="A", alts=("C",), qual=None, filter=[], info={}, format=["GT"] + (["PL"] if with_pl else []), calls=calls))
        return dict(samples=list(self.samples), header=header, records=records)

    def tables(self, vcf, core, with_genotypes=True):
        out = []
        n = len(self.samples)
        for c in self.chroms:
            vt = vcf.VariantTable(c, list(self.samples))
            for v, pos in enumerate(PH_POS):
                gts = [core.Genotype(list(self.gt[c, v, s])) if with_genotypes else core.Genotype([]) for s in self.samples]
                gls = [vcf.GenotypeLikelihoods([x / -10 for x in self.pl[c, v, s]]) if (self.distrust and with_genotypes) else None for s in self.samples]
                vt.add_variant(vcf.BiallelicVcfVariant(pos, "A", "C"), gts, [None] * n, gls, [None] * n)
            out.append(vt)
        return out

    def write_real_files(self, tmp):
        import pysam
        from vf.models import materialise

        pysam.set_verbosity(0)
        vcf_path = materialise.write_vcf(self.doc(), os.path.join(tmp, "in.vcf"))
        open(os.path.join(tmp, "ped.txt"), "w").write(self.ped_text)
        hdr = pysam.AlignmentHeader.from_dict({"HD": {"VN": "1.6", "SO": "coordinate"}, "SQ": [{"SN": c, "LN": 10000} for c in self.chroms], "RG": [{"ID": "g_" + s, "SM": s} for s in self.samples]})
        bam = os.path.join(tmp, "reads.bam")
        with pysam.AlignmentFile(bam, "wb", header=hdr) as f:
            for ci, c in enumerate(self.chroms):
                for s in self.samples:
                    for name, vs in self.reads[c, s]:
                        seq = ["A"] * 50
                        for v, allele in vs:
                            seq[PH_POS[v] - 90] = "AC"[allele]
                        a = pysam.AlignedSegment(hdr)
                        a.query_name, a.flag, a.reference_id, a.reference_start, a.mapping_quality = name, 0, ci, 90, 60
                        a.query_sequence = "".join(seq)
                        a.query_qualities = pysam.qualitystring_to_array("I" * 50)
                        a.cigartuples = [(0, 50)]
                        a.set_tag("RG", "g_" + s)
                        f.write(a)
        pysam.index(bam)
        return vcf_path, os.path.join(tmp, "ped.txt"), bam


def _memo_hook(e):
    """ORDER_HOOK for the new sub-checks: one solver-chosen permutation per distinct set *content* and run (a process has one
    hash seed: equal sets built the same way iterate in the same order); sets with different contents get independent
    permutations (over-approximation of what a hash seed can do)."""
    memo, cnt = {}, [0]

    def hook(items):
        key = tuple(repr(x) for x in items)
        if key not in memo:
            cnt[0] += 1
            memo[key] = e.perm("ord%d" % cnt[0], len(items))
        return [items[i] for i in memo[key]]

    return hook, cnt


class _Ctx:
    def __enter__(self):
        return self

    def __exit__(self, *a):
        return None


def _ped_stub_classes(core, cur):
    """Contract stubs for the compiled pedigree solver.  `cur` is a dict holding the scenario of the running path.
    The results are a FUNCTION of the instance (reads, positions, per-sample genotypes / likelihoods, trios), reported per
    individual *name*: the order of add_individual calls does not influence what an individual receives (see `assumptions`)."""

    class PedStub:
        def __init__(s, nsi):
            s.nsi = nsi
            s.individuals = []
            s.trios = []

        def add_individual(s, sample, gts, gls=None):
            s.individuals.append((sample, list(gts), None if gls is None else list(gls)))

        def add_relationship(s, father_id, mother_id, child_id):
            s.trios.append((father_id, mother_id, child_id))

    def alleles_for(sample, pos, index, ncov):
        if index == 0:
            return (0, 0)
        if index == 2:
            return (1, 1)
        a = (_nh(sample) + pos // 10 + ncov) % 2
        return (a, 1 - a)

    class DPStub:
        def __init__(s, all_reads, recomb, pedigree, distrust, positions):
            s.reads = list(all_reads)
            s.ped = pedigree
            s.distrust = distrust
            s.positions = list(positions)

        def get_super_reads(s):
            inv = s.ped.nsi.inverse_mapping()
            out = []
            for idx, (sample, gts, gls) in enumerate(s.ped.individuals):
                mine = [r for r in s.reads if inv[r.sample_id] == sample]
                reads = [core.Read("superread_%d_%d" % (h, idx), -1, -1, s.ped.nsi[sample]) for h in (0, 1)]
                for i, p in enumerate(s.positions):
                    ncov = sum(1 for r in mine if any(v.position == p for v in r))
                    if s.distrust:
                        phred = list(gls[i].gl) if hasattr(gls[i], "gl") else [gls[i][g] for g in gls[i].genotypes()]
                        called = gts[i].get_index() if not gts[i].is_none() else 0
                        index = min(range(3), key=lambda k: (phred[k], k != called, k))
                    else:
                        index = sum(gts[i].as_vector())
                    a0, a1 = alleles_for(sample, p, index, ncov)
                    reads[0].add_variant(p, a0, 10)
                    reads[1].add_variant(p, a1, 10)
                rs = core.ReadSet()
                rs.add(reads[0])
                rs.add(reads[1])
                out.append(rs)
            n = len(s.positions)
            nt = len(s.ped.trios)
            last = sum(4**t for t in range(nt)) if nt else 0  # every trio switches both transmitted haplotypes... at the last column
            tv = [0] * (n - 1) + [last] if n else []
            return out, tv

        def get_optimal_cost(s):
            return 0

        def get_optimal_partitioning(s):
            return [_nh(r.name) % 2 for r in s.reads]

    class GenoDPStub:
        """GenotypeDPTable: likelihoods per (sample, position index) as a function of the individual's prior and reads."""

        def __init__(s, nsi, all_reads, recomb, pedigree, positions):
            s.reads = list(all_reads)
            s.ped = pedigree
            s.nsi = nsi
            s.positions = list(positions)

        def get_genotype_likelihoods(s, sample, pos_index):
            inv = s.nsi.inverse_mapping()
            p = s.positions[pos_index]
            ncov = sum(1 for r in s.reads if inv[r.sample_id] == sample and any(v.position == p for v in r))
            prior = [list(gls[pos_index].gl) for name, gts, gls in s.ped.individuals if name == sample][0]
            k = (_nh(sample) + p // 10 + ncov + len(s.ped.trios) + prior.index(max(prior))) % 3
            gl = [0.125, 0.125, 0.125]
            gl[k] = 0.75
            return core.PhredGenotypeLikelihoods(gl)

    return PedStub, DPStub, GenoDPStub


class _PedReaderStubs:
    """VcfReader / PhasedInputReader stand-ins shared by seed_phase and seed_genotype"""

    @staticmethod
    def make(sc, vcf, core, with_genotypes=True):
        tables = sc.tables(vcf, core, with_genotypes)

        class Reader(_Ctx):
            def __init__(s, *a, **k):
                s.samples = list(sc.samples)

            def __iter__(s):
                return iter(tables)

        class Input(_Ctx):
            has_vcfs = False
            has_alignments = False

            def __init__(s, paths, ref, nsi, *a, **k):
                s.nsi = nsi

            def read_vcfs(s):
                pass

            def read(s, chromosome, variants, sample, read_vcf=True, **k):
                rs = core.ReadSet()
                offered = set(v.position for v in variants)
                for name, vs in sc.reads[chromosome, sample]:
                    r = core.Read(name, 60, 0, s.nsi[sample])
                    for v, allele in vs:
                        if PH_POS[v] in offered:
                            r.add_variant(PH_POS[v], allele, 40)
                    if len(r) > 0:
                        rs.add(r)
                return rs, set()

        return Reader, Input


def _real_cli(argv, seed, cwd):
    env = dict(os.environ, PYTHONHASHSEED=seed, PYTHONPATH=REPO + os.pathsep + os.environ.get("PYTHONPATH", ""))
    return subprocess.run([sys.executable, "-m", "whatshap"] + argv, stdout=subprocess.PIPE, stderr=subprocess.PIPE, text=True, env=env, cwd=cwd)


def _strip_cmdline(text):
    return "".join(l for l in text.splitlines(True) if not l.startswith("##commandline"))


def _diff_kind(a, b):
    """how two TSV texts differ: 'rows of one record permuted' (same lines, same sequence of (chromosome, position) keys),
    'rows permuted' (same multiset of lines) or 'content'"""
    la, lb = (a or "").splitlines(), (b or "").splitlines()
    if sorted(la) != sorted(lb):
        return "content"
    key = lambda l: tuple(l.split("\t")[1:3])
    if [key(l) for l in la] == [key(l) for l in lb]:
        return "rows of one record permuted"
    return "rows permuted"


class SeedPhase(SubCheck):
    """run_whatshap with --ped (and --use-ped-samples) under stubs; PedReader.samples() = list(set(...)) and every other
    set of strings is iterated in a solver-chosen order."""

    name = "seed_phase"
    encoded = ["whatshap.cli.phase.run_whatshap", "setup_families", "setup_pedigree", "find_phaseable_variants", "find_mendelian_conflicts", "create_pedigree", "merge_readsets", "compute_overall_components", "find_components",
               "ReadList", "write_recombination_list", "write_changed_genotypes", "whatshap.pedigree.PedReader (incl. samples())", "find_recombination", "UniformRecombinationCostComputer", "whatshap.graph.ComponentFinder",
               "whatshap.vcf.PhasedVcfWriter (write, _set_PS, _remove_existing_phasing) / VariantTable"]
    sources = ["whatshap/cli/phase.py", "whatshap/pedigree.py", "whatshap/vcf.py", "whatshap/graph.py", "whatshap/merge.py"]
    stubs = ["VcfReader yields harness-built VariantTables (same content as the VCF handed to the writer)", "PhasedInputReader.read returns the scenario's reads of the sample restricted to the offered variants", "readselection = identity",
             "Pedigree / PedigreeDPTable: contract stub whose super reads, transmission vector and partition are a function of the instance (reads, positions, per-sample genotypes / likelihoods, trios), reported per individual name",
             "PhasedVcfWriter runs unchanged against vf/models/pysam_model.py (C04 validates that model); open() is an in-memory file system",
             "set/frozenset -> vf/pysym/nondet.py (sets of str, of VcfVariants and of identity-hashed objects)",
             "replay: the real `whatshap phase` CLI on the materialised VCF / PED / BAM under PYTHONHASHSEED 0..5 (results cached per materialised input)"]
    assumptions = ["as seed_compare",
                   "the compiled PedigreeDPTable gives every individual the same result whatever the order of Pedigree.add_individual calls (source argument: the column cost is a minimum over a label-independent set of allele assignments and tied alleles are reported as EQUAL_SCORES; "
                   "observed: tests/data/trio.* phased identically under 6 hash seeds that order the family differently) - LLSym query (b) of DESIGN 4/C16 was not built",
                   "ReadSet.sort() is a total order on (first position, name, source id): the merged read set is a function of the set of reads (src/readset.h read_comparator_t; duplicates are rejected by ReadSet.add)"]
    # "a set was iterated in a solver-chosen order" was required until PedReader.samples() stopped returning list(set(...)) (fix 40a0cc1):
    # on the repaired tree run_whatshap iterates no set of hash-randomised elements in these scenarios, so the vacuity guard is that its sets are NSets
    required_cover = ["use-ped-samples: sample list from a set", "two families", "two trios in one family", "recombination event written", "genotype change written", "read list written", "sets of the command are NSets", "two chromosomes"]
    replay_every = 4  # a replay re-executes the stub world for the witness' order and looks the real results up (cached per materialised input)
    max_decisions = 200000

    def budget(self, tier):
        return 400 if tier == "quick" else 1800

    def shapes(self, tier):
        S = lambda **k: dict(dict(nchrom=2, use_ped=True, distrust=False), **k)
        out = [S(fam="trio"), S(fam="trio", distrust=True), S(fam="trio", distrust=True, use_ped=False), S(fam="quartet"), S(fam="trio+single", use_ped=False, distrust=True), S(fam="trio+single"), S(fam="two-trios", nchrom=1)]
        if tier != "quick":
            out += [S(fam="quartet", distrust=True), S(fam="two-trios", nchrom=1, distrust=True), S(fam="two-trios", nchrom=2)]
        return out

    def bounds(self, tier):
        return ("families: trio / quartet (two trios sharing the parents) / trio + unrelated single / two trios (6 samples%s); 1-2 chromosomes x 3 variants, fixed Mendelian-consistent genotypes with a solver-chosen het/hom call of the first child, "
                "--distrust-genotypes on/off (solver-chosen: parents' likelihoods contradict the call at the first variant), --use-ped-samples on/off, 1-2 reads per sample and chromosome; "
                "every iteration over a set of sample names (<= 6: all 720 orders) in a solver-chosen order; outputs compared: written VCF, --output-read-list, --recombination-list, --changed-genotype-list, exception" % ("" if tier == "quick" else ", also with distrust / two chromosomes"))

    def setup(self):
        import logging
        from vf.models import core_model

        self.core_model = core_model
        self._real_cache = {}
        logging.getLogger("whatshap").setLevel(logging.ERROR)  # warn_once() / timer warnings of the repo code are not outputs

    def sym_impl(self):
        return "sym"

    def real_impl(self):
        return "real"

    def _load_world(self):
        from vf.models import pysam_model as pm

        core = self.core_model
        climod = types.ModuleType("whatshap.cli")
        climod.__path__ = []
        climod.CommandLineError = type("CommandLineError", (Exception,), {})
        climod.log_memory_usage = lambda *a, **k: None
        climod.PhasedInputReader = None
        w = SymWorld(
            overrides={"pysam": pm, "pysam.libcbcf": pm, "whatshap.core": core, "whatshap.cli": climod, "whatshap.readselect": types.SimpleNamespace(readselection=lambda rs, cov, preferred_source_ids=None, bridging=True: set(range(len(rs))))},
            shadows=nondet.shadows(),
            transformer=nondet.transformer,
        )
        return dict(pm=pm, phase=w.load("whatshap.cli.phase"), vcf=w.load("whatshap.vcf"), ped=w.load("whatshap.pedigree"), world=w)

    def harness(self, e, shape, impl):
        sc = PedScenario(e, shape)
        if shape["use_ped"]:
            e.cover("use-ped-samples: sample list from a set")
        if shape["fam"] in ("two-trios", "trio+single"):
            e.cover("two families")
        if shape["fam"] == "quartet":
            e.cover("two trios in one family")
        if shape["nchrom"] == 2:
            e.cover("two chromosomes")
        nondet.BUILT[0] = 0
        base, other, iterated, orders = self.sym_pair(e, shape, sc)
        if nondet.BUILT[0]:
            e.cover("sets of the command are NSets")
        if iterated:
            e.cover("a set was iterated in a solver-chosen order")
        for tag, f in (("recombination event written", "recomb.tsv"), ("genotype change written", "gtchanges.tsv"), ("read list written", "reads.tsv")):
            if len((base.get(f) or "").splitlines()) > 1:
                e.cover(tag)
        differing = [k for k in sorted(base) if base[k] != other.get(k)]
        if impl == "real":
            return self.confirm_real(e, shape, sc, differing, orders)
        e.check(base["<exception>"] is None, "the command raised under the stubs: %s" % base["<exception>"], lambda: dict(file="<exception>", kind="crash"))
        for k in differing:
            e.check(False, "output %s depends on the iteration order of a set (hash seed)" % k,
                    lambda k=k: dict(file=k, kind=_diff_kind(base[k], other.get(k)) if k.endswith(".tsv") else "content", canonical=str(base[k])[-600:], other=str(other.get(k))[-600:]))

    def sym_pair(self, e, shape, sc):
        """Run the command under the stubs twice - canonical set order, then the order chosen through e.perm - and return what
        it wrote.  With the concrete engine of a replay the same code re-executes the witness' order."""
        if not hasattr(self, "_world"):
            self._world = self._load_world()
        W = self._world
        self.prepare(W, sc)
        nondet.EXTRA_SENSITIVE[:] = [lambda x: hasattr(x, "reference_allele"), nondet.id_hashed]

        def run(hook):
            nondet.ORDER_HOOK = hook
            exc = None
            res = {}
            try:
                self.invoke(W, sc, shape, res)
            except Exception as ex:
                exc = "%s: %s" % (type(ex).__name__, ex)
            finally:
                nondet.ORDER_HOOK = None
            res["<exception>"] = exc
            return res

        base = run(None)
        hook, cnt = _memo_hook(e)
        other = run(hook)
        return base, other, cnt[0], []

    def prepare(self, W, sc):
        phase, vcf, core = W["phase"], W["vcf"], self.core_model
        PedStub, DPStub, _ = _ped_stub_classes(core, {})
        Reader, Input = _PedReaderStubs.make(sc, vcf, core)
        phase.VcfReader, phase.PhasedInputReader, phase.Pedigree, phase.PedigreeDPTable = Reader, Input, PedStub, DPStub

    def invoke(self, W, sc, shape, res):
        pm, phase, pedmod = W["pm"], W["phase"], W["ped"]
        fs = MemFS()
        phase.__dict__["__builtins__"]["open"] = fs.open
        pedmod.open = lambda path, *a, **k: io.StringIO(sc.ped_text)  # module global shadows the builtin for PedReader only
        pm.FS.clear()
        pm.FS["in.vcf"] = sc.doc(with_pl=False)
        sink = pm.MemFile()
        try:
            phase.run_whatshap(phase_input_files=["reads.bam"], variant_file="in.vcf", output=sink, ped="ped.txt", use_ped_samples=shape["use_ped"], distrust_genotypes=sc.distrust,
                               read_list_filename="reads.tsv", gtchange_list_filename="gtchanges.tsv", recombination_list_filename="recomb.tsv", write_command_line_header=False, recombrate=sc.recombrate)
        finally:
            res.update(fs.files)
            res["out.vcf"] = repr(sink.doc)

    REAL_FILES = ("out.vcf", "reads.tsv", "recomb.tsv", "gtchanges.tsv")

    def real_argv(self, shape, sc, vcf_path, ped_path, bam, out):
        argv = ["phase", "--no-reference", "--recombrate", str(sc.recombrate), "--ped", ped_path, "--output-read-list", os.path.join(out, "reads.tsv"), "--recombination-list", os.path.join(out, "recomb.tsv"),
                "--changed-genotype-list", os.path.join(out, "gtchanges.tsv"), "-o", os.path.join(out, "out.vcf")]
        if shape["use_ped"]:
            argv.append("--use-ped-samples")
        if sc.distrust:
            argv.append("--distrust-genotypes")
        return argv + [vcf_path, bam]

    def real_results(self, shape, sc):
        """the real CLI on the materialised input, once per PYTHONHASHSEED in REAL_SEEDS (cached per input)"""
        key = sc.key() + repr(sorted(shape.items()))
        if key not in self._real_cache:
            tmp = tempfile.mkdtemp(prefix="c16-%s-" % self.name, dir="/var/tmp")
            try:
                vcf_path, ped_path, bam = sc.write_real_files(tmp)
                results = []
                for seed in REAL_SEEDS:
                    out = os.path.join(tmp, "o%s" % seed)
                    os.makedirs(out)
                    r = _real_cli(self.real_argv(shape, sc, vcf_path, ped_path, bam, out), seed, tmp)
                    res = {"<rc>": r.returncode, "<stderr>": r.stderr[-400:] if r.returncode else ""}
                    for f in sorted(os.listdir(out)):
                        res[f] = _strip_cmdline(open(os.path.join(out, f)).read())
                    results.append(res)
                self._real_cache[key] = results
            finally:
                shutil.rmtree(tmp, ignore_errors=True)
        return self._real_cache[key]

    def confirm_real(self, e, shape, sc, differing, orders):
        """Replay.  `differing`: the outputs that differ between the two orders of this path in the stub world.
        * a differing output must show a hash-seed dependence of the REAL command (two of the seeds disagree on that file) -
          otherwise the counter-example is not confirmed;
        * a path without differences: the real runs of all seeds agree - unless the real command is seed dependent on this
          input for another pair of orders (known finding); a run of the real CLI cannot be pinned to one solver-chosen order,
          and the real solver may change other genotypes than the contract stub, so nothing is asserted for such a path."""
        results = self.real_results(shape, sc)
        for r in results:  # a crash of the stub world has to be a crash of the real command (and vice versa: replay mismatch)
            e.check(r["<rc>"] == 0, "the real command failed on the materialised input: %s" % r.get("<stderr>"), None)
        dep = {k: any(results[0].get(k) != r.get(k) for r in results[1:]) for k in self.REAL_FILES + ("<rc>",)}
        for k in differing:
            kk = k if k in dep else "<rc>"
            e.check(not dep.get(kk), "output %s depends on the iteration order of a set (hash seed)" % k, None)

    def classify(self, shape, v):
        info = v.get("info") or {}
        f = info.get("file", "?")
        if f == "gtchanges.tsv" and info.get("kind") == "rows of one record permuted":
            return "seed_phase:changed-genotype-list:rows of one record follow the sample order:use_ped_samples=%s" % shape["use_ped"]
        return "seed_phase:%s:%s:fam=%s:use_ped_samples=%s:distrust=%s" % (f, info.get("kind"), shape["fam"], shape["use_ped"], shape.get("distrust"))


SUBCHECKS["seed_phase"] = SeedPhase()


class SeedGenotype(SeedPhase):
    """run_genotype (samples = frozenset(samples), families, prior loop over the sample set) under stubs analogous to seed_phase"""

    name = "seed_genotype"
    encoded = ["whatshap.cli.genotype.run_genotype", "determine_genotype", "whatshap.cli.phase.setup_families / setup_pedigree / select_reads", "whatshap.pedigree.PedReader / UniformRecombinationCostComputer", "whatshap.graph.ComponentFinder", "whatshap.vcf.VariantTable (set_genotypes_of, set_genotype_likelihoods_of, ...)"]
    sources = ["whatshap/cli/genotype.py", "whatshap/cli/phase.py", "whatshap/pedigree.py", "whatshap/vcf.py", "whatshap/graph.py"]
    stubs = ["VcfReader / PhasedInputReader / readselection as in seed_phase", "compute_genotypes (prior genotyping) and GenotypeDPTable: contract stubs whose likelihoods are a function of the individual's reads, its prior and the trios (per individual name)",
             "GenotypeVcfWriter records, per chromosome, the genotypes and likelihoods of every sample of the table it is given (by sample name) - both for the output and for --prioroutput",
             "set/frozenset -> vf/pysym/nondet.py", "replay: the real `whatshap genotype` CLI (--prioroutput included) on the materialised VCF / PED / BAM under PYTHONHASHSEED 0..5"]
    assumptions = ["as seed_compare", "the compiled GenotypeDPTable gives every individual the same likelihoods whatever the order of Pedigree.add_individual calls (observed on tests/data/trio.* under 6 hash seeds; not proved - floating-point summation order inside the C++ forward-backward pass is outside this technique)"]
    required_cover = ["use-ped-samples: sample list from a set", "two families", "two trios in one family", "a set was iterated in a solver-chosen order", "two chromosomes", "prior genotyping over the sample set", "uniform priors"]
    REAL_FILES = ("out.vcf", "prior.vcf")

    def shapes(self, tier):
        S = lambda **k: dict(dict(nchrom=2, use_ped=True, nopriors=False), **k)
        out = [S(fam="trio"), S(fam="trio", use_ped=False), S(fam="quartet", nopriors=True), S(fam="trio+single", use_ped=False), S(fam="two-trios", nchrom=1, use_ped=False)]
        if tier != "quick":
            out += [S(fam="quartet"), S(fam="two-trios", nchrom=2), S(fam="trio+single", nopriors=True)]
        return out

    def bounds(self, tier):
        return ("families as in seed_phase (trio, quartet, trio + unrelated single, two trios = 6 samples: all 720 orders of frozenset(samples)), 1-2 chromosomes x 3 variants, 1-3 reads per sample and chromosome, "
                "prior genotyping on / --no-priors, --use-ped-samples on/off, --prioroutput; outputs compared: what the two VCF writers are given per chromosome and sample, exception")

    def _load_world(self):
        core = self.core_model
        climod = types.ModuleType("whatshap.cli")
        climod.__path__ = [os.path.join(REPO, "whatshap", "cli")]
        climod.__package__ = "whatshap.cli"
        climod.CommandLineError = type("CommandLineError", (Exception,), {})
        climod.log_memory_usage = lambda *a, **k: None
        climod.PhasedInputReader = None
        w = SymWorld(
            overrides={"whatshap.core": core, "whatshap.cli": climod, "whatshap.readselect": types.SimpleNamespace(readselection=lambda rs, cov, preferred_source_ids=None, bridging=True: set(range(len(rs))))},
            shadows=nondet.shadows(),
            transformer=nondet.transformer,
        )
        return dict(geno=w.load("whatshap.cli.genotype"), phase=w.load("whatshap.cli.phase"), vcf=w.load("whatshap.vcf"), ped=w.load("whatshap.pedigree"), world=w)

    def harness(self, e, shape, impl):
        e.cover("uniform priors" if shape["nopriors"] else "prior genotyping over the sample set")
        return SeedPhase.harness(self, e, shape, impl)

    def prepare(self, W, sc):
        geno, vcf, core = W["geno"], W["vcf"], self.core_model
        PedStub, _, GenoDPStub = _ped_stub_classes(core, {})
        Reader, Input = _PedReaderStubs.make(sc, vcf, core, with_genotypes=False)

        def compute_genotypes(readset, positions):
            gts, gls = [], []
            for p in positions:
                al = [v.allele for r in readset for v in r if v.position == p]
                n0, n1 = al.count(0), al.count(1)
                gl = [0.2 + 0.1 * (n0 > n1), 0.2 + 0.1 * (n0 == n1), 0.2 + 0.1 * (n1 > n0)]
                tot = sum(gl)
                gls.append([x / tot for x in gl])
                gts.append(core.Genotype([]))
            return gts, gls

        geno.VcfReader, geno.PhasedInputReader, geno.Pedigree, geno.GenotypeDPTable, geno.compute_genotypes = Reader, Input, PedStub, GenoDPStub, compute_genotypes

    def invoke(self, W, sc, shape, res):
        geno, pedmod = W["geno"], W["ped"]
        fs = MemFS()
        geno.__dict__["__builtins__"]["open"] = fs.open
        pedmod.open = lambda path, *a, **k: io.StringIO(sc.ped_text)
        written = {"out.vcf": [], "prior.vcf": []}

        class Writer(_Ctx):
            def __init__(s, command_line=None, in_path=None, out_file=None):
                s.log = written["out.vcf"] if not hasattr(out_file, "getvalue") else written["prior.vcf"]

            def write_genotypes(s, chromosome, table, only_snvs, ploidy=2):
                for sample in sorted(table.samples):
                    gl = [None if x is None else [round(float(y), 9) for y in x] for x in table.genotype_likelihoods_of(sample)]
                    s.log.append((chromosome, sample, [str(g) for g in table.genotypes_of(sample)], gl))

            def write_unchanged(s, chromosome):
                s.log.append((chromosome, "unchanged"))

        geno.GenotypeVcfWriter = Writer
        try:
            geno.run_genotype(phase_input_files=["reads.bam"], variant_file="in.vcf", output="out.vcf", ped="ped.txt", use_ped_samples=shape["use_ped"], nopriors=shape["nopriors"], prioroutput=None if shape["nopriors"] else "prior.vcf",
                              write_command_line_header=False, recombrate=sc.recombrate)
        finally:
            res["out.vcf"] = repr(written["out.vcf"])
            res["prior.vcf"] = repr(written["prior.vcf"])

    def real_argv(self, shape, sc, vcf_path, ped_path, bam, out):
        argv = ["genotype", "--recombrate", str(sc.recombrate), "--ped", ped_path, "-o", os.path.join(out, "out.vcf")]
        if shape["use_ped"]:
            argv.append("--use-ped-samples")
        argv += ["--no-priors"] if shape["nopriors"] else ["--prioroutput", os.path.join(out, "prior.vcf")]  # the two options exclude each other
        return argv + [vcf_path, bam]

    def classify(self, shape, v):
        info = v.get("info") or {}
        return "seed_genotype:%s:fam=%s:use_ped_samples=%s:nopriors=%s" % (info.get("file", v["msg"]), shape["fam"], shape["use_ped"], shape["nopriors"])


SUBCHECKS["seed_genotype"] = SeedGenotype()


# =====================================================================================================================
# seed_haplotag: sample selection + per-sample processing + barcode clouds of whatshap haplotag
# =====================================================================================================================
HT_MODES = {
    # VCF sample columns, BAM read-group samples, phased variants {pos: {sample: (phase, block id)}}, alignments in file order
    # (name, sample, start, barcode, covered positions)
    "shared barcode": dict(vcf=["sB", "sA"], bam=["sA", "sB"], variants={120: {"sA": 121}, 130: {"sB": 131}},
                           recs=[("rA1", "sA", 100, "B1", [120]), ("rB1", "sB", 100, "B1", [130]), ("x", "sA", 200, "B1", [])]),
    "same read name": dict(vcf=["sB", "sA"], bam=["sA", "sB"], variants={120: {"sA": 121}, 130: {"sB": 131}},
                           recs=[("r1", "sA", 100, "", [120]), ("r1", "sB", 100, "", [130])]),
    "disjoint": dict(vcf=["sB", "sA"], bam=["sA", "sB"], variants={120: {"sA": 121}, 130: {"sB": 131}},
                     recs=[("rA1", "sA", 100, "B1", [120]), ("rB1", "sB", 100, "B2", [130]), ("x", "sA", 200, "B1", []), ("y", "sB", 200, "B2", [])]),
    # one sample, one barcode cloud of two reads that touch two phase sets with different maxima (80 vs 40): the cloud is a
    # Python set of Read objects (identity hash -> address order)
    "cloud": dict(vcf=["sA"], bam=["sA"], variants={120: {"sA": 121}, 130: {"sA": 121}, 330: {"sA": 331}},
                  recs=[("rA1", "sA", 100, "B1", [120, 130]), ("rA2", "sA", 300, "B1", [330]), ("x", "sA", 400, "B1", [])]),
    # sample selection: VCF has a sample without reads, the BAM a sample that is not in the VCF
    "selection": dict(vcf=["sC", "sB", "sA"], bam=["sA", "sD", "sB"], variants={120: {"sA": 121, "sC": 121}, 130: {"sB": 131}},
                      recs=[("rA1", "sA", 100, "B1", [120]), ("rB1", "sB", 100, "B2", [130]), ("rD1", "sD", 100, "B3", [120, 130]), ("x", "sA", 200, "B1", []), ("y", "sB", 200, "B2", [])]),
}


class HtScenario:
    def __init__(self, e, shape):
        m = HT_MODES[shape["mode"]]
        self.shape = shape
        self.vcf_samples, self.bam_samples, self.variants = m["vcf"], m["bam"], m["variants"]
        self.given = shape.get("given")
        self.positions = sorted(self.variants)
        # phased alleles: 0|1 at the first position of a phase set, solver-chosen elsewhere
        self.phase = {}
        for p in self.positions:
            for s, ps in self.variants[p].items():
                first = min(q for q in self.positions if self.variants[q].get(s) == ps) == p
                self.phase[p, s] = (0, 1) if first or not e.bit("flip_%d_%s" % (p, s)) else (1, 0)
        self.recs = []
        for name, sample, start, bx, cov in m["recs"]:
            hap = e.bit("hap_%s_%s" % (name, sample)) if cov else 0  # the haplotype the read supports (consistently at all its variants)
            alleles = {p: self.phase[p, sample][hap] for p in cov if (p, sample) in self.phase}
            for p in cov:
                if (p, sample) not in self.phase:
                    alleles[p] = 0
            self.recs.append(dict(name=name, sample=sample, start=start, bx=bx, alleles=alleles))

    def key(self):
        return repr((sorted(self.shape.items(), key=str), sorted(self.phase.items()), [sorted(r.items(), key=str) for r in self.recs]))

    def table(self, vcf, core):
        vt = vcf.VariantTable("chr1", list(self.vcf_samples))
        n = len(self.vcf_samples)
        for p in self.positions:
            gts, phs = [], []
            for s in self.vcf_samples:
                if (p, s) in self.phase:
                    gts.append(core.Genotype([0, 1]))
                    phs.append(vcf.VariantCallPhase(block_id=self.variants[p][s], phase=self.phase[p, s], quality=None))
                else:
                    gts.append(core.Genotype([0, 0]))
                    phs.append(None)
            vt.add_variant(vcf.BiallelicVcfVariant(p, "A", "C"), gts, phs, [None] * n, [None] * n)
        return vt

    def reads_by_sample(self):
        out = {}
        for r in self.recs:
            if r["alleles"]:
                out.setdefault(r["sample"], []).append(dict(name=r["name"], start=r["start"], bx=r["bx"], vars=[(p, a, 40) for p, a in sorted(r["alleles"].items())]))
        return out

    def write_real_files(self, tmp):
        import pysam

        pysam.set_verbosity(0)
        lines = ["##fileformat=VCFv4.2", "##contig=<ID=chr1,length=10000>", '##FORMAT=<ID=GT,Number=1,Type=String,Description="g">', '##FORMAT=<ID=PS,Number=1,Type=Integer,Description="p">',
                 "#CHROM\tPOS\tID\tREF\tALT\tQUAL\tFILTER\tINFO\tFORMAT\t" + "\t".join(self.vcf_samples)]
        for p in self.positions:
            calls = []
            for s in self.vcf_samples:
                if (p, s) in self.phase:
                    calls.append("%d|%d:%d" % (self.phase[p, s][0], self.phase[p, s][1], self.variants[p][s]))
                else:
                    calls.append("0/0:.")
            lines.append("chr1\t%d\t.\tA\tC\t.\t.\t.\tGT:PS\t%s" % (p + 1, "\t".join(calls)))
        plain = os.path.join(tmp, "in.vcf")
        open(plain, "w").write("\n".join(lines) + "\n")
        gz = plain + ".gz"
        pysam.tabix_compress(plain, gz, force=True)
        pysam.tabix_index(gz, preset="vcf", force=True)
        hdr = pysam.AlignmentHeader.from_dict({"HD": {"VN": "1.6", "SO": "coordinate"}, "SQ": [{"SN": "chr1", "LN": 10000}], "RG": [{"ID": "g_" + s, "SM": s} for s in self.bam_samples]})
        bam = os.path.join(tmp, "in.bam")
        with pysam.AlignmentFile(bam, "wb", header=hdr) as f:
            for r in sorted(self.recs, key=lambda r: r["start"]):
                seq = ["A"] * 50
                for p, a in r["alleles"].items():
                    seq[p - r["start"]] = "AC"[a]
                a = pysam.AlignedSegment(hdr)
                a.query_name, a.flag, a.reference_id, a.reference_start, a.mapping_quality = r["name"], 0, 0, r["start"], 60
                a.query_sequence = "".join(seq)
                a.query_qualities = pysam.qualitystring_to_array("I" * 50)
                a.cigartuples = [(0, 50)]
                a.set_tag("RG", "g_" + r["sample"])
                if r["bx"]:
                    a.set_tag("BX", r["bx"])
                f.write(a)
        pysam.index(bam)
        return gz, bam


class SeedHaplotag(SeedPhase):
    """run_haplotag under the file stand-ins of C10 with two or three samples: compute_variant_file_samples_to_use and
    compute_shared_samples return Python sets of sample names, prepare_haplotag_information iterates them and pools barcode
    clouds in Python sets of Read objects."""

    name = "seed_haplotag"
    encoded = ["whatshap.cli.haplotag.run_haplotag", "compute_variant_file_samples_to_use", "compute_shared_samples", "prepare_haplotag_information", "get_variant_information", "attempt_add_phase_information", "normalize_user_regions", "ignore_read", "whatshap.vcf.VariantTable"]
    sources = ["whatshap/cli/haplotag.py", "whatshap/vcf.py"]
    stubs = ["vf/models/haplotag_model.py (as C10 `loop`): Aln (pysam.AlignedSegment), BamIn / BamOut (pysam.AlignmentFile), VcfIn (VcfReader.fetch_regions), Reader (PhasedInputReader: the scenario's reads of the requested sample), TextOut (xopen); md5_of constant; logger calls stripped",
             "set/frozenset -> vf/pysym/nondet.py; sets of Read objects (identity hash, i.e. address order) are order-nondeterministic too (nondet.id_hashed)",
             "replay: the real `whatshap haplotag` CLI on a materialised bgzipped+indexed VCF and an indexed BAM with one read group per sample, PYTHONHASHSEED 0..5; compared: the records of the output BAM (as SAM text) and --output-haplotag-list"]
    assumptions = ["as seed_compare", "a barcode cloud that touches two phase sets has different maximum scores for them (mode `cloud`: 80 vs 40).  With equal maxima the reported phase set follows the address order of the Read wrappers in the "
                   "`reads_to_consider` set: on the real CLI the outcome of such a tie flipped when unrelated reads were added in front of the cloud (2 vs 1 extra reads) but was identical under 41 hash seeds and 8 environment sizes, "
                   "i.e. deterministic per input in this build - not a confirmed run-to-run difference, therefore not asserted"]
    required_cover = ["two samples share a barcode", "one read name in two samples", "sample subset given", "BAM sample missing in the VCF", "a set was iterated in a solver-chosen order", "a set of Read objects was iterated in a solver-chosen order", "alignment tagged through the barcode fall-back"]
    REAL_FILES = ("list.tsv", "out.sam")
    replay_every = 1

    def shapes(self, tier):
        out = [dict(mode="shared barcode"), dict(mode="same read name"), dict(mode="disjoint"), dict(mode="cloud"), dict(mode="selection", given=None), dict(mode="selection", given=["sB", "sA"]), dict(mode="selection", given=["sA"])]
        if tier != "quick":
            out += [dict(mode="selection", given=["sC", "sA", "sB"]), dict(mode="disjoint", ignore_linked=True)]
        return out

    def bounds(self, tier):
        return ("7 scenarios (thorough: 9) on one contig: two samples sharing a barcode / sharing a read name / fully disjoint; one sample with a two-read barcode cloud over two phase sets; sample selection with --sample None / [sB,sA] / [sA] on a VCF with 3 and a BAM with 3 samples (2 shared); "
                "solver-chosen: the haplotype every read supports, phase orientation of non-leading variants; every iteration over a set of <= 3 sample names or <= 2 Read objects in a solver-chosen order; outputs compared: written alignments (name, flag, start, tags) and the haplotag list")

    def setup(self):
        from vf.models import core_model, haplotag_model

        self.core_model = core_model
        self.hm = haplotag_model
        self._real_cache = {}

    def _load_world(self):
        hm = self.hm
        w = SymWorld(overrides={"whatshap.core": self.core_model, "whatshap.cli": hm.cli_stub()}, shadows=nondet.shadows(), transformer=lambda name, tree: nondet.transformer(name, hm.strip_logging(name, tree)))
        return dict(ht=w.load("whatshap.cli.haplotag"), vcf=w.load("whatshap.vcf"), world=w)

    def harness(self, e, shape, impl):
        sc = HtScenario(e, shape)
        if shape["mode"] == "shared barcode":
            e.cover("two samples share a barcode")
        if shape["mode"] == "same read name":
            e.cover("one read name in two samples")
        if shape.get("given"):
            e.cover("sample subset given")
        if set(sc.bam_samples) - set(sc.vcf_samples):
            e.cover("BAM sample missing in the VCF")
        base, other, iterated, _ = self.sym_pair(e, shape, sc)
        if iterated:
            e.cover("a set was iterated in a solver-chosen order")
        if self._object_sets[0]:
            e.cover("a set of Read objects was iterated in a solver-chosen order")
        if any(w[0] in ("x", "y") and any(k == "HP" for k, _ in w[3]) for w in base["written"]):
            e.cover("alignment tagged through the barcode fall-back")
        differing = [k for k in sorted(base) if base[k] != other.get(k)]
        if impl == "real":
            return self.confirm_real(e, shape, sc, ["out.sam" if k == "written" else k for k in differing], None)
        e.check(base["<exception>"] is None, "the command raised under the stubs: %s" % base["<exception>"], lambda: dict(file="<exception>", kind="crash"))
        for k in differing:
            e.check(False, "output %s depends on the iteration order of a set (hash seed)" % k, lambda k=k: dict(file=k, canonical=str(base[k])[-600:], other=str(other.get(k))[-600:]))

    def prepare(self, W, sc):
        self._object_sets = [0]
        pred = nondet.id_hashed
        counter = self._object_sets

        def obj(x):
            if pred(x) and not hasattr(x, "reference_allele"):
                counter[0] += 1
                return True
            return False

        self._obj_pred = obj

    def sym_pair(self, e, shape, sc):
        r = SeedPhase.sym_pair(self, e, shape, sc)
        return r

    def invoke(self, W, sc, shape, res):
        hm, mod, vcf, core = self.hm, W["ht"], W["vcf"], self.core_model
        nondet.EXTRA_SENSITIVE[:] = [lambda x: hasattr(x, "reference_allele"), self._obj_pred]
        vt = sc.table(vcf, core)
        recs, spans = [], {}
        for r in sc.recs:
            tags = {"RG": "g_" + r["sample"]}
            if r["bx"]:
                tags["BX"] = r["bx"]
            a = hm.make_sym_aln(r["name"], 0, r["start"], 50, tags)
            recs.append(a)
            spans[id(a)] = (r["start"], r["start"] + 50)
        recs.sort(key=lambda a: a.reference_start)
        header = {"HD": {"VN": "1.6", "SO": "coordinate"}, "SQ": [{"SN": "chr1", "LN": 10000}], "RG": [{"ID": "g_" + s, "SM": s} for s in sc.bam_samples]}
        bam_in = hm.BamIn(recs, header, lambda a: spans[id(a)])
        bam_out, text_out = hm.BamOut(), hm.TextOut()

        class _Pysam:
            class AlignmentHeader:
                from_dict = staticmethod(lambda d: d)

            @staticmethod
            def AlignmentFile(path, *a, **kw):
                return bam_out if ("header" in kw or str(kw.get("mode", "r")).startswith("w")) else bam_in

        mod.pysam = _Pysam
        mod.VcfReader = lambda *a, **k: hm.VcfIn(list(sc.vcf_samples), vt, mod.VcfInvalidChromosome)
        reads = sc.reads_by_sample()
        mod.PhasedInputReader = lambda *a, **k: hm.Reader(core, reads)
        mod.md5_of = lambda path: "0" * 32
        mod.xopen = lambda path, mode="wt": text_out
        try:
            with contextlib.redirect_stdout(io.StringIO()):
                mod.run_haplotag(variant_file="in.vcf.gz", alignment_file="in.bam", output="out.bam", reference=False, regions=None, ignore_linked_read=bool(shape.get("ignore_linked")),
                                 given_samples=sc.given, haplotag_list="list.tsv")
        finally:
            res["written"] = bam_out.written
            res["list.tsv"] = list(text_out.lines)

    def real_results(self, shape, sc):
        key = sc.key()
        if key not in self._real_cache:
            import pysam

            tmp = tempfile.mkdtemp(prefix="c16-%s-" % self.name, dir="/var/tmp")
            try:
                gz, bam = sc.write_real_files(tmp)
                results = []
                for seed in REAL_SEEDS:
                    out = os.path.join(tmp, "o%s" % seed)
                    os.makedirs(out)
                    argv = ["haplotag", "--no-reference", "--output-haplotag-list", os.path.join(out, "list.tsv"), "-o", os.path.join(out, "out.bam")]
                    if shape.get("ignore_linked"):
                        argv.append("--ignore-linked-read")
                    for s in sc.given or []:
                        argv += ["--sample", s]
                    r = _real_cli(argv + [gz, bam], seed, tmp)
                    res = {"<rc>": r.returncode, "<stderr>": r.stderr[-400:] if r.returncode else ""}
                    if os.path.exists(os.path.join(out, "list.tsv")):
                        res["list.tsv"] = open(os.path.join(out, "list.tsv")).read()
                    if r.returncode == 0:
                        with pysam.AlignmentFile(os.path.join(out, "out.bam"), check_sq=False) as f:
                            res["out.sam"] = "\n".join(a.to_string() for a in f.fetch(until_eof=True))
                    results.append(res)
                self._real_cache[key] = results
            finally:
                shutil.rmtree(tmp, ignore_errors=True)
        return self._real_cache[key]

    def classify(self, shape, v):
        if shape["mode"] in ("shared barcode", "same read name"):
            return "seed_haplotag:results of the samples are merged in sample-set order:%s" % shape["mode"]
        return "seed_haplotag:%s:mode=%s:given=%s" % ((v.get("info") or {}).get("file", v["msg"]), shape["mode"], shape.get("given"))


SUBCHECKS["seed_haplotag"] = SeedHaplotag()


# =====================================================================================================================
# seed_stats / seed_unphase / seed_split: commands that hardly use sets - run once under NSet shadows
# =====================================================================================================================
class _SmallSeedCheck(SeedPhase):
    """common driver: the scenario object only needs key(); prepare/invoke/real_results are per command"""

    required_cover = ["sets of the command are NSets"]
    replay_every = 1
    covers = ()

    def setup(self):
        from vf.models import core_model

        self.core_model = core_model
        self._real_cache = {}

    def scenario(self, e, shape):
        raise NotImplementedError

    def harness(self, e, shape, impl):
        sc = self.scenario(e, shape)
        nondet.BUILT[0] = 0
        base, other, iterated, _ = self.sym_pair(e, shape, sc)
        if nondet.BUILT[0] or iterated:
            e.cover("sets of the command are NSets")
        if iterated:
            e.cover("a set was iterated in a solver-chosen order")
        differing = [k for k in sorted(base) if base[k] != other.get(k)]
        if impl == "real":
            return self.confirm_real(e, shape, sc, differing, None)
        e.check(base["<exception>"] is None, "the command raised under the stubs: %s" % base["<exception>"], lambda: dict(file="<exception>", kind="crash"))
        for k in differing:
            e.check(False, "output %s depends on the iteration order of a set (hash seed)" % k, lambda k=k: dict(file=k, canonical=str(base[k])[-600:], other=str(other.get(k))[-600:]))

    def prepare(self, W, sc):
        pass

    def real_run(self, shape, sc, tmp, out, seed):
        raise NotImplementedError

    def real_results(self, shape, sc):
        key = repr(sorted(shape.items(), key=str)) + sc.key()
        if key not in self._real_cache:
            tmp = tempfile.mkdtemp(prefix="c16-%s-" % self.name, dir="/var/tmp")
            try:
                results = []
                for seed in REAL_SEEDS:
                    out = os.path.join(tmp, "o%s" % seed)
                    os.makedirs(out)
                    results.append(self.real_run(shape, sc, tmp, out, seed))
                self._real_cache[key] = results
            finally:
                shutil.rmtree(tmp, ignore_errors=True)
        return self._real_cache[key]

    def classify(self, shape, v):
        return "%s:%s:%s" % (self.name, (v.get("info") or {}).get("file", v["msg"]), json.dumps(shape, sort_keys=True))


class _Keyed:
    def __init__(self, **k):
        self.__dict__.update(k)

    def key(self):
        return repr(sorted((k, repr(v)) for k, v in self.__dict__.items() if not k.startswith("_")))


class SeedStats(_SmallSeedCheck):
    name = "seed_stats"
    encoded = ["whatshap.cli.stats.run_stats", "get_phase_blocks", "PhasingStats", "compute_ng50", "write_to_block_list", "whatshap.vcf.VcfReader"]
    sources = ["whatshap/cli/stats.py", "whatshap/vcf.py"]
    stubs = ["pysam.VariantFile -> vf/models/vcfread_model.py (as C12); open() in stats.py -> in-memory files", "set/frozenset -> vf/pysym/nondet.py",
             "replay: the real `whatshap stats --tsv --block-list --gtf [--chromosome ...]` CLI under PYTHONHASHSEED 0..5 (files and stdout compared)"]
    assumptions = ["as seed_compare"]
    required_cover = ["sets of the command are NSets", "a set was iterated in a solver-chosen order", "two chromosomes", "indexed VCF: chromosomes fetched by name"]
    REAL_FILES = ("tsv", "bl", "gtf", "<stdout>")

    def shapes(self, tier):
        return [dict(chromosomes=None), dict(chromosomes=["chr2", "chr1"]), dict(chromosomes=["chr2", "chr1"], indexed=True)]

    def bounds(self, tier):
        return "one sample, two contigs of different length (500 / 100000), chr1: one block of 3 phased hets + one unphased het (solver-chosen phase bits), chr2: one block of 2; all chromosomes / --chromosome chr2 --chromosome chr1 on a plain VCF (file order) and on a bgzipped tabix-indexed one (fetched by name in the order given); --tsv, --block-list, --gtf"

    def _load_world(self):
        from vf.models import vcfread_model

        cli = types.ModuleType("whatshap.cli")
        cli.__path__ = []
        cli.CommandLineError = type("CommandLineError", (Exception,), {})
        w = SymWorld(overrides={"whatshap.core": self.core_model, "whatshap.cli": cli}, shadows=nondet.shadows(), transformer=nondet.transformer)
        stats, vcf = w.load("whatshap.cli.stats"), w.load("whatshap.vcf")
        vcf.VariantFile = vcfread_model.VariantFile
        return dict(stats=stats, vcf=vcf, model=vcfread_model, world=w)

    def scenario(self, e, shape):
        from vf.models import vcfread_model as vm

        e.cover("two chromosomes")
        gt = lambda name: "1|0" if e.bit(name) else "0|1"
        recs = [vm.RecordSpec("chr1", 100, "A", "C", "0|1", [("PS", "101")]), vm.RecordSpec("chr1", 200, "A", "C", gt("ph1"), [("PS", "101")]), vm.RecordSpec("chr1", 300, "A", "C", "0/1", [("PS", ".")]),
                vm.RecordSpec("chr1", 400, "A", "C", gt("ph2"), [("PS", "101")]), vm.RecordSpec("chr2", 100, "G", "T", "0|1", [("PS", "101")]), vm.RecordSpec("chr2", 150, "G", "T", gt("ph3"), [("PS", "101")])]
        content = vm.VcfContent("sampleX", [("chr1", 500), ("chr2", 100000)], recs, indexed=bool(shape.get("indexed")))
        if shape.get("indexed"):
            e.cover("indexed VCF: chromosomes fetched by name")
        sc = _Keyed(text=content.text())
        sc._content = content
        return sc

    def invoke(self, W, sc, shape, res):
        stats, model = W["stats"], W["model"]
        model.FILES.clear()
        model.FILES["in.vcf"] = sc._content
        fs = MemFS()
        stats.open = fs.open
        buf = io.StringIO()
        try:
            with contextlib.redirect_stdout(buf):
                stats.run_stats(vcf="in.vcf", tsv="tsv", block_list="bl", gtf="gtf", chromosomes=shape["chromosomes"])
        finally:
            res.update(fs.files)
            res["<stdout>"] = buf.getvalue()

    def real_run(self, shape, sc, tmp, out, seed):
        p = os.path.join(tmp, "in.vcf")
        if shape.get("indexed"):
            p += ".gz"
        if not os.path.exists(p):
            open(os.path.join(tmp, "in.vcf"), "w").write(sc.text)
            if shape.get("indexed"):
                import pysam

                pysam.tabix_index(os.path.join(tmp, "in.vcf"), preset="vcf", force=True)  # compresses to in.vcf.gz and writes the .tbi
        argv = ["stats", "--tsv", os.path.join(out, "tsv"), "--block-list", os.path.join(out, "bl"), "--gtf", os.path.join(out, "gtf")]
        for c in shape["chromosomes"] or []:
            argv += ["--chromosome", c]
        r = _real_cli(argv + [p], seed, tmp)
        res = {"<rc>": r.returncode, "<stderr>": r.stderr[-400:] if r.returncode else "", "<stdout>": r.stdout}
        for f in os.listdir(out):
            res[f] = open(os.path.join(out, f)).read()
        return res


class SeedUnphase(_SmallSeedCheck):
    name = "seed_unphase"
    encoded = ["whatshap.cli.unphase.run_unphase", "unphase_header"]
    sources = ["whatshap/cli/unphase.py"]
    stubs = ["pysam -> vf/models/pysam_model.py (as C13)", "frozenset -> vf/pysym/nondet.py (TAGS_TO_REMOVE is iterated per record and for the header)", "replay: the real `whatshap unphase` CLI under PYTHONHASHSEED 0..5 (stdout compared)"]
    assumptions = ["as seed_compare"]
    required_cover = ["sets of the command are NSets", "a set was iterated in a solver-chosen order"]
    REAL_FILES = ("out.vcf",)

    def shapes(self, tier):
        return [dict(tags="all"), dict(tags="PS only")]

    def bounds(self, tier):
        return "two samples, three records carrying PS+PQ / HP / no phase tag (or PS only), header with a phasing= line and the definitions of all three tags; solver-chosen phased bit of two calls; all 6 orders of frozenset({HP,PQ,PS})"

    def _load_world(self):
        from vf.models import pysam_model as pm, vcfdoc

        w = SymWorld(overrides={"pysam": pm, "pysam.libcbcf": pm, "whatshap.core": self.core_model, "whatshap.cli": vcfdoc.cli_stub()}, shadows=nondet.shadows(), transformer=nondet.transformer)
        return dict(pm=pm, mod=w.load("whatshap.cli.unphase"), world=w)

    def scenario(self, e, shape):
        ph = [bool(e.bit("phased%d" % i)) for i in range(2)]
        allt = shape["tags"] == "all"
        header = [("GENERIC", "source", "x"), ("GENERIC", "phasing", "whatshap"), ("FORMAT", "GT", "1", "String"), ("FORMAT", "DP", "1", "Integer"), ("FORMAT", "PS", "1", "Integer"), ("FORMAT", "PQ", "1", "Integer"), ("FORMAT", "HP", ".", "String"), ("contig", "chr1")]
        R = lambda pos, fmt, calls: dict(chrom="chr1", pos=pos, id=None, ref="A", alts=("C",), qual=None, filter=[], info={}, format=fmt, calls=calls)
        recs = [R(10, ["GT", "PS", "PQ", "DP"] if allt else ["GT", "PS", "DP"], [dict({"GT": (1, 0), "phased": ph[0], "PS": 10, "DP": 7}, **({"PQ": 30} if allt else {})), dict({"GT": (0, 1), "phased": True, "PS": 10, "DP": 8}, **({"PQ": 20} if allt else {}))])]
        if allt:
            recs.append(R(20, ["GT", "HP", "DP"], [{"GT": (0, 1), "phased": False, "HP": ("10-1", "10-2"), "DP": 5}, {"GT": (1, 1), "phased": ph[1], "HP": (".",), "DP": 6}]))
        recs.append(R(30, ["GT", "DP"], [{"GT": (1, 0), "phased": ph[1], "DP": 3}, {"GT": (0, 0), "phased": False, "DP": 4}]))
        sc = _Keyed(doc=dict(samples=["s1", "s2"], header=header, records=recs))
        return sc

    def invoke(self, W, sc, shape, res):
        import copy

        pm, mod = W["pm"], W["mod"]
        pm.FS.clear()
        pm.FS["in.vcf"] = copy.deepcopy(sc.doc)
        sink = pm.MemFile()
        try:
            mod.run_unphase("in.vcf", sink)
        finally:
            res["out.vcf"] = repr(sink.doc)

    def real_run(self, shape, sc, tmp, out, seed):
        from vf.models import materialise

        p = materialise.write_vcf(sc.doc, os.path.join(tmp, "in.vcf"))
        r = _real_cli(["unphase", p], seed, tmp)
        return {"<rc>": r.returncode, "<stderr>": r.stderr[-400:] if r.returncode else "", "out.vcf": r.stdout}


class SeedSplit(_SmallSeedCheck):
    name = "seed_split"
    encoded = ["whatshap.cli.split.run_split", "process_haplotag_list_file", "select_reads_in_largest_phased_blocks", "write_read_length_histogram"]
    sources = ["whatshap/cli/split.py"]
    stubs = ["xopen / pysam / open / detect_file_format -> vf/models/io_model.py (as C14)", "set -> vf/pysym/nondet.py", "replay: the real `whatshap split` CLI on a FASTQ + haplotag list under PYTHONHASHSEED 0..5 (the three FASTQ outputs and the histogram compared)"]
    assumptions = ["as seed_compare"]
    required_cover = ["sets of the command are NSets", "a set was iterated in a solver-chosen order", "two blocks of one chromosome tie for the largest"]
    REAL_FILES = ("h1", "h2", "untagged", "hist")

    def shapes(self, tier):
        return [dict(largest=True, discard=False), dict(largest=True, discard=True), dict(largest=False, discard=True)]

    def bounds(self, tier):
        return "6 FASTQ reads of different lengths (one not listed), 4-column haplotag list over two chromosomes with two equally large phase sets on chr1; --only-largest-block / --discard-unknown-reads combinations, --read-lengths-histogram; solver-chosen haplotype of two reads"

    def _load_world(self):
        from vf.models import io_model

        holder = io_model.Holder()
        m = io_model.build(holder)
        sh = dict(nondet.shadows())
        sh["open"] = m.open
        w = SymWorld(overrides={"xopen": m.xopen_module, "pysam": m.pysam}, shadows=sh, transformer=nondet.transformer)
        w.load("whatshap")
        pkg = types.ModuleType("whatshap.cli")
        pkg.__path__ = [os.path.join(w.repo, "whatshap", "cli")]
        pkg.__package__ = "whatshap.cli"
        w.modules["whatshap.cli"] = pkg
        mod = w.load("whatshap.cli.split")
        mod.detect_file_format = m.detect_file_format
        return dict(mod=mod, holder=holder, io=io_model, world=w)

    def scenario(self, e, shape):
        e.cover("two blocks of one chromosome tie for the largest")
        hap = lambda name: "H2" if e.bit(name) else "H1"
        reads = [("ra", 4), ("rb", 5), ("rc", 6), ("rd", 7), ("re", 8), ("rx", 9)]
        fastq = "".join("@%s\n%s\n+\n%s\n" % (n, "A" * L, "I" * L) for n, L in reads)
        rows = [("ra", "H1", "100", "chr1"), ("rb", hap("hb"), "100", "chr1"), ("rc", "H2", "200", "chr1"), ("rd", hap("hd"), "200", "chr1"), ("re", "H1", "50", "chr2")] + ([("rx", "none", "none", "chr2")] if shape["discard"] else [])
        listing = "#readname\thaplotype\tphaseset\tchromosome\n" + "".join("\t".join(r) + "\n" for r in rows)
        return _Keyed(fastq=fastq, listing=listing)

    def invoke(self, W, sc, shape, res):
        vfs = W["io"].VFS()
        W["holder"].vfs = vfs
        vfs.files["reads.fastq"] = sc.fastq
        vfs.files["list.tsv"] = sc.listing
        try:
            W["mod"].run_split("reads.fastq", "list.tsv", output_h1="h1", output_h2="h2", output_untagged="untagged", only_largest_block=shape["largest"], discard_unknown_reads=shape["discard"], read_lengths_histogram="hist")
        finally:
            for k in self.REAL_FILES:
                res[k] = vfs.files.get(k)

    def real_run(self, shape, sc, tmp, out, seed):
        open(os.path.join(tmp, "reads.fastq"), "w").write(sc.fastq)
        open(os.path.join(tmp, "list.tsv"), "w").write(sc.listing)
        P = lambda n: os.path.join(out, n + (".fastq" if n != "hist" else ""))
        argv = ["split", "--output-h1", P("h1"), "--output-h2", P("h2"), "--output-untagged", P("untagged"), "--read-lengths-histogram", P("hist")]
        if shape["largest"]:
            argv.append("--only-largest-block")
        if shape["discard"]:
            argv.append("--discard-unknown-reads")
        r = _real_cli(argv + [os.path.join(tmp, "reads.fastq"), os.path.join(tmp, "list.tsv")], seed, tmp)
        res = {"<rc>": r.returncode, "<stderr>": r.stderr[-400:] if r.returncode else ""}
        for n in self.REAL_FILES:
            res[n] = open(P(n)).read() if os.path.exists(P(n)) else None
        return res


for _c in (SeedStats(), SeedUnphase(), SeedSplit()):
    SUBCHECKS[_c.name] = _c


# =====================================================================================================================
# repeat: a second run to the same output paths gives the same files (the pre-state of the file system is symbolic)
# =====================================================================================================================
STALE_TEXT = "left over from an earlier run\n"


def _caller_open_mode():
    """how the compiled k-mer caller (src/caller.cpp) opens the file it is told to write to: read from the current source"""
    import re

    src = open(os.path.join(REPO, "src", "caller.cpp")).read()
    modes = set(re.findall(r"writer\.open\(\s*outfile\s*(?:,\s*([^)]*))?\)", src))
    if not modes:
        raise RuntimeError("src/caller.cpp: no writer.open(outfile...) found - the Caller model of the `repeat` sub-check needs updating")
    return "a" if all("ios::app" in (m or "") for m in modes) else "w"


class Repeat(_SmallSeedCheck):
    name = "repeat"
    encoded = ["whatshap.cli.stats.run_stats", "whatshap.cli.phase.run_whatshap (ReadList, write_changed_genotypes, write_recombination_list and the file handling around them)", "whatshap.cli.learn.run_learn"]
    sources = ["whatshap/cli/stats.py", "whatshap/cli/phase.py", "whatshap/cli/learn.py", "src/caller.cpp"]
    stubs = ["as seed_stats / seed_phase for those commands; open() of the command module -> checks/c16.py MemFS (modes r/w/a/x as in Python, truncation at open)",
             "learn: pysam.VariantFile / AlignmentFile and pyfaidx.Fasta are small in-memory stand-ins; whatshap.core.Caller is a model that writes one line per add_read()/final_pop() to the path it is given, "
             "opened in the mode src/caller.cpp uses (re-read from the source on every run: ios::app -> append)",
             "replay: the real CLI is run into a fresh directory and into one whose output paths already hold a file; the resulting files are compared (learn: on tests/data/short-genome/learn-data)"]
    assumptions = ["the earlier run's files are ordinary text files at the output paths given on the command line; nothing else of the environment differs between the two runs",
                   "learn: the first alignment of the BAM is mapped (run_learn raises UnboundLocalError on a BAM without mapped alignments - a crash, the same on every run)"]
    required_cover = ["a pre-existing output file", "no pre-existing file", "stats", "phase", "learn", "learn: alignment skipped", "learn: the caller wrote to the output"]
    replay_every = 1
    FILES = {  # command -> [(name in the stub world, name in the real output directory)]
        "stats": [("tsv", "tsv"), ("bl", "bl"), ("gtf", "gtf")],
        "phase": [("reads.tsv", "reads.tsv"), ("recomb.tsv", "recomb.tsv"), ("gtchanges.tsv", "gtchanges.tsv")],
        "learn": [("kmers.txt", "kmers.txt")],
    }

    def shapes(self, tier):
        out = [dict(cmd="stats", chromosomes=None), dict(cmd="learn", nreads=1), dict(cmd="learn", nreads=2), dict(cmd="phase", fam="trio", nchrom=2, use_ped=False, distrust=True)]
        if tier != "quick":
            out += [dict(cmd="learn", nreads=3), dict(cmd="phase", fam="quartet", nchrom=1, use_ped=False, distrust=False), dict(cmd="stats", chromosomes=["chr2", "chr1"])]
        return out

    def bounds(self, tier):
        return ("stats on the seed_stats input, phase on the seed_phase trio/quartet input with all three list options, learn on 1-3 alignments (solver-chosen: unmapped or not, same or new chromosome); "
                "per output path a solver-chosen pre-state: absent or an existing text file; outputs of the run are compared with those of a run on an empty file system")

    def setup(self):
        _SmallSeedCheck.setup(self)
        self.d = {"stats": SeedStats(), "phase": SeedPhase()}
        for d in self.d.values():
            d.setup()
        self._worlds = {}

    # -- learn world ------------------------------------------------------------------------------------------------
    def _learn_world(self):
        mode = _caller_open_mode()
        holder = types.SimpleNamespace(fs=None, alns=[], wrote=0)

        class Caller:
            def __init__(s, reference, k, window):
                s.ref = reference

            def all_variants(s, variants):
                s.variants = list(variants)

            def _emit(s, outfile, line):
                f = holder.fs.open(outfile.decode("UTF-8"), mode)
                f.write(line)
                f.close()
                holder.wrote += 1

            def add_read(s, pos, cigartuples, query, outfile):
                s._emit(outfile, "%d\t%s\t%d\n" % (pos, query.decode("UTF-8"), len(s.ref)))

            def final_pop(s, outfile):
                s._emit(outfile, "final\n")

        class _Ctx:
            def __enter__(s):
                return s

            def __exit__(s, *a):
                return False

        class VariantFile(_Ctx):
            def __init__(s, path):
                pass

            def fetch(s):
                return iter([types.SimpleNamespace(pos=5, ref="A"), types.SimpleNamespace(pos=9, ref="AC")])

        class AlignmentFile(_Ctx):
            def __init__(s, path, *a, **k):
                pass

            def __iter__(s):
                return iter(holder.alns)

        class Fasta(_Ctx, dict):
            def __init__(s, path, **k):
                dict.__init__(s, {"c1": "ACGTACGTACGT", "c2": "TTTTGGGGCCCC"})

        pysam_stub = types.SimpleNamespace(VariantFile=VariantFile, AlignmentFile=AlignmentFile)
        w = SymWorld(overrides={"pysam": pysam_stub, "pyfaidx": types.SimpleNamespace(Fasta=Fasta), "whatshap.core": types.SimpleNamespace(Caller=Caller), "whatshap.cli": types.ModuleType("whatshap.cli")})
        return dict(mod=w.load("whatshap.cli.learn"), holder=holder, world=w)

    def _world_of(self, cmd):
        if cmd not in self._worlds:
            self._worlds[cmd] = self._learn_world() if cmd == "learn" else self.d[cmd]._load_world()
        return self._worlds[cmd]

    # -- one run under the stubs -------------------------------------------------------------------------------------
    def _run(self, e, shape, sc, pre):
        cmd = shape["cmd"]
        W = self._world_of(cmd)
        MemFS.PRE = dict(pre)
        res, exc = {}, None
        try:
            if cmd == "learn":
                fs = MemFS()
                h = W["holder"]
                h.fs, h.alns, h.wrote = fs, sc.alns, 0
                W["mod"].open = fs.open
                try:
                    W["mod"].run_learn(reference="ref.fa", bam="in.bam", vcf="in.vcf", k=3, window=1, output="kmers.txt")
                finally:
                    res.update(fs.files)
                    res["<caller writes>"] = h.wrote
            else:
                d = self.d[cmd]
                d.prepare(W, sc)
                d.invoke(W, sc, shape, res)
        except Exception as ex:
            exc = "%s: %s" % (type(ex).__name__, ex)
        finally:
            MemFS.PRE = {}
        res["<exception>"] = exc
        return res

    def scenario(self, e, shape):
        cmd = shape["cmd"]
        if cmd == "stats":
            return self.d["stats"].scenario(e, shape)
        if cmd == "phase":
            return PedScenario(e, shape)
        alns, chrom = [], "c1"
        for i in range(shape["nreads"]):
            unmapped = bool(e.bit("unmapped%d" % i)) if i else False  # a BAM without any mapped alignment makes run_learn fail (no Caller is ever built); not a matter of C16
            if i and e.bit("newchrom%d" % i):
                chrom = "c2"
            seq = "ACGT"[i % 4] * 4
            alns.append(types.SimpleNamespace(is_unmapped=unmapped, query_alignment_sequence=seq, reference_name=chrom, pos=2 + i, cigartuples=[(0, 4)]))
            if unmapped:
                e.cover("learn: alignment skipped")
        return types.SimpleNamespace(alns=alns, key=lambda: repr([(a.is_unmapped, a.reference_name, a.pos) for a in alns]))

    def harness(self, e, shape, impl):
        cmd = shape["cmd"]
        e.cover(cmd)
        sc = self.scenario(e, shape)
        pre = {}
        for name, _ in self.FILES[cmd]:
            if e.bit("preexisting_%s" % name):
                pre[name] = STALE_TEXT
        e.cover("a pre-existing output file" if pre else "no pre-existing file")
        if impl == "real":
            return self.real_pair(e, shape, sc, pre)
        fresh = self._run(e, shape, sc, {})
        again = self._run(e, shape, sc, pre)
        if cmd == "learn" and fresh.get("<caller writes>"):
            e.cover("learn: the caller wrote to the output")
        e.check(fresh["<exception>"] is None, "the command raised under the stubs: %s" % fresh["<exception>"], lambda: dict(file="<exception>"))
        for k in sorted(set(fresh) | set(again)):
            e.check(fresh.get(k) == again.get(k), "output %s depends on what its path held before the run: repeating the command does not reproduce the result" % k,
                    lambda k=k: dict(file=k, command=cmd, preexisting=sorted(pre), fresh=str(fresh.get(k))[-400:], repeated=str(again.get(k))[-400:]))

    # -- the real CLI --------------------------------------------------------------------------------------------------
    def real_pair(self, e, shape, sc, pre):
        cmd = shape["cmd"]
        key = repr(sorted(shape.items(), key=str)) + sc.key() + repr(sorted(pre))
        if cmd == "learn":
            key = "learn" + repr(sorted(pre))  # the real run uses the repository's test data, whatever the stub world's alignments
        if key not in self._real_cache:
            tmp = tempfile.mkdtemp(prefix="c16-repeat-", dir="/var/tmp")
            try:
                results = []
                for tag, files in (("fresh", {}), ("again", pre)):
                    out = os.path.join(tmp, tag)
                    os.makedirs(out)
                    real_names = dict(self.FILES[cmd])
                    for name in files:
                        open(os.path.join(out, real_names[name]), "w").write(STALE_TEXT)
                    if cmd == "stats":
                        r = self.d["stats"].real_run(shape, sc, tmp, out, "0")
                    elif cmd == "phase":
                        d = self.d["phase"]
                        if tag == "fresh":
                            paths = sc.write_real_files(tmp)
                        rr = _real_cli(d.real_argv(shape, sc, paths[0], paths[1], paths[2], out), "0", tmp)
                        r = {"<rc>": rr.returncode, "<stderr>": rr.stderr[-400:] if rr.returncode else ""}
                        for f in sorted(os.listdir(out)):
                            r[f] = _strip_cmdline(open(os.path.join(out, f)).read())
                    else:
                        data = os.path.join(REPO, "tests", "data", "short-genome", "learn-data")
                        rr = _real_cli(["learn", "--reference", os.path.join(data, "short_ref.fasta"), "-o", os.path.join(out, "kmers.txt"), os.path.join(data, "short-reads.bam"), os.path.join(data, "variant.vcf")], "0", tmp)
                        r = {"<rc>": rr.returncode, "<stderr>": rr.stderr[-400:] if rr.returncode else ""}
                        for f in sorted(os.listdir(out)):
                            r[f] = open(os.path.join(out, f)).read()
                    results.append({k: (v.replace(out, "OUT") if isinstance(v, str) else v) for k, v in r.items()})
                self._real_cache[key] = results
            finally:
                shutil.rmtree(tmp, ignore_errors=True)
        fresh, again = self._real_cache[key]
        e.check(fresh["<rc>"] == 0, "the real command failed on the materialised input: %s" % fresh.get("<stderr>"), None)
        for k in sorted(set(fresh) | set(again)):
            if k in ("<stderr>",):
                continue
            e.check(fresh.get(k) == again.get(k), "output %s depends on what its path held before the run: repeating the command does not reproduce the result" % k, None)

    def classify(self, shape, v):
        return "repeat:%s:%s" % (shape["cmd"], (v.get("info") or {}).get("file", v["msg"]))


SUBCHECKS["repeat"] = Repeat()


# =====================================================================================================================
# polyphase_threads: the DATA FLOW of the worker branch of solve_polyphase_instance equals the sequential branch
# =====================================================================================================================
class PolyphaseThreads(SubCheck):
    """`whatshap polyphase --threads N`: blocks are handed to a process pool largest first and the block results are put back
    into genomic order before they are aggregated.  What a symbolic executor can decide about this is the data flow: with the
    pool replaced by a synchronous stand-in (every job runs when submitted; results are fetched through their handles) the
    aggregated result for threads = 2, 3 must be the one of threads = 1 - for solver-chosen block layouts and block results.
    Which worker finishes first is not modelled (not applicable, see DESIGN 9.7)."""

    name = "polyphase_threads"
    encoded = ["whatshap.polyphase.algorithm.solve_polyphase_instance (both branches)", "phase_single_block_mt", "aggregate_results"]
    sources = ["whatshap/polyphase/algorithm.py", "whatshap/polyphase/__init__.py"]
    stubs = ["multiprocessing.Pool -> synchronous stand-in (apply_async runs the job at once and returns a handle with get())", "compute_block_starts -> solver-chosen block layout",
             "phase_single_block -> contract stub: the block's result (clusters, threads, haplotypes, breakpoints) is a function of the block's interval and of solver-chosen bits; AlleleMatrix -> interval token",
             "replay: the real module with the same stand-ins patched in (real PolyphaseBlockResult / PhaseBreakpoint classes)"]
    assumptions = ["a block's result depends on the block only (phase_single_block reads nothing else) and worker processes return what they computed; order of completion is irrelevant to the code as written because results are collected through their handles"]
    required_cover = ["a later block is larger than an earlier one", "singleton block", "three blocks", "block with a breakpoint"]

    def shapes(self, tier):
        lay = [[2, 3], [3, 2], [1, 2, 3], [2, 1, 3], [1, 3, 2], [2, 2], [1, 1, 2]]
        if tier != "quick":
            lay += [[1, 2, 3, 4], [4, 1, 3, 2], [3, 3, 1, 2], [2, 4, 3]]
        return [dict(sizes=s, threads=t) for s in lay for t in (2, 3)]

    def bounds(self, tier):
        return "block layouts %s (variants per block, genomic order), ploidy 2-3 (solver-chosen), threads 2 and 3 against 1; per block solver-chosen haplotype alleles, one optional breakpoint, cluster ids" % sorted({tuple(s["sizes"]) for s in self.shapes(tier)})

    def setup(self):
        from vf import build
        from vf.models import core_model

        build.prepare_repo()
        import whatshap.align, whatshap._variants, whatshap.readselect, whatshap.priorityqueue, whatshap.polyphase.solver  # noqa: E401
        import whatshap.polyphase.algorithm as r_alg
        import whatshap.polyphase as r_pp

        ov = {"whatshap.core": core_model, "whatshap.polyphase.solver": sys.modules["whatshap.polyphase.solver"]}
        for n in ("align", "_variants", "readselect", "priorityqueue"):
            ov["whatshap." + n] = sys.modules["whatshap." + n]
        w = SymWorld(overrides=ov)
        self._sym = (w.load("whatshap.polyphase.algorithm"), w.load("whatshap.polyphase"))
        self._real = (r_alg, r_pp)

    def sym_impl(self):
        return self._sym

    def real_impl(self):
        return self._real

    def harness(self, e, shape, impl):
        alg, pp = impl
        sizes = shape["sizes"]
        starts = [sum(sizes[:i]) for i in range(len(sizes))]
        nvar = sum(sizes)
        ploidy = e.choice("ploidy", [2, 3])
        if any(b > a for a, b in zip(sizes, sizes[1:])):
            e.cover("a later block is larger than an earlier one")
        if 1 in sizes:
            e.cover("singleton block")
        if len(sizes) >= 3:
            e.cover("three blocks")
        # contract stub of the per-block solver: a function of the interval
        bits = {}
        for bi, (st, n) in enumerate(zip(starts, sizes)):
            flip = e.bit("h_%d" % bi)  # the block's haplotypes: a pattern that identifies the block, solver-chosen polarity
            bits[st] = dict(hap=[[(st + k + p + flip) % 2 for k in range(n)] for p in range(ploidy)], bp=(e.bit("bp_%d" % bi) if n >= 2 else 0), nclust=1 + (e.bit("cl_%d" % bi) if n >= 2 else 0))
            if bits[st]["bp"]:
                e.cover("block with a breakpoint")

        class Matrix:
            def __init__(s, lo, hi):
                s.lo, s.hi = lo, hi

            def getPositions(s):
                return list(range(s.lo, s.hi))

            def getNumPositions(s):
                return s.hi - s.lo

            def __len__(s):
                return 3

            def extractInterval(s, a, b):
                return Matrix(s.lo + a, s.lo + b)

        def block_solver(block_id, submatrix, genotypes, prephasing, param, timers, quiet=False):
            b = bits[submatrix.lo]
            n = submatrix.hi - submatrix.lo
            clustering = [[submatrix.lo * 10 + c] for c in range(b["nclust"])]
            threads = [[(k + p) % b["nclust"] for p in range(ploidy)] for k in range(n)]
            bps = [pp.PhaseBreakpoint(1, [0, 1], -1.0)] if b["bp"] else []
            return pp.PolyphaseBlockResult(block_id, clustering, threads, [list(h) for h in b["hap"]], bps)

        class Handle:
            def __init__(s, v):
                s.v = v

            def get(s, timeout=None):
                return s.v

        class Pool:
            def __init__(s, processes=None, *a, **k):
                pass

            def __enter__(s):
                return s

            def __exit__(s, *a):
                return False

            def apply_async(s, fn, args=(), kwds=None):
                return Handle(fn(*args, **(kwds or {})))

        class Timers:
            def start(s, n):
                pass

            def stop(s, n):
                pass

        saved = {k: alg.__dict__.get(k) for k in ("compute_block_starts", "phase_single_block", "Pool")}
        alg.compute_block_starts = lambda am, pl, single_linkage=False: list(starts)
        alg.phase_single_block = block_solver
        alg.Pool = Pool
        genotypes = [{0: 1, 1: ploidy - 1} for _ in range(nvar)]
        try:
            def run(threads):
                param = pp.PolyphaseParameter(ploidy=ploidy, ce_bundle_edges=False, distrust_genotypes=False, min_overlap=2, block_cut_sensitivity=4, plot_clusters=False, plot_threading=False, threads=threads, use_prephasing=False)
                r = alg.solve_polyphase_instance(Matrix(0, nvar), genotypes, param, Timers(), None, quiet=True)
                return dict(clustering=r.clustering, threads=r.threads, haplotypes=r.haplotypes, breakpoints=[(b.position, list(b.haplotypes), b.confidence) for b in r.breakpoints])

            seq = run(1)
            par = run(shape["threads"])
        finally:
            for k, v in saved.items():
                alg.__dict__[k] = v
        e.out("sequential", seq)
        e.out("parallel", par)
        # the sequential result is what the statement's "same result" refers to; sanity: it is the blocks in genomic order
        want_h = [sum((bits[st]["hap"][p] for st in starts), []) for p in range(ploidy)]
        info = lambda: dict(block_sizes=sizes, ploidy=ploidy, threads=shape["threads"], sequential=e.value(seq), with_workers=e.value(par))
        e.check(seq["haplotypes"] == want_h, "threads=1: the aggregated haplotypes are not the block results in genomic order", info)
        for k in ("haplotypes", "breakpoints", "threads", "clustering"):
            e.check(seq[k] == par[k], "polyphase: %s differ between --threads 1 and --threads %d (block results put together in another order)" % (k, shape["threads"]), info)

    def classify(self, shape, v):
        return "polyphase_threads:%s" % v["msg"][:70]


SUBCHECKS["polyphase_threads"] = PolyphaseThreads()
