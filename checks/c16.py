"""C16 - results depend on the input only (hash seed, repetition).

seed_compare / seed_phase (PySym): the interpreter's hash seed becomes a symbolic
variable - inside the repo modules every iteration over a set of strings (or of
objects hashed through strings) yields a solver-chosen order.  The command-level
function is run once with the canonical order and once with the solver's order;
everything it writes must be identical.  A reported difference is confirmed by
running the real CLI under different PYTHONHASHSEED values.

Not applicable (stated in DESIGN.md): --threads of polyphase and --output-threads
(no interleaving of OS threads / processes is visible to a symbolic executor of
the Python/C++ source).
"""
import io
import os
import shutil
import subprocess
import sys
import tempfile
import types
import contextlib

from vf.runner import SubCheck, REPO
from vf.pysym.loader import SymWorld
from vf.pysym import nondet

PROPERTY = "C16"

VCF_HEADER = """##fileformat=VCFv4.2
##contig=<ID=chr1,length=10000>
##contig=<ID=chr2,length=10000>
##FORMAT=<ID=GT,Number=1,Type=String,Description="Genotype">
##FORMAT=<ID=PS,Number=1,Type=Integer,Description="Phase set">
#CHROM\tPOS\tID\tREF\tALT\tQUAL\tFILTER\tINFO\tFORMAT\t%s
"""


def vcf_text(sample, phases):
    """phases: list of (chrom, pos, gt-string)"""
    out = VCF_HEADER % sample
    for chrom, pos, gt in phases:
        out += "%s\t%d\t.\tA\tC\t.\tPASS\t.\tGT:PS\t%s:%d\n" % (chrom, pos, gt, 100)
    return out


class MemFS:
    def __init__(self):
        self.files = {}

    def open(self, path, mode="r", *a, **k):
        fs = self

        class F(io.StringIO):
            def close(s):
                fs.files[str(path)] = s.getvalue()
                io.StringIO.close(s)

            def __exit__(s, *x):
                s.close()

        return F()


class SeedCompare(SubCheck):
    name = "seed_compare"
    encoded = ["whatshap.cli.compare.run_compare", "get_sample_names", "get_common_chromosomes", "get_variant_tables", "compare", "compare_pair", "compare_multiway", "whatshap.vcf.VariantTable"]
    sources = ["whatshap/cli/compare.py", "whatshap/vcf.py"]
    stubs = ["VcfReader replaced by a stub yielding VariantTables built by the harness (symbolic run); the replay runs the real `python -m whatshap compare` on VCF files under several PYTHONHASHSEED values", "built-in set/frozenset replaced by vf/pysym/nondet.py inside the repo modules: iteration order of sets holding strings (or VcfVariants, which hash through their allele strings) is chosen by the solver", "whatshap.core.Genotype model; polyploid SwitchFlipCalculator not reached (ploidy 2)"]
    assumptions = ["the solver-chosen orders over-approximate what hash randomisation can produce; a difference is reported only when two real PYTHONHASHSEED values reproduce it"]
    replay_every = 8  # a replay is 4 runs of the real CLI (one per hash seed); violations are always replayed
    required_cover = ["three files", "ignore sample name with different names", "sets of hash-randomised elements are built inside the command"]

    def shapes(self, tier):
        out = []
        for nfiles in (2, 3):
            for ignore in (False, True):
                for names in (["alpha", "alpha", "alpha"], ["alpha", "beta", "gamma"], ["alpha", "beta", "alpha"]):
                    if not ignore and len(set(names[:nfiles])) > 1:
                        continue
                    out.append(dict(nfiles=nfiles, ignore=ignore, names=names[:nfiles], nchrom=1, nvar=2 if tier == "quick" else 3))
        if tier != "quick":
            out.append(dict(nfiles=2, ignore=False, names=["alpha", "alpha"], nchrom=2, nvar=2))
        return out

    def bounds(self, tier):
        return "2-3 single-sample VCFs, sample names equal / all different / two equal, --ignore-sample-name on/off, %d chromosome(s), 2 (thorough: 3) phased het variants each with solver-chosen phase bits; every iteration over a set of <= 3 strings / variants in a solver-chosen order; outputs compared: --tsv-pairwise, --tsv-multiway, --switch-error-bed, --longest-block-tsv, stdout" % (1 if tier == "quick" else 2)

    def setup(self):
        from vf.models import core_model

        self.core_model = core_model

    def sym_impl(self):
        return "sym"

    def real_impl(self):
        return "real"

    def scenario(self, e, shape):
        chroms = ["chr1", "chr2"][: shape["nchrom"]]
        files = []
        for i in range(shape["nfiles"]):
            rows = []
            for c in chroms:
                for k, pos in enumerate((100, 200, 300)[: shape.get("nvar", 3)]):
                    bit = e.bit("ph_%d_%s_%d" % (i, c, k)) if (i > 0 and k > 0) else 0
                    rows.append((c, pos, "0|1" if bit == 0 else "1|0"))
            files.append(rows)
        return chroms, files

    def harness(self, e, shape, impl):
        chroms, files = self.scenario(e, shape)
        if shape["nfiles"] == 3:
            e.cover("three files")
        if shape["ignore"] and len(set(shape["names"])) > 1:
            e.cover("ignore sample name with different names")
        if impl == "real":
            return self.run_real(e, shape, files)
        core = self.core_model
        if not hasattr(self, "_world"):
            solver_modname = "whatshap.polyphase.solver"
            w = SymWorld(overrides={"whatshap.core": core, solver_modname: types.SimpleNamespace(SwitchFlipCalculator=None), "whatshap.cli": self._climod()}, shadows=nondet.shadows(), transformer=nondet.transformer)
            self._world = (w.load("whatshap.cli.compare"), w.load("whatshap.vcf"))
        cmp_mod, vcf = self._world
        iterated = [0]

        def run(order_hook):
            fs = MemFS()
            cmp_mod.__dict__["__builtins__"]["open"] = fs.open
            tables = []
            for i, rows in enumerate(files):
                per = {}
                for c in chroms:
                    vt = vcf.VariantTable(c, [shape["names"][i]])
                    for (cc, pos, gt) in rows:
                        if cc != c:
                            continue
                        ph = vcf.VariantCallPhase(block_id=100, phase=tuple(int(x) for x in gt.split("|")), quality=None)
                        vt.add_variant(vcf.BiallelicVcfVariant(pos - 1, "A", "C"), [core.Genotype([0, 1])], [ph], [None], [None])
                    per[c] = vt
                tables.append(per)

            class Reader:
                def __init__(s, path, **k):
                    s.path = path
                    s.idx = int(path[1])
                    s.samples = [shape["names"][s.idx]]

                def __iter__(s):
                    return iter([tables[s.idx][c] for c in chroms])

            cmp_mod.VcfReader = Reader
            nondet.ORDER_HOOK = order_hook
            buf = io.StringIO()
            exc = None
            try:
                with contextlib.redirect_stdout(buf):
                    cmp_mod.run_compare(["f%d.vcf" % i for i in range(len(files))], 2, ignore_sample_name=shape["ignore"], tsv_pairwise="pair.tsv", tsv_multiway="multi.tsv" if len(files) > 2 else None, switch_error_bed="sw.bed", longest_block_tsv="lb.tsv")
            except Exception as ex:  # an input the command rejects/crashes on: the *same* outcome is required for every order
                exc = type(ex).__name__
            finally:
                nondet.ORDER_HOOK = None
            fs.files["<stdout>"] = buf.getvalue()
            fs.files["<exception>"] = exc
            return fs.files

        nondet.EXTRA_SENSITIVE[:] = [lambda x: hasattr(x, "reference_allele")]  # VcfVariant hashes through its allele strings
        nondet.BUILT[0] = 0
        base = run(None)
        if nondet.BUILT[0]:
            e.cover("sets of hash-randomised elements are built inside the command")
        counter = [0]

        def hook(items):
            counter[0] += 1
            iterated[0] += 1
            p = e.perm("ord%d" % counter[0], len(items))
            return [items[i] for i in p]

        other = run(hook)
        if iterated[0]:
            e.cover("a set was iterated in a solver-chosen order")
        for k in sorted(base):
            e.check(base[k] == other.get(k), "output %s depends on the iteration order of a set (hash seed)" % k, lambda k=k: dict(file=k, canonical=base[k][-400:], other=(other.get(k) or "")[-400:]))

    @staticmethod
    def _climod():
        m = types.ModuleType("whatshap.cli")
        m.__path__ = []
        m.CommandLineError = type("CommandLineError", (Exception,), {})
        return m

    def run_real(self, e, shape, files):
        tmp = tempfile.mkdtemp(prefix="c16-", dir="/var/tmp")
        try:
            paths = []
            for i, rows in enumerate(files):
                p = os.path.join(tmp, "f%d.vcf" % i)
                open(p, "w").write(vcf_text(shape["names"][i], rows))
                paths.append(p)
            results = []
            for seed in ("0", "1", "2", "3"):
                out = os.path.join(tmp, "out%s" % seed)
                os.makedirs(out)
                cmd = [sys.executable, "-m", "whatshap", "compare", "--tsv-pairwise", os.path.join(out, "pair.tsv"), "--switch-error-bed", os.path.join(out, "sw.bed"), "--longest-block-tsv", os.path.join(out, "lb.tsv")]
                if len(files) > 2:
                    cmd += ["--tsv-multiway", os.path.join(out, "multi.tsv")]
                if shape["ignore"]:
                    cmd += ["--ignore-sample-name"]
                cmd += paths
                env = dict(os.environ, PYTHONHASHSEED=seed, PYTHONPATH=REPO + os.pathsep + os.environ.get("PYTHONPATH", ""))
                r = subprocess.run(cmd, stdout=subprocess.PIPE, stderr=subprocess.PIPE, text=True, env=env, cwd=tmp)
                res = {"<stdout>": r.stdout.replace(out, "OUT"), "<rc>": r.returncode}
                for f in sorted(os.listdir(out)):
                    res[f] = open(os.path.join(out, f)).read()
                results.append(res)
            for r in results[1:]:
                for k in results[0]:
                    e.check(results[0][k] == r.get(k), "output %s depends on the iteration order of a set (hash seed)" % k, None)
        finally:
            shutil.rmtree(tmp, ignore_errors=True)

    def classify(self, shape, v):
        m = v["msg"]
        if "multi.tsv" in m and shape["ignore"] and len(set(shape["names"])) > 1:
            return "seed_compare:multiway-sample-column-joined-from-a-set:ignore_sample_name"
        return "seed_compare:%s:names=%s" % (m, ",".join(shape["names"]))


SUBCHECKS = {c.name: c for c in [SeedCompare()]}


class SeedPolyphase(SubCheck):
    """run_polyphase's per-chromosome / per-sample orchestration under stubs, with the iteration order of
    frozenset(samples) (and of every other set of strings) chosen by the solver."""

    name = "seed_polyphase"
    encoded = ["whatshap.cli.polyphase.run_polyphase (sample loop, variant-table filtering, result collection)", "whatshap.vcf.VariantTable.remove_rows_by_index / subset_rows_by_position / genotypes_of"]
    sources = ["whatshap/cli/polyphase.py", "whatshap/vcf.py"]
    stubs = ["PhasedInputReader.read returns one read over all offered variants", "phase_single_individual replaced by a deterministic function of (sample, variants offered) - the clustering/threading heuristics are not applicable (DESIGN C15)", "VcfReader yields a harness-built table, PhasedVcfWriter records what it is given", "set/frozenset -> vf/pysym/nondet.py", "replay: the real `whatshap polyphase` on tests/data/polyploid.multisample.chr22.42M.5k.vcf + two BAMs under 4 PYTHONHASHSEED values"]
    assumptions = ["as seed_compare"]
    required_cover = ["two samples with different heterozygous sets", "sample set iterated in a solver-chosen order"]
    replay_every = 1000

    def shapes(self, tier):
        return [dict(nsamples=2, nvar=3), dict(nsamples=3, nvar=3)] if tier == "quick" else [dict(nsamples=2, nvar=3), dict(nsamples=3, nvar=3), dict(nsamples=3, nvar=4)]

    def bounds(self, tier):
        return "2-3 samples, 3 (thorough: 4) variants with solver-chosen het/hom genotype per sample and variant, one chromosome; every iteration over a set of sample names in a solver-chosen order"

    def setup(self):
        from vf.models import core_model

        self.core_model = core_model

    def sym_impl(self):
        return "sym"

    def real_impl(self):
        return "real"

    def harness(self, e, shape, impl):
        names = ["sA", "sB", "sC"][: shape["nsamples"]]
        nvar = shape["nvar"]
        het = {s: [e.bit("het_%s_%d" % (s, v)) for v in range(nvar)] for s in names}
        if len({tuple(h) for h in het.values()}) > 1:
            e.cover("two samples with different heterozygous sets")
        if impl == "real":
            return self.run_real(e)
        core = self.core_model
        if not hasattr(self, "_world"):
            self._world = self._load_world(core)
        mod, vcf = self._world
        return self._run_sym(e, shape, names, nvar, het, core, mod, vcf)

    def _load_world(self, core):
        climod = types.ModuleType("whatshap.cli")
        climod.__path__ = []
        climod.CommandLineError = type("CommandLineError", (Exception,), {})
        climod.log_memory_usage = lambda *a, **k: None
        climod.PhasedInputReader = None
        pp = types.ModuleType("whatshap.polyphase")
        pp.__path__ = []
        pp.PolyphaseParameter = lambda **k: types.SimpleNamespace(**k)
        pp.create_genotype_list = pp.extract_partial_phasing = None
        stubmod = lambda **k: types.SimpleNamespace(**k)
        w = SymWorld(
            overrides={"whatshap.core": core, "whatshap.cli": climod, "whatshap.polyphase": pp, "whatshap.polyphase.algorithm": stubmod(solve_polyphase_instance=None, compute_cut_positions=None), "whatshap.polyphase.plots": stubmod(draw_plots=None), "whatshap.polyphase.solver": stubmod(AlleleMatrix=None)},
            shadows=nondet.shadows(),
            transformer=nondet.transformer,
        )
        return w.load("whatshap.cli.polyphase"), w.load("whatshap.vcf")

    def _run_sym(self, e, shape, names, nvar, het, core, mod, vcf):
        def run(hook):
            written = []
            vt = vcf.VariantTable("chr1", names)
            for v in range(nvar):
                vt.add_variant(vcf.BiallelicVcfVariant(100 * (v + 1), "A", "C"), [core.Genotype([0, 1] if het[s][v] else [0, 0]) for s in names], [None] * len(names), [None] * len(names), [None] * len(names))

            class Reader:
                def __init__(s, *a, **k):
                    s.samples = list(names)

                def __enter__(s):
                    return s

                def __exit__(s, *a):
                    return None

                def __iter__(s):
                    return iter([vt])

            class Writer:
                def __init__(s, *a, **k):
                    pass

                def __enter__(s):
                    return s

                def __exit__(s, *a):
                    return None

                def write(s, chromosome, superreads, components, haploid=None):
                    written.append((chromosome, sorted((k, v) for k, v in superreads.items()), sorted((k, sorted(v.items())) for k, v in components.items())))

            class Input:
                has_vcfs = False

                def __init__(s, paths, ref, nsi, *a, **k):
                    s.nsi = nsi

                def __enter__(s):
                    return s

                def __exit__(s, *a):
                    return None

                def read(s, chromosome, variants, sample):
                    rs = core.ReadSet()
                    r = core.Read("r_" + sample, 50, 0, s.nsi[sample])
                    for vv in variants:
                        r.add_variant(vv.position, 0, 10)
                    rs.add(r)
                    return rs, set()

            def phase_single(readset, table, sample, param, output, timers):
                pos = [v.position for v in table.variants]
                return {p: pos[0] for p in pos}, {}, tuple(pos)

            mod.VcfReader, mod.PhasedVcfWriter, mod.PhasedInputReader, mod.phase_single_individual = Reader, Writer, Input, phase_single
            nondet.ORDER_HOOK = hook
            try:
                mod.run_polyphase(["x.bam"], "in.vcf", 2, output=io.StringIO(), write_command_line_header=False)
            finally:
                nondet.ORDER_HOOK = None
            return written

        base = run(None)
        cnt = [0]

        def hook(items):
            cnt[0] += 1
            return [items[i] for i in e.perm("ord%d" % cnt[0], len(items))]

        other = run(hook)
        if cnt[0]:
            e.cover("sample set iterated in a solver-chosen order")
        e.check(base == other, "what polyphase writes depends on the iteration order of the sample set (hash seed)", lambda: dict(canonical=str(base)[:500], other=str(other)[:500]))

    def run_real(self, e):
        data = os.path.join(REPO, "tests", "data")
        vcf_in = os.path.join(data, "polyploid.multisample.chr22.42M.5k.vcf")
        bams = [os.path.join(data, "polyploid.human1.chr22.42M.5k.bam"), os.path.join(data, "polyploid.human2.chr22.42M.5k.bam")]
        if not (os.path.exists(vcf_in) and all(os.path.exists(b) for b in bams)):
            return
        tmp = tempfile.mkdtemp(prefix="c16p-", dir="/var/tmp")
        try:
            outs = []
            for seed in ("0", "1", "2", "3"):
                out = os.path.join(tmp, "o%s.vcf" % seed)
                env = dict(os.environ, PYTHONHASHSEED=seed, PYTHONPATH=REPO + os.pathsep + os.environ.get("PYTHONPATH", ""))
                r = subprocess.run([sys.executable, "-m", "whatshap", "polyphase", "--ploidy", "2", "-o", out, vcf_in] + bams, stdout=subprocess.PIPE, stderr=subprocess.PIPE, text=True, env=env, cwd=tmp)
                txt = "".join(l for l in open(out) if not l.startswith("##commandline")) if os.path.exists(out) else "rc=%d" % r.returncode
                outs.append(txt)
            for o in outs[1:]:
                e.check(o == outs[0], "what polyphase writes depends on the iteration order of the sample set (hash seed)", None)
        finally:
            shutil.rmtree(tmp, ignore_errors=True)

    def classify(self, shape, v):
        return "seed_polyphase:%s" % v["msg"]


SUBCHECKS["seed_polyphase"] = SeedPolyphase()
