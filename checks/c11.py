"""C11 - `whatshap compare` reports the defined error counts, independent of haplotype labelling (diploid).

`whatshap.cli.compare.compare` (and through it collect_common_variants, compare_pair, compare_block,
compute_switch_flips, switch_encoding, hamming, complement, compute_matching_genotype_pos, BedCreator.records,
compute_block_stats, compare_multiway) is executed by PySym on VariantTable objects built from solver-chosen
inputs: per common variant and file the haplotype-0 allele (haplotype 1 complementary), the phase set the variant
belongs to (or unphased), optionally variants that are homozygous in / absent from one file, optionally symbolic
positions.  Every path is replayed on the real whatshap.cli.compare with the compiled whatshap.core.Genotype.

Oracle (definitions of the statement, written on allele lists, independent of the string code under test):
  per intersection block (variants jointly phased, same pair/triple of phase sets, >= 2 variants)
    switch errors   = min over the two haplotype correspondences of the Hamming distance of the switch encodings
    Hamming         = min over the two correspondences of the allele-wise distance
    switch/flip     = maximal runs of L consecutive switch-error positions give L//2 flips and L%2 switches
    diff. genotypes = positions whose allele multisets differ
  totals = sums over blocks; switches = s + 2 f; all zero for identical inputs; unchanged when the two haplotypes of
  any one phase set are swapped in either file; BED records = switch-error positions; the longest-block agreement
  vector has as many 0 entries as the reported Hamming distance of that block.
  multiway: histogram of the bipartitions {says switch | says no switch} over all assessed pairs of adjacent variants.

Ploidy > 2 is NOT APPLICABLE (DESIGN 4/C11): SwitchFlipCalculator is a C++ DP over permutations with double scores.
"""
import contextlib
import io
import itertools
from fractions import Fraction

from vf.runner import SubCheck
from vf.pysym.loader import SymWorld

PROPERTY = "C11"
SAMPLE = "s"
BLOCK_IDS = [101, 57]  # numeric value of the phase-set ids (first used, second used)
INT_FIELDS = [
    "intersection_blocks", "covered_variants", "all_assessed_pairs", "all_switches", "blockwise_hamming", "blockwise_diff_genotypes",
    "largestblock_assessed_pairs", "largestblock_switches", "largestblock_hamming", "largestblock_diff_genotypes",
]


# ----------------------------------------------------------------------------
# oracle (plain integers, no strings)
# ----------------------------------------------------------------------------
def _sw(h):
    return [0 if h[i] == h[i + 1] else 1 for i in range(len(h) - 1)]


def _dist(a, b):
    return sum(1 for x, y in zip(a, b) if x != y)


def block_oracle(P0, P1):
    """P0, P1: phase tuples (a, b) per variant of one intersection block."""
    haps0 = [[p[j] for p in P0] for j in (0, 1)]
    haps1 = [[p[j] for p in P1] for j in (0, 1)]
    corr = list(itertools.permutations((0, 1)))
    switches = min(Fraction(sum(_dist(_sw(haps0[j]), _sw(haps1[pi[j]])) for j in (0, 1)), 2) for pi in corr)
    ham = min(Fraction(sum(_dist(haps0[j], haps1[pi[j]]) for j in (0, 1)), 2) for pi in corr)
    err = [x != y for x, y in zip(_sw(haps0[0]), _sw(haps1[0]))]  # haplotypes complementary: same for every correspondence
    s = f = run = 0
    for k, bad in enumerate(err + [False]):
        if bad:
            run += 1
        else:
            f += run // 2
            s += run % 2
            run = 0
    diff = sum(1 for p, q in zip(P0, P1) if sorted(p) != sorted(q))
    return dict(switches=switches, hamming=ham, sf=(s, f), diff=diff, err=err)


def joint_blocks(phases):
    """phases[f][i] = (block id, (a, b)) or None, over the common variants in position order.
    Returns the intersection blocks (index lists, first-appearance order)."""
    blocks = {}
    n = len(phases[0])
    for i in range(n):
        if any(ph[i] is None for ph in phases):
            continue
        blocks.setdefault(tuple(ph[i][0] for ph in phases), []).append(i)
    return list(blocks.values())


# ----------------------------------------------------------------------------
# adapters: the same construction for the symbolic world and the real build
# ----------------------------------------------------------------------------
class Impl:
    def __init__(self, cmp_mod, vcf_mod, genotype_cls):
        self.cmp, self.vcf, self.Genotype = cmp_mod, vcf_mod, genotype_cls
        self.multiallelic = False

    def table(self, rows):
        """rows: (position, genotype alleles, None | (block id, (a, b)))"""
        vt = self.vcf.VariantTable("chr1", [SAMPLE])
        for pos, gt, ph in rows:
            phase = None if ph is None else self.vcf.VariantCallPhase(block_id=ph[0], phase=tuple(ph[1]), quality=None)
            if self.multiallelic:  # what VcfReader(mav=True) builds for a record with two ALT alleles
                variant = self.vcf.MultiallelicVcfVariant(pos, "A", ("C", "G"))
            else:
                variant = self.vcf.BiallelicVcfVariant(pos, "A", "C")
            vt.add_variant(variant, [self.Genotype(list(gt))], [phase], [None], [None])
        return vt

    def compare(self, tables, names):
        with contextlib.redirect_stdout(io.StringIO()):
            return self.cmp.compare(tables, [SAMPLE] * len(tables), names, 2)


def _rg(n, allow_none, k=2):
    """restricted-growth label sequences over {None, 0..k-1}: a new label is always the smallest unused one"""
    out = []

    def rec(seq, used):
        if len(seq) == n:
            out.append(list(seq))
            return
        opts = ([None] if allow_none else []) + list(range(min(used + 1, k)))
        for o in opts:
            rec(seq + [o], used if o is None else max(used, o + 1))

    rec([], 0)
    return out


class _Base(SubCheck):
    encoded = [
        "whatshap.cli.compare.compare", "collect_common_variants", "compare_pair", "compare_block", "compute_switch_flips", "switch_encoding", "hamming", "complement",
        "compute_matching_genotype_pos", "BedCreator.records", "compute_block_stats", "compare_multiway", "PhasingErrors.__iadd__", "SwitchFlips.__iadd__",
        "whatshap.vcf.VariantTable", "VariantCallPhase", "BiallelicVcfVariant.{__hash__,__eq__,__lt__}",
    ]
    sources = ["whatshap/cli/compare.py", "whatshap/vcf.py"]
    assumptions = [
        "ploidy 2; biallelic variants; the two haplotypes of a heterozygous phased call are complementary (0|1 or 1|0) - 'phasings of the same sample' (DESIGN 3.1)",
        "variant tables are what VcfReader yields for one chromosome: sorted by position, positions pairwise distinct, homozygous calls carry no phase",
        "flip invariance is asserted for the reported counts and the BED records, not for the agreement vector (for a block at Hamming distance n/2 both orientations are equally good)",
        "ties for the longest block: the reported longest-block numbers must be those of one of the blocks of maximal size",
    ]
    stubs = [
        "whatshap.core.Genotype -> vf/models/core_model.Genotype (replay: compiled class)",
        "whatshap.polyphase.solver.SwitchFlipCalculator -> absent (polyploid branch not applicable); whatshap.cli package __init__ -> stub with CommandLineError",
        "VariantTable objects are built directly (no VCF parsing); console output of print_stat is discarded",
    ]
    nfiles = 2

    def setup(self):
        import types
        from vf.models import core_model
        from vf import build
        from vf.pysym.engine import Unsupported

        cli = types.ModuleType("whatshap.cli")
        cli.__path__ = []

        class CommandLineError(Exception):
            pass

        cli.CommandLineError = CommandLineError
        solver = types.ModuleType("whatshap.polyphase.solver")

        def _absent(*a, **k):
            raise Unsupported("SwitchFlipCalculator (ploidy > 2) is not modelled")

        solver.SwitchFlipCalculator = _absent
        self.world = SymWorld(overrides={"whatshap.core": core_model, "whatshap.cli": cli, "whatshap.polyphase.solver": solver})
        cmp_mod = self.world.load("whatshap.cli.compare")
        vcf_mod = self.world.load("whatshap.vcf")
        self._sym = Impl(cmp_mod, vcf_mod, core_model.Genotype)
        build.load_real(["core"])
        import whatshap.cli.compare as real_cmp
        import whatshap.vcf as real_vcf
        import whatshap.core as real_core

        self._real = Impl(real_cmp, real_vcf, real_core.Genotype)

    def sym_impl(self):
        return self._sym

    def real_impl(self):
        return self._real

    # -- inputs -------------------------------------------------------------------
    def inputs(self, e, shape):
        """Returns (positions, status per slot, rows[f] per slot or None when absent)."""
        n = shape["n"]
        nf = self.nfiles
        fix = shape.get("fix", {})
        if shape.get("sympos"):
            pos = []
            for i in range(n):
                p = e.int("pos%d" % i, 0, 1000000)
                if i:
                    e.assume(pos[-1] < p)
                pos.append(p)
        else:
            pos = [10 * i + 4 for i in range(n)]
        menu = shape.get("status", ["c"])
        status = [(e.choice("st%d" % i, menu) if not (i == 0 and "first" in shape) else None) if len(menu) > 1 else menu[0] for i in range(n)]
        if "first" in shape:  # the first slot is enumerated by the shape (spreads the work over jobs)
            status[0] = shape["first"]
        labs = []
        for f in range(nf):
            given = shape.get("lab%d" % f)
            if given is not None:
                labs.append(list(given))
                continue
            used, lab = 0, []
            for i in range(n):
                opts = ([None] if shape.get("unphased") else []) + list(range(min(used + 1, 2)))
                o = e.choice("lab%d.%d" % (f, i), opts)
                if o is not None:
                    used = max(used, o + 1)
                lab.append(o)
            labs.append(lab)
        rows = [[] for _ in range(nf)]
        for i in range(n):
            for f in range(nf):
                st = status[i]
                if st == "x%d" % f:
                    rows[f].append(None)  # variant absent from this file
                elif st == "h%d" % f:
                    rows[f].append((pos[i], (1, 1), None))  # homozygous here
                elif labs[f][i] is None:
                    rows[f].append((pos[i], (0, 1), None))  # heterozygous, unphased
                else:
                    nm = "a%d.%d" % (f, i)
                    a = fix[nm] if nm in fix else e.bit(nm)
                    rows[f].append((pos[i], (0, 1), (BLOCK_IDS[labs[f][i]], (a, 1 - a))))
        return pos, status, rows

    @staticmethod
    def flipped(rows, block_id):
        return [r if (r is None or r[2] is None or r[2][0] != block_id) else (r[0], r[1], (r[2][0], (r[2][1][1], r[2][1][0]))) for r in rows]

    @staticmethod
    def common_view(rows_per_file):
        """Independent selection of the common heterozygous variants; returns (slots, phases[f][k])."""
        n = len(rows_per_file[0])
        slots = [i for i in range(n) if all(rows[i] is not None and len(set(rows[i][1])) > 1 for rows in rows_per_file)]
        phases = [[rows[i][2] for i in slots] for rows in rows_per_file]
        return slots, phases


class _Pair(_Base):
    nfiles = 2
    names = ["f0", "f1"]

    def expected(self, pos, rows):
        slots, phases = self.common_view(rows)
        blocks = [b for b in joint_blocks(phases) if len(b) >= 2]
        per = []
        for b in blocks:
            o = block_oracle([phases[0][k][1] for k in b], [phases[1][k][1] for k in b])
            o["positions"] = [pos[slots[k]] for k in b]
            o["bed"] = [("chr1", o["positions"][i] + 1, o["positions"][i + 1] + 1, "f0<-->f1") for i, bad in enumerate(o["err"]) if bad]
            o["n"] = len(b)
            per.append(o)
        tot = dict(
            intersection_blocks=len(per),
            covered_variants=sum(o["n"] for o in per),
            all_assessed_pairs=sum(o["n"] - 1 for o in per),
            all_switches=sum(o["switches"] for o in per),
            blockwise_hamming=sum(o["hamming"] for o in per),
            blockwise_diff_genotypes=sum(o["diff"] for o in per),
            sf=(sum(o["sf"][0] for o in per), sum(o["sf"][1] for o in per)),
            bed=[r for o in per for r in o["bed"]],
        )
        return slots, phases, per, tot

    @staticmethod
    def observe(result):
        pcr, bed, block_stats, lpos, lagree, _ = result
        d = {f: getattr(pcr, f) for f in INT_FIELDS}
        d["sf"] = (pcr.all_switchflips.switches, pcr.all_switchflips.flips)
        d["lsf"] = (pcr.largestblock_switchflips.switches, pcr.largestblock_switchflips.flips)
        d["bed"] = list(bed)
        d["lpos"] = list(lpos)
        d["lagree"] = list(lagree)
        return d

    def call(self, e, impl, rows, info, what):
        tables = [impl.table([r for r in rw if r is not None]) for rw in rows]
        try:
            return self.observe(impl.compare(tables, self.names))
        except Exception as ex:
            e.check(False, "compare raised %s (%s)" % (type(ex).__name__, what), info)

    def harness(self, e, shape, impl):
        pos, status, rows = self.inputs(e, shape)
        slots, phases, per, tot = self.expected(pos, rows)
        info = lambda: dict(
            file0=[None if r is None else (r[1], r[2]) for r in rows[0]],
            file1=[None if r is None else (r[1], r[2]) for r in rows[1]],
        )
        self.cover_input(e, shape, status, slots, phases, per)
        got = self.call(e, impl, rows, info, "base")
        for f in INT_FIELDS:
            e.out(f, got[f])
        for k in ("sf", "lsf", "bed", "lpos", "lagree"):
            e.out(k, got[k])
        # -- totals equal their definitions
        for f in ("intersection_blocks", "covered_variants", "all_assessed_pairs"):
            e.check(got[f] == tot[f], "%s differs from the intersection blocks of the two files" % f, info)
        e.check(got["all_switches"] == tot["all_switches"], "switch errors != minimum over correspondences of the switch-encoding distance", info)
        e.check(got["blockwise_hamming"] == tot["blockwise_hamming"], "Hamming distance != minimum over haplotype correspondences", info)
        e.check(got["blockwise_diff_genotypes"] == tot["blockwise_diff_genotypes"], "different genotypes != positions with different allele multisets", info)
        e.check(tuple(got["sf"]) == tot["sf"], "switch/flip decomposition != runs of adjacent switch errors (L//2 flips, L%2 switches)", info)
        e.check(got["all_switches"] == got["sf"][0] + 2 * got["sf"][1], "switches != non-flip switches + 2 x flips", info)
        e.check(got["largestblock_switches"] == got["lsf"][0] + 2 * got["lsf"][1], "largest block: switches != non-flip switches + 2 x flips", info)
        # -- BED records are the switch error positions
        e.check(sorted(got["bed"], key=lambda r: r[1:3]) == sorted(tot["bed"], key=lambda r: r[1:3]), "BED records != positions where the switch encodings differ", info)
        # -- the longest block
        pending = None  # the agreement-vector clause is reported last so that it cannot hide the remaining clauses
        if per:
            nmax = max(o["n"] for o in per)
            cands = [o for o in per if o["n"] == nmax and o["positions"] == got["lpos"]]
            e.check(len(cands) == 1, "longest-block positions are not those of an intersection block of maximal size", info)
            o = cands[0]
            e.check(got["largestblock_assessed_pairs"] == nmax - 1, "largest block: assessed pairs wrong", info)
            e.check(got["largestblock_switches"] == o["switches"], "largest block: switch errors differ from the definition", info)
            e.check(got["largestblock_hamming"] == o["hamming"], "largest block: Hamming distance differs from the definition", info)
            e.check(tuple(got["lsf"]) == o["sf"], "largest block: switch/flip decomposition differs from the definition", info)
            e.check(got["largestblock_diff_genotypes"] == o["diff"], "largest block: different genotypes differ from the definition", info)
            e.check(len(got["lagree"]) == nmax, "longest-block agreement vector has the wrong length", info)
            zeros = sum(1 for x in got["lagree"] if x == 0)
            ham = got["largestblock_hamming"]
            if zeros != ham:
                # classification only: is this the orientation test on the two *lists* (0 or 2 differing strings)?
                b = [k for k in joint_blocks(phases) if len(k) == nmax and [pos[slots[i]] for i in k] == got["lpos"]][0]
                h = [phases[0][i][1][0] for i in b]
                g = [phases[1][i][1][0] for i in b]
                d = _dist(h, g)
                listdist = 0 if d == 0 else 2
                buggy = d if listdist < nmax - d else nmax - d
                pending = dict(n=nmax, marked=zeros, hamming=int(ham), explained_by_list_orientation_test=(zeros == buggy))
        else:
            e.check(got["lpos"] == [] and got["lagree"] == [], "longest-block output although no block was assessed", info)
            for f in ("largestblock_assessed_pairs", "largestblock_switches", "largestblock_hamming", "largestblock_diff_genotypes"):
                e.check(got[f] == 0, "largest block numbers non-zero although no block was assessed", info)
        # -- identical inputs
        for f in (0, 1):
            same = self.call(e, impl, [rows[f], rows[f]], info, "file%d against itself" % f)
            for k in ("all_switches", "blockwise_hamming", "blockwise_diff_genotypes", "largestblock_switches", "largestblock_hamming", "largestblock_diff_genotypes"):
                e.check(same[k] == 0, "identical inputs: %s is not zero" % k, info)
            e.check(tuple(same["sf"]) == (0, 0) and tuple(same["lsf"]) == (0, 0) and same["bed"] == [], "identical inputs: switch/flip or BED records not empty", info)
            e.check(all(x == 1 for x in same["lagree"]), "identical inputs: agreement vector marks a disagreement", info)
        # -- swapping the haplotypes of one phase set in one file
        for f in (0, 1):
            for bid in sorted({r[2][0] for r in rows[f] if r is not None and r[2] is not None}):
                alt = list(rows)
                alt[f] = self.flipped(rows[f], bid)
                fl = self.call(e, impl, alt, info, "phase set %d of file%d swapped" % (bid, f))
                for k in INT_FIELDS + ["sf", "lsf"]:
                    e.check(fl[k] == got[k], "%s changes when the haplotypes of one phase set are listed in the other order" % k, lambda: dict(info(), swapped=(f, bid)))
                e.check(sorted(fl["bed"], key=lambda r: r[1:3]) == sorted(got["bed"], key=lambda r: r[1:3]), "BED records change when the haplotypes of one phase set are listed in the other order", lambda: dict(info(), swapped=(f, bid)))
                e.cover("phase set swapped")
        if pending is not None:
            e.check(False, "longest-block agreement marks a number of disagreements different from the reported Hamming distance", lambda: dict(info(), **pending))

    def cover_input(self, e, shape, status, slots, phases, per):
        for o in per:
            if any(o["err"]):
                e.cover("switch error")
            if o["sf"][1] > 0:
                e.cover("flip")
            if o["sf"][0] > 0 and o["sf"][1] > 0:
                e.cover("switch and flip in one block")
            if o["n"] >= 7:
                e.cover("block of >= 7 variants")
        if len(per) >= 2:
            e.cover("two intersection blocks assessed")
            if per[1]["n"] > per[0]["n"]:
                e.cover("longest block is not the first block")
            if per[1]["n"] == per[0]["n"]:
                e.cover("tie for the longest block")
            if per[0]["positions"][-1] > per[1]["positions"][0]:
                e.cover("interleaved intersection blocks")
        if any(p is None for ph in phases for p in ph):
            e.cover("unphased variant excluded")
        if any(len(b) == 1 for b in joint_blocks(phases)):
            e.cover("singleton intersection block ignored")
        for st in status:
            if st[0] == "h":
                e.cover("variant homozygous in one file")
            if st[0] == "x":
                e.cover("variant absent from one file")

    def classify(self, shape, v):
        info = v.get("info") or {}
        if "explained_by_list_orientation_test" in info:
            if info["explained_by_list_orientation_test"]:
                return "%s:longest-block-orientation-chosen-on-lists:%s" % (self.name, v["msg"])
            return "%s:longest-block-agreement-other:%s" % (self.name, v["msg"])
        return "%s:%s" % (self.name, v["msg"])


class PairBlock(_Pair):
    """One joint block over all n variants; every pair of haplotype strings."""

    name = "pair_block"
    required_cover = ["switch error", "flip", "switch and flip in one block", "block of >= 7 variants", "phase set swapped"]

    def shapes(self, tier):
        nmax = 7 if tier == "quick" else 9
        out = []
        for n in range(2, nmax + 1):
            k = max(0, min(n, 2 * n - 10))  # bits of file 0 fixed by the shape, so that one job has <= ~2^10 paths
            for bits in itertools.product((0, 1), repeat=k):
                out.append(dict(n=n, lab0=[0] * n, lab1=[0] * n, fix={"a0.%d" % i: b for i, b in enumerate(bits)}))
        return out

    def bounds(self, tier):
        return "one intersection block of n = 2..%d common variants, all 4^n pairs of haplotype-0 strings (solver-chosen bits; the first bits of file 0 enumerated by the shape)" % (7 if tier == "quick" else 9)


class PairStructure(_Pair):
    """Phase-set structure: each variant in one of two phase sets per file, or unphased."""

    name = "pair_structure"
    required_cover = [
        "switch error", "flip", "two intersection blocks assessed", "longest block is not the first block", "tie for the longest block",
        "interleaved intersection blocks", "unphased variant excluded", "singleton intersection block ignored", "phase set swapped",
    ]

    def shapes(self, tier):
        out = []
        plan = [(3, True), (4, False)] if tier == "quick" else [(3, True), (4, True), (5, False)]
        for n, unphased in plan:
            for lab0 in _rg(n, unphased):
                out.append(dict(n=n, lab0=lab0, unphased=unphased))
        if tier == "quick":  # blocks of sizes 2 and 3: file 0 one phase set, file 1 every split into <= 2 sets
            for lab1 in _rg(5, False):
                out.append(dict(n=5, lab0=[0] * 5, lab1=lab1))
        return out

    def bounds(self, tier):
        return "n = 3..%d common variants; per file every assignment of the variants to <= 2 phase sets%s (file 0 enumerated by the shape, file 1 solver-chosen), all haplotype strings" % (
            (4, " or unphased (n = 3); n = 5 with one phase set in file 0 and every split into <= 2 sets in file 1") if tier == "quick" else (5, " or unphased (n <= 4)"))


class PairCommon(_Pair):
    """Variants that are homozygous in, or absent from, one of the files must not be compared."""

    name = "pair_common"
    required_cover = ["variant homozygous in one file", "variant absent from one file", "switch error", "phase set swapped"]

    def shapes(self, tier):
        ns = [3, 4] if tier == "quick" else [3, 4, 5]
        out = []
        for n in ns:
            for first in ["c", "h0", "h1", "x0", "x1"]:
                out.append(dict(n=n, lab0=[0] * n, lab1=[0] * n, status=["c", "h0", "h1", "x0", "x1"], first=first))
        return out

    def bounds(self, tier):
        return "n = 3..%d variant slots, each common / homozygous in file 0 / homozygous in file 1 / absent from file 0 / absent from file 1 (solver-chosen), one phase set per file, all haplotype strings" % (4 if tier == "quick" else 5)


class PairPositions(_Pair):
    """Symbolic positions: BED coordinates and longest-block positions for arbitrary increasing positions."""

    name = "pair_positions"
    max_decisions = 50000
    required_cover = ["switch error", "two intersection blocks assessed", "phase set swapped"]

    def shapes(self, tier):
        out = []
        for n in ([2, 3] if tier == "quick" else [2, 3, 4]):
            out.append(dict(n=n, lab0=[0] * n, lab1=[0] * n, sympos=True))
        n = 4
        for lab1 in ([[0, 1, 0, 1], [0, 0, 1, 1]] if tier == "quick" else _rg(4, False)):
            out.append(dict(n=n, lab0=[0] * n, lab1=lab1, sympos=True))
        return out

    def bounds(self, tier):
        return "positions symbolic (strictly increasing integers in [0, 10^6]); n <= 4 variants, one or two phase sets in file 1, all haplotype strings"


class PairMultiallelic(_Pair):
    """Heterozygous calls over three alleles (compare reads multi-ALT records: VcfReader(mav=True)).  The two
    haplotypes are then not complementary, so only the clauses that stay unambiguous are asserted: compare reports
    (does not raise), identical inputs give zeros, 'different genotypes' counts the positions whose allele multisets
    differ, and that count does not depend on the listing order of a phase set.  Switch errors / Hamming distance of
    non-complementary haplotypes are left out (their minimum over correspondences can be fractional)."""

    name = "pair_multiallelic"
    required_cover = ["allele 2 phased", "different genotypes", "compare returned for a multiallelic input", "phase set swapped"]
    assumptions = _Base.assumptions[1:] + ["ploidy 2; heterozygous calls over the alleles {0,1,2}; one phase set per file"]
    PHASES = [(0, 1), (1, 0), (0, 2), (2, 0), (1, 2), (2, 1)]

    def shapes(self, tier):
        out = [dict(n=2, menu=list(range(6)))]
        menus = [[0, 1, 4, 5], [0, 1, 2, 3]] if tier == "quick" else [list(range(6))]
        for m in menus:
            for first in m:
                out.append(dict(n=3, menu=m, first=first))
        return out

    def bounds(self, tier):
        return "one phase set per file, n = 2..3 common variants, phase of every call from %s (n = 3 quick: two 4-element subsets)" % (self.PHASES,)

    def harness(self, e, shape, impl):
        n = shape["n"]
        rows = [[], []]
        for f in (0, 1):
            for i in range(n):
                if f == 0 and i == 0 and "first" in shape:
                    k = shape["first"]
                else:
                    k = e.choice("p%d.%d" % (f, i), shape["menu"])
                ph = self.PHASES[k]
                rows[f].append((10 * i + 4, tuple(sorted(ph)), (BLOCK_IDS[0], ph)))
        info = lambda: dict(file0=[r[2][1] for r in rows[0]], file1=[r[2][1] for r in rows[1]])
        if any(2 in r[2][1] for rw in rows for r in rw):
            e.cover("allele 2 phased")
        exp_diff = sum(1 for a, b in zip(rows[0], rows[1]) if sorted(a[2][1]) != sorted(b[2][1]))
        if exp_diff:
            e.cover("different genotypes")

        def call(rws, what):
            impl.multiallelic = True
            try:
                tables = [impl.table(rw) for rw in rws]
            finally:
                impl.multiallelic = False
            try:
                return self.observe(impl.compare(tables, self.names))
            except Exception as ex:
                second_h0 = [r[2][1][0] for r in rws[1]]
                e.check(False, "compare raised %s (%s)" % (type(ex).__name__, what), lambda: dict(info(), exception=type(ex).__name__, allele_ge2_on_haplotype0_of_second_file=any(a >= 2 for a in second_h0)))

        got = call(rows, "base")
        e.cover("compare returned for a multiallelic input")
        e.out("diff", got["blockwise_diff_genotypes"])
        e.out("ldiff", got["largestblock_diff_genotypes"])
        e.check(got["blockwise_diff_genotypes"] == exp_diff and got["largestblock_diff_genotypes"] == exp_diff, "different genotypes != positions with different allele multisets", info)
        for f in (0, 1):
            same = call([rows[f], rows[f]], "file%d against itself" % f)
            for k in ("all_switches", "blockwise_hamming", "blockwise_diff_genotypes", "largestblock_switches", "largestblock_hamming", "largestblock_diff_genotypes"):
                e.check(same[k] == 0, "identical inputs: %s is not zero" % k, info)
            e.check(tuple(same["sf"]) == (0, 0) and same["bed"] == [], "identical inputs: switch/flip or BED records not empty", info)
        for f in (0, 1):
            alt = list(rows)
            alt[f] = self.flipped(rows[f], BLOCK_IDS[0])
            fl = call(alt, "phase set of file%d swapped" % f)
            e.check(fl["blockwise_diff_genotypes"] == got["blockwise_diff_genotypes"], "different genotypes change when the haplotypes of one phase set are listed in the other order", info)
            e.cover("phase set swapped")

    def classify(self, shape, v):
        info = v.get("info") or {}
        if info.get("exception") == "KeyError" and info.get("allele_ge2_on_haplotype0_of_second_file"):
            return "pair_multiallelic:complement-keyerror-on-allele-ge-2:%s" % v["msg"].split(" (")[0]
        return "%s:%s" % (self.name, v["msg"])


# ----------------------------------------------------------------------------
# three files
# ----------------------------------------------------------------------------
class Multiway(_Base):
    name = "multiway"
    nfiles = 3
    names = ["f0", "f1", "f2"]
    required_cover = ["all three agree somewhere", "one file against two", "no pair on which all agree", "two intersection blocks assessed", "phase set swapped"]

    def shapes(self, tier):
        out = []
        for n in ([2, 3, 4] if tier == "quick" else [2, 3, 4, 5]):
            if n <= 4:
                out.append(dict(n=n, lab0=[0] * n, lab1=[0] * n, lab2=[0] * n))
            else:
                for bits in itertools.product((0, 1), repeat=3):
                    out.append(dict(n=n, lab0=[0] * n, lab1=[0] * n, lab2=[0] * n, fix={"a0.%d" % i: b for i, b in enumerate(bits)}))
        for lab0 in _rg(3, True):
            for lab1 in _rg(3, False):
                out.append(dict(n=3, lab0=lab0, lab1=lab1, unphased=False))
        if tier == "quick":
            for lab0 in ([0, 0, 1, 1], [0, 1, 0, 1]):
                out.append(dict(n=4, lab0=lab0, lab1=[0] * 4, lab2=[0] * 4))
        else:
            for lab0 in _rg(4, False):
                out.append(dict(n=4, lab0=lab0, lab1=[0] * 4, unphased=False))
        return out

    def bounds(self, tier):
        return "three files; one block of n = 2..%d variants with all 8^n haplotype strings; n = 3%s with every phase-set structure (<= 2 sets per file, unphased variants in file 0)%s" % ((4, "", "; n = 4 with two sets in file 0") if tier == "quick" else (5, "", "; n = 4 with every split of file 0 and file 2 into <= 2 sets"))

    def expected(self, pos, rows):
        slots, phases = self.common_view(rows)
        blocks = [b for b in joint_blocks(phases) if len(b) >= 2]
        hist = {}
        pairwise = {(i, j): 0 for i in range(3) for j in range(i + 1, 3)}
        total = 0
        for b in blocks:
            enc = [_sw([phases[f][k][1][0] for k in b]) for f in range(3)]
            for t in range(len(b) - 1):
                total += 1
                side = [enc[f][t] == enc[0][t] for f in range(3)]  # True: same statement as file 0
                key = (",".join(self.names[f] for f in range(3) if side[f]), ",".join(self.names[f] for f in range(3) if not side[f]))
                hist[key] = hist.get(key, 0) + 1
                for (i, j) in pairwise:
                    if enc[i][t] != enc[j][t]:
                        pairwise[(i, j)] += 1
        return slots, phases, blocks, hist, pairwise, total

    def call(self, e, impl, rows, info, what, crash_info=None):
        tables = [impl.table([r for r in rw if r is not None]) for rw in rows]
        try:
            res = impl.compare(tables, self.names)
        except Exception as ex:
            e.check(False, "compare raised %s (%s)" % (type(ex).__name__, what), crash_info or info)
        return dict(res[5])

    def harness(self, e, shape, impl):
        pos, status, rows = self.inputs(e, shape)
        slots, phases, blocks, hist, pairwise, total = self.expected(pos, rows)
        info = lambda: dict(files=[[None if r is None else r[2] for r in rw] for rw in rows], expected=sorted(hist.items()))
        allkey = (",".join(self.names), "")
        if len(blocks) >= 2:
            e.cover("two intersection blocks assessed")
        if allkey in hist:
            e.cover("all three agree somewhere")
        elif hist:
            e.cover("no pair on which all agree")
        if any(k != allkey for k in hist):
            e.cover("one file against two")
        got = self.call(e, impl, rows, info, "base", lambda: dict(info(), no_all_agree_pair=(bool(hist) and allkey not in hist)))
        e.out("multiway", sorted(got.items()))
        e.check(got == hist, "multiway counts != histogram of the bipartitions induced by the switch encodings", info)
        e.check(sum(got.values()) == total, "multiway counts do not add up to the number of assessed pairs", info)
        for (i, j), cnt in pairwise.items():
            sep = sum(c for (l, r), c in got.items() if (self.names[i] in l.split(",")) != (self.names[j] in l.split(",")))
            e.check(sep == cnt, "multiway: bipartitions separating two files do not add up to their switch errors on the joint blocks", info)
        same = self.call(e, impl, [rows[0]] * 3, info, "file0 three times")
        e.check(all(k == allkey for k in same), "identical inputs: multiway reports a disagreement", info)
        for f in range(3):
            for bid in sorted({r[2][0] for r in rows[f] if r is not None and r[2] is not None}):
                alt = list(rows)
                alt[f] = self.flipped(rows[f], bid)
                fl = self.call(e, impl, alt, info, "phase set %d of file%d swapped" % (bid, f))
                e.check(fl == got, "multiway counts change when the haplotypes of one phase set are listed in the other order", lambda: dict(info(), swapped=(f, bid)))
                e.cover("phase set swapped")

    def classify(self, shape, v):
        info = v.get("info") or {}
        if v["msg"].startswith("compare raised AssertionError") and info.get("no_all_agree_pair"):
            return "multiway:assert-first-bipartition-is-all-agree:%s" % v["msg"]
        return "%s:%s" % (self.name, v["msg"])


SUBCHECKS = {c.name: c for c in [PairBlock(), PairStructure(), PairCommon(), PairPositions(), PairMultiallelic(), Multiway()]}

if __name__ == "__main__":
    import sys
    from vf import runner

    sys.exit(runner.main("checks.c11", sys.argv[1:]))
