"""C19 (a) - genotype indexing is a bijection (LLSym over src/genotype.cpp + src/binomial.cpp).

The real Genotype class is compiled to LLVM IR and executed symbolically with
the alleles as *value-set* inputs (one guarded alternative per allele value, all
bit twiddling stays concrete per alternative, control flow merges at
post-dominators).  z3 then decides, over the allele variables, the canonical
index formula of the VCF specification, index -> alleles -> index round trips,
equality / ordering against the index, and state save/restore."""
import itertools
import json
import math
import time

import z3

from vf.runner import SubCheck, JobResult

PROPERTY = "C19"

UNITS = ["genotype.cpp", "binomial.cpp"]


def harness_src(p, n, two):
    L = ['#include <vector>', '#include "genotype.h"', 'extern "C" unsigned sym_vs(const char*, unsigned, unsigned);', 'extern "C" void sym_out(const char*, unsigned, unsigned);', 'extern "C" void harness() {']
    for i in range(p):
        L.append('  unsigned a%d = sym_vs("a%d", 0, %d);' % (i, i, n - 1))
    L.append("  std::vector<uint32_t> v; " + " ".join("v.push_back(a%d);" % i for i in range(p)))
    L.append("  Genotype g(v);")
    L.append('  uint64_t idx = g.get_index(); sym_out("idx", 0, (unsigned)idx);')
    L.append('  sym_out("ploidy", 0, g.get_ploidy()); sym_out("hom", 0, g.is_homozygous() ? 1u : 0u); sym_out("none", 0, g.is_none() ? 1u : 0u);')
    L.append("  std::vector<uint32_t> vec = g.as_vector();")
    L.append('  for (unsigned i = 0; i < %d; ++i) sym_out("vec", i, vec[i]);' % p)
    L.append("  std::vector<uint32_t> back = convert_index_to_alleles(idx, %d);" % p)
    L.append('  for (unsigned i = 0; i < %d; ++i) sym_out("back", i, back[i]);' % p)
    L.append("  Genotype g2(idx, %d);" % p)
    L.append('  sym_out("restore_eq", 0, (g2 == g) ? 1u : 0u); sym_out("restore_ne", 0, (g2 != g) ? 1u : 0u); sym_out("restore_idx", 0, (unsigned)g2.get_index());')
    if two:
        for i in range(p):
            L.append('  unsigned b%d = sym_vs("b%d", 0, %d);' % (i, i, n - 1))
        L.append("  std::vector<uint32_t> w; " + " ".join("w.push_back(b%d);" % i for i in range(p)))
        L.append("  Genotype h(w);")
        L.append('  sym_out("idx2", 0, (unsigned)h.get_index()); sym_out("eq", 0, (g == h) ? 1u : 0u); sym_out("ne", 0, (g != h) ? 1u : 0u); sym_out("lt", 0, (g < h) ? 1u : 0u);')
    L.append("}")
    return "\n".join(L) + "\n"


def zsorted(xs):
    """z3 expressions of the ascending sort of xs (odd-even transposition network)"""
    xs = list(xs)
    n = len(xs)
    for rnd in range(n):
        for i in range(rnd % 2, n - 1, 2):
            a, b = xs[i], xs[i + 1]
            xs[i], xs[i + 1] = z3.If(a <= b, a, b), z3.If(a <= b, b, a)
    return xs


def binom_table(x, k, n):
    """z3 term for C(k + x - 1, k) with x in [0, n)  (number of multisets) as an ite chain on the small domain"""
    e = z3.IntVal(math.comb(k + n - 2, k) if n >= 1 else 0)
    for v in reversed(range(n - 1)):
        e = z3.If(x == v, z3.IntVal(math.comb(k + v - 1, k)), e)
    return e


class GenoIndex(SubCheck):
    name = "geno_index"
    encoded = ["Genotype::Genotype(vector<uint32_t>)", "Genotype::Genotype(uint64_t, uint32_t)", "Genotype::get_index", "Genotype::as_vector", "Genotype::get_ploidy / is_homozygous / is_none", "operator== / != / <", "convert_index_to_alleles", "binomial_coefficient (all from LLVM IR, clang++-14 -O1)"]
    sources = ["src/genotype.cpp", "src/genotype.h", "src/binomial.cpp"]
    stubs = ["libstdc++ externals of vf/llsym/interp.py (operator new, memmove, std::sort is compiled from the header and executed)"]
    assumptions = ["alleles < number of alleles n <= MAX_ALLELES, ploidy < MAX_PLOIDY (documented limits)"]
    required_cover = ["canonical index", "index to alleles", "restore", "bijection", "ordering"]

    def shapes(self, tier):
        if tier == "quick":
            one = [(1, 4), (2, 3), (2, 5), (3, 3), (4, 2)]
            two = [(1, 4), (2, 3), (3, 2)]
        else:
            one = [(1, 6), (2, 4), (2, 6), (3, 3), (3, 4), (4, 3), (5, 2), (6, 2)]
            two = [(1, 6), (2, 3), (2, 4), (3, 2), (4, 2)]
        return [dict(p=p, n=n, two=False) for p, n in one] + [dict(p=p, n=n, two=True) for p, n in two]

    def bounds(self, tier):
        return "single genotype: (ploidy, alleles) in %s; pairs of genotypes (equality / order / bijection): %s; ALL allele tuples of each shape at once" % ([(s["p"], s["n"]) for s in self.shapes(tier) if not s["two"]], [(s["p"], s["n"]) for s in self.shapes(tier) if s["two"]])

    def setup(self):
        from vf.llsym import pipeline

        pipeline.ensure_ir2json()
        pipeline.core_bitcode(UNITS)

    def run(self, shape, tier, seed):
        from vf.llsym import pipeline, irmod, dpcheck
        from vf.llsym.interp import Interp, run_in_thread
        from vf.llsym.values import Unsupported

        t0 = time.time()
        p, n, two = shape["p"], shape["n"], shape["two"]
        src = harness_src(p, n, two)
        errors, viol, samples, cover = [], [], [], {}
        stats = dict(paths=0, decisions=0, solver_queries=0, solver_s=0.0)
        nob = ndis = ninc = replays = 0
        try:
            mod = irmod.Module(pipeline.harness_module(src, UNITS))
            it = Interp(mod, inputs_symbolic=True, time_budget=600 if tier == "quick" else 2400)
            status = run_in_thread(lambda: it.run_harness())
        except Unsupported as u:
            return JobResult(sub=self.name, shape=shape, stats=stats, violations=[], samples=[], cover={}, errors=([] if "time budget exceeded" in str(u) else ["LLSym unsupported: %s" % u]), replays=0, obligations=1, discharged=0, inconclusive=1, wall_s=time.time() - t0)
        stats["decisions"] = it.stats["merges"] + it.stats["splits"]
        exe = pipeline.native_twin(src, UNITS, tag="gtwin")
        cons = list(it.constraints)
        if status != "ok":
            st, exc, outs = pipeline.run_native(exe, {})
            replays += 1
            if st != "ok":
                viol.append(dict(sub=self.name, shape=shape, witness={}, msg="Genotype code fails on valid alleles: %s" % (exc or st), info=None, reproduced=True, concrete=[st, exc]))
            else:
                errors.append("symbolic run aborted (%r) but native run fine" % (status,))
        else:
            outs = {k: v[1] for k, v in it.outputs.items()}
            Z = lambda key: dpcheck.to_z3(it, outs[key])
            a = [z3.Int("a%d" % i) for i in range(p)]
            sa = zsorted(a)
            canon = z3.Sum([binom_table(sa[k - 1], k, n) for k in range(1, p + 1)])
            obs = []
            obs.append(("index equals the canonical VCF index", Z(("idx", 0)) != canon, "canonical index"))
            obs.append(("index below the number of genotypes", Z(("idx", 0)) >= math.comb(p + n - 1, p), "canonical index"))
            obs.append(("convert_index_to_alleles(get_index(g)) is the sorted allele list", z3.Or(*[Z(("back", i)) != sa[i] for i in range(p)]), "index to alleles"))
            obs.append(("as_vector lists the alleles (largest first)", z3.Or(*[Z(("vec", i)) != sa[p - 1 - i] for i in range(p)]), "index to alleles"))
            obs.append(("ploidy / homozygosity", z3.Or(Z(("ploidy", 0)) != p, Z(("none", 0)) != 0, (Z(("hom", 0)) == 1) != z3.And(*[a[i] == a[0] for i in range(p)])), "index to alleles"))
            obs.append(("Genotype(index, ploidy) restores the genotype", z3.Or(Z(("restore_eq", 0)) != 1, Z(("restore_ne", 0)) != 0, Z(("restore_idx", 0)) != Z(("idx", 0))), "restore"))
            if two:
                b = [z3.Int("b%d" % i) for i in range(p)]
                sb = zsorted(b)
                same = z3.And(*[sa[i] == sb[i] for i in range(p)])
                obs.append(("same index iff same multiset", (Z(("idx", 0)) == Z(("idx2", 0))) != same, "bijection"))
                obs.append(("== and != agree with the multiset", z3.Or((Z(("eq", 0)) == 1) != same, (Z(("ne", 0)) == 1) == same), "bijection"))
                obs.append(("< agrees with the index order", (Z(("lt", 0)) == 1) != (Z(("idx", 0)) < Z(("idx2", 0))), "ordering"))
            else:
                cover["bijection"] = cover.get("bijection", 0)
                cover["ordering"] = cover.get("ordering", 0)
            notab = [z3.Not(it.lits.guard_expr(frozenset(g))) for g, k, m in it.aborts]
            for g, kind, msg in it.aborts:
                obs.append(("reachable %s: %s" % (kind, msg), it.lits.guard_expr(frozenset(g)), "canonical index"))
            for name, expr, tag in obs:
                nob += 1
                cover[tag] = cover.get(tag, 0) + 1
                use = cons if name.startswith("reachable") else cons + notab
                r, model, dt = dpcheck.solve(expr, use, 300000)
                stats["solver_queries"] += 1
                stats["solver_s"] += dt
                if r == "unsat":
                    ndis += 1
                    if len(samples) < 2:
                        samples.append(dict(sub=self.name, shape=shape, obligation=name, result="unsat"))
                elif r == "unknown":
                    ninc += 1
                else:
                    inp = {nm: model.eval(x, model_completion=True).as_long() for nm, (x, lo, hi) in it.inputs.items()}
                    st, exc, nout = pipeline.run_native(exe, inp)
                    replays += 1
                    why = self.judge(shape, inp, (st, exc, nout))
                    if why:
                        viol.append(dict(sub=self.name, shape=shape, witness=inp, msg=why, info=dict(obligation=name), reproduced=True, concrete=[st, exc]))
                    else:
                        errors.append("obligation %r has model %r not confirmed on the native build" % (name, inp))
                    break
            # validation of the symbolic result on a few concrete inputs
            import random

            rnd = random.Random(seed)
            for _ in range(3):
                inp = {nm: rnd.randint(lo, hi) for nm, (x, lo, hi) in it.inputs.items()}
                st, exc, nout = pipeline.run_native(exe, inp)
                replays += 1
                sub = [(x, z3.IntVal(inp[nm])) for nm, (x, lo, hi) in it.inputs.items()]
                for key, v in outs.items():
                    ev = z3.simplify(z3.substitute(dpcheck.to_z3(it, v), *sub))
                    if st == "ok" and (not z3.is_int_value(ev) or ev.as_long() != nout.get(key)):
                        errors.append("symbolic result disagrees with native twin at %s for %r: %s vs %s" % (key, inp, ev, nout.get(key)))
                        break
        stats["paths"] = nob
        return JobResult(sub=self.name, shape=shape, stats=stats, violations=viol, samples=samples, cover=cover, errors=errors, replays=replays, obligations=nob, discharged=ndis, inconclusive=ninc, wall_s=time.time() - t0)

    def judge(self, shape, inp, native):
        st, exc, o = native
        p, n = shape["p"], shape["n"]
        if st != "ok":
            return "Genotype code fails on valid alleles %r: %s" % (inp, exc or st)
        a = sorted(inp["a%d" % i] for i in range(p))
        canon = sum(math.comb(k + a[k - 1] - 1, k) for k in range(1, p + 1))
        if o[("idx", 0)] != canon:
            return "get_index() of alleles %s is %d, canonical index is %d" % (a, o[("idx", 0)], canon)
        if [o[("back", i)] for i in range(p)] != a:
            return "convert_index_to_alleles(get_index(%s)) = %s" % (a, [o[("back", i)] for i in range(p)])
        if [o[("vec", i)] for i in range(p)] != a[::-1]:
            return "as_vector() of alleles %s = %s" % (a, [o[("vec", i)] for i in range(p)])
        if o[("restore_eq", 0)] != 1 or o[("restore_ne", 0)] != 0 or o[("restore_idx", 0)] != canon:
            return "Genotype(index, ploidy) does not restore alleles %s" % a
        if o[("ploidy", 0)] != p or (o[("hom", 0)] == 1) != (len(set(a)) == 1):
            return "ploidy / homozygosity wrong for alleles %s" % a
        if shape["two"]:
            b = sorted(inp["b%d" % i] for i in range(p))
            cb = sum(math.comb(k + b[k - 1] - 1, k) for k in range(1, p + 1))
            if (o[("idx2", 0)] == o[("idx", 0)]) != (a == b) or (o[("eq", 0)] == 1) != (a == b) or (o[("ne", 0)] == 1) == (a == b):
                return "equality/index of genotypes %s and %s disagree" % (a, b)
            if (o[("lt", 0)] == 1) != (canon < cb):
                return "operator< of genotypes %s and %s disagrees with the index order" % (a, b)
        return None

    def replay(self, shape, witness):
        from vf.llsym import pipeline

        exe = pipeline.native_twin(harness_src(shape["p"], shape["n"], shape["two"]), UNITS, tag="gtwin")
        nat = pipeline.run_native(exe, witness)
        why = self.judge(shape, witness, nat)
        return ("violation" if why else "ok"), why, []


SUBCHECKS = {c.name: c for c in [GenoIndex()]}


class BinomKernel(SubCheck):
    """binomial_coefficient(n, k) - the kernel under get_index / convert_index_to_alleles - equals C(n, k) without
    overflow for every argument pair the supported limits (ploidy <= 14, alleles <= 16) can produce: n <= 29, k <= 15."""

    name = "binom_kernel"
    encoded = ["binomial_coefficient (src/binomial.cpp, from LLVM IR)"]
    sources = ["src/binomial.cpp", "src/binomial.h"]
    stubs = []
    assumptions = ["0 <= n <= 29, 0 <= k <= 15 (get_index calls C(k + a - 1, a - 1) with k <= 14, a <= 15; convert_index_to_alleles calls C(p + a - 1, p) with p <= 14, a <= 16)"]
    required_cover = ["kernel equals C(n,k)"]

    def shapes(self, tier):
        return [dict(k=k) for k in range(0, 16)]

    def bounds(self, tier):
        return "k = 0..15 (one job each), ALL n in [0, 29] at once as a value-set input"

    def setup(self):
        from vf.llsym import pipeline

        pipeline.ensure_ir2json()
        pipeline.core_bitcode(["binomial.cpp"])

    @staticmethod
    def src(k):
        return '#include "binomial.h"\nextern "C" unsigned sym_vs(const char*, unsigned, unsigned);\nextern "C" void sym_out(const char*, unsigned, unsigned);\nextern "C" void harness() {\n  unsigned n = sym_vs("n", 0, 29);\n  int r = binomial_coefficient((int)n, %d);\n  sym_out("r", 0, (unsigned)r);\n}\n' % k

    def run(self, shape, tier, seed):
        from vf.llsym import pipeline, irmod, dpcheck
        from vf.llsym.interp import Interp, run_in_thread
        from vf.llsym.values import Unsupported

        t0 = time.time()
        k = shape["k"]
        src = self.src(k)
        stats = dict(paths=1, decisions=0, solver_queries=0, solver_s=0.0)
        viol, errors, samples = [], [], []
        try:
            mod = irmod.Module(pipeline.harness_module(src, ["binomial.cpp"]))
            it = Interp(mod, inputs_symbolic=True, time_budget=600)
            status = run_in_thread(lambda: it.run_harness())
        except Unsupported as u:
            return JobResult(sub=self.name, shape=shape, stats=stats, violations=[], samples=[], cover={}, errors=([] if "time budget exceeded" in str(u) else ["LLSym unsupported: %s" % u]), replays=0, obligations=1, discharged=0, inconclusive=1, wall_s=time.time() - t0)
        exe = pipeline.native_twin(src, ["binomial.cpp"], tag="btwin")
        n = z3.Int("n")
        table = z3.IntVal(math.comb(29, k))
        for v in reversed(range(29)):
            table = z3.If(n == v, z3.IntVal(math.comb(v, k)), table)
        ndis = ninc = replays = 0
        if status != "ok":
            errors.append("symbolic run aborted: %r" % (status,))
        else:
            out = dpcheck.to_z3(it, it.outputs[("r", 0)][1])
            r, model, dt = dpcheck.solve(out != table, list(it.constraints), 120000)
            stats["solver_queries"] += 1
            stats["solver_s"] += dt
            stats["decisions"] = it.stats["merges"]
            if r == "unsat":
                ndis = 1
                samples.append(dict(sub=self.name, shape=shape, obligation="binomial_coefficient(n,%d) == C(n,%d) for all n <= 29" % (k, k), result="unsat"))
            elif r == "unknown":
                ninc = 1
            else:
                nv = model.eval(n, model_completion=True).as_long()
                st, exc, o = pipeline.run_native(exe, {"n": nv})
                replays += 1
                got = o.get(("r", 0))
                if st != "ok" or got != math.comb(nv, k) % (1 << 32):
                    viol.append(dict(sub=self.name, shape=shape, witness={"n": nv}, msg="binomial_coefficient(%d, %d) returns %s, C(n,k) = %d (overflow of the intermediate product?)" % (nv, k, got if st == "ok" else exc, math.comb(nv, k)), info=None, reproduced=True, concrete=[st, exc]))
                else:
                    errors.append("model n=%d not confirmed natively" % nv)
        return JobResult(sub=self.name, shape=shape, stats=stats, violations=viol, samples=samples, cover={"kernel equals C(n,k)": 1}, errors=errors, replays=replays, obligations=1, discharged=ndis, inconclusive=ninc, wall_s=time.time() - t0)

    def replay(self, shape, witness):
        from vf.llsym import pipeline

        exe = pipeline.native_twin(self.src(shape["k"]), ["binomial.cpp"], tag="btwin")
        st, exc, o = pipeline.run_native(exe, witness)
        ok = st == "ok" and o.get(("r", 0)) == math.comb(witness["n"], shape["k"])
        return ("ok" if ok else "violation"), None if ok else "binomial_coefficient wrong", []

    def classify(self, shape, v):
        return "binom_kernel:k=%d:%s" % (shape["k"], v["msg"][:60])


SUBCHECKS["binom_kernel"] = BinomKernel()
