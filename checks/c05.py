"""C05 - pedigree phasing is Mendelian-consistent and ordered paternal|maternal.

(a) ped_mendel (LLSym): trio / quartet instances of the real PedigreeDPTable in
    trusted-genotype mode; obligations on the returned super reads and
    transmission vector.
(b) ped_filter (PySym): find_mendelian_conflicts / mendelian_conflict /
    find_phaseable_variants remove every variant with a conflict or a missing
    genotype in a family member from the phasable set (added below if present).
"""
import itertools

import z3

from checks.c01 import DPCheck, trio, _chk

PROPERTY = "C05"
H = (0, 1)


def quartet(ncols, reads, genotypes, **kw):
    """individuals 0=father 1=mother 2=child1 3=child2"""
    d = dict(individuals=[0, 1, 2, 3], trios=[(0, 1, 2), (0, 1, 3)], ncols=ncols, reads=[dict(sample=s, cols=list(c)) for s, c in reads], genotypes=genotypes)
    d.update(kw)
    return _chk(d)


def mendel_ok(gf, gm, gc):
    return any(sorted((a, b)) == sorted(gc) for a in gf for b in gm)


class PedMendel(DPCheck):
    name = "ped_mendel"
    required_cover = ["symbolic run completed", "state merging exercised", "child alleles from parents", "transmission selects parental haplotype", "genetic haplotyping without reads"]
    assumptions = DPCheck.assumptions + ["trusted genotypes, Mendelian-consistent at every column (conflicting columns are removed before the solver is called - part (b))",
                                         "the labelling of the two parental haplotypes by the transmission bits is a fixed convention that the statement does not spell out: the obligation holds if ONE of the two possible conventions (bit = haplotype index, or bit = 1 - haplotype index; father = value % 2, mother = value // 2 as written to --recombination-list) holds for ALL inputs of the shape"]

    def shapes(self, tier):
        out = []
        W = 15 if tier == "quick" else 31
        allhet = lambda C: [[H] * C, [H] * C, [H] * C]
        if tier == "quick":
            out.append(trio(2, [(2, (0, 1)), (2, (0, 1))], allhet(2), W=W, Rc=W))
            # child het, one parent homozygous, NO read at all in column 1 -> genetic haplotyping
            out.append(trio(2, [(2, (0,)), (0, (0,))], [[H, (0, 0)], [H, H], [H, H]], W=W, Rc=W, noreads_cols=[1]))
            out.append(trio(2, [(0, (0, 1)), (2, (0, 1))], [[H, H], [(0, 0), (1, 1)], [H, H]], W=W, Rc=W))
        else:
            for reads in ([(2, (0, 1)), (2, (0, 1))], [(0, (0, 1)), (1, (0, 1)), (2, (0, 1))], [(0, (0, 1, 2)), (2, (0, 1, 2))], [(1, (0, 1)), (0, (0, 2)), (2, (1, 2))]):
                C = 1 + max(max(c) for s, c in reads)
                out.append(trio(C, reads, allhet(C), W=W, Rc=W))
            for gf, gm, gc in itertools.product([(0, 0), H, (1, 1)], repeat=3):
                if mendel_ok(gf, gm, gc):
                    out.append(trio(2, [(0, (0, 1)), (2, (0, 1))], [[H, gf], [H, gm], [H, gc]], W=W, Rc=W))
                    if gc == H and (gf != H or gm != H):
                        out.append(trio(2, [(2, (0,)), (0, (0,))], [[H, gf], [H, gm], [H, gc]], W=W, Rc=W, noreads_cols=[1]))
            out.append(quartet(2, [(2, (0, 1)), (3, (0, 1))], [[H, H], [H, H], [H, H], [H, H]], W=W, Rc=W))
        return out

    def bounds(self, tier):
        return "%d trio%s shapes, <= 3 reads, <= 3 columns, every Mendelian-consistent genotype combination at the second column (thorough), columns without any read; symbolic alleles, weights, recombination costs" % (len(self.shapes(tier)), "" if tier == "quick" else "/quartet")

    def obligations(self, run, orc, tier):
        from vf.llsym import dpcheck

        it, shape = run.it, run.shape
        outs = {k: v[1] for k, v in it.outputs.items()}
        C = shape["ncols"]
        idx = {ind: i for i, ind in enumerate(shape["individuals"])}
        sr = lambda k, h, c: dpcheck.to_z3(it, outs[("sr_%d_%d" % (k, h), c)])
        tv = [dpcheck.to_z3(it, outs[("tv", c)]) for c in range(C)]
        bad_from = []
        conv = {0: [], 1: []}  # convention 0: haplotype index = bit ; 1: haplotype index = 1 - bit
        for t, (f, m, ch) in enumerate(shape["trios"]):
            f, m, ch = idx[f], idx[m], idx[ch]
            for c in range(C):
                gf, gm = shape["genotypes"][f][c], shape["genotypes"][m][c]
                a0, a1 = sr(ch, 0, c), sr(ch, 1, c)
                bad_from.append(z3.And(a0 != 3, z3.And(*[a0 != x for x in set(gf)])))
                bad_from.append(z3.And(a1 != 3, z3.And(*[a1 != x for x in set(gm)])))
                val = (tv[c] / (4 ** t)) % 4
                bf, bm = val % 2, val / 2
                f0, f1, m0, m1 = sr(f, 0, c), sr(f, 1, c), sr(m, 0, c), sr(m, 1, c)
                okf = z3.And(a0 != 3, f0 != 3, f1 != 3)
                okm = z3.And(a1 != 3, m0 != 3, m1 != 3)
                for cv in (0, 1):
                    sel_f = z3.If(bf == (0 if cv == 0 else 1), f0, f1)
                    sel_m = z3.If(bm == (0 if cv == 0 else 1), m0, m1)
                    conv[cv].append(z3.And(okf, a0 != sel_f))
                    conv[cv].append(z3.And(okm, a1 != sel_m))
        yield ("child alleles come from the respective parent's genotype", z3.Or(*bad_from), "child alleles from parents")
        # one convention must hold for all inputs: the conjunction "both conventions are violated (by possibly different inputs)" is
        # checked as two queries; we report a violation only if BOTH are satisfiable -> encode as one query over two copies of the inputs
        names = list(it.inputs)
        ren = [(it.inputs[n][0], z3.Int(n + "__2")) for n in names]
        second = z3.substitute(z3.Or(*conv[1]), *ren)
        second_cons = [z3.substitute(c, *ren) for c in it.constraints]
        yield ("transmission value selects the parental haplotype under one fixed labelling", z3.And(z3.Or(*conv[0]), second, *second_cons), "transmission selects parental haplotype")
        for c in shape.get("noreads_cols", []):
            flagged = []
            for t, (f, m, ch) in enumerate(shape["trios"]):
                ch = idx[ch]
                flagged.append(z3.Or(sr(ch, 0, c) == 3, sr(ch, 1, c) == 3))
            yield ("child phased at read-less column %d" % c, z3.Or(*flagged), "genetic haplotyping without reads")

    def judge_concrete(self, shape, inp, native):
        st, exc, outs = native
        if st != "ok":
            return "solver failed on a Mendelian-consistent instance: %s" % (exc or st)
        idx = {ind: i for i, ind in enumerate(shape["individuals"])}
        C = shape["ncols"]
        inp2 = {k[:-3]: v for k, v in inp.items() if k.endswith("__2")}
        for t, (f, m, ch) in enumerate(shape["trios"]):
            f, m, ch = idx[f], idx[m], idx[ch]
            for c in range(C):
                a0, a1 = outs[("sr_%d_0" % ch, c)], outs[("sr_%d_1" % ch, c)]
                if a0 != 3 and a0 not in shape["genotypes"][f][c]:
                    return "child allele %d on the paternal haplotype at column %d is not among the father's alleles %s" % (a0, c, shape["genotypes"][f][c])
                if a1 != 3 and a1 not in shape["genotypes"][m][c]:
                    return "child allele %d on the maternal haplotype at column %d is not among the mother's alleles %s" % (a1, c, shape["genotypes"][m][c])
        for c in shape.get("noreads_cols", []):
            for t, (f, m, ch) in enumerate(shape["trios"]):
                ch = idx[ch]
                if 3 in (outs[("sr_%d_0" % ch, c)], outs[("sr_%d_1" % ch, c)]):
                    return "child not phased at read-less column %d although a parent is homozygous" % c
        # labelling convention: this input violates convention 0; the renamed second input violates convention 1
        def violates(o, cv):
            for t, (f, m, ch) in enumerate(shape["trios"]):
                f, m, ch = idx[f], idx[m], idx[ch]
                for c in range(C):
                    val = (o[("tv", c)] // (4 ** t)) % 4
                    bf, bm = val % 2, val // 2
                    a0, a1 = o[("sr_%d_0" % ch, c)], o[("sr_%d_1" % ch, c)]
                    fs = [o[("sr_%d_%d" % (f, h), c)] for h in (0, 1)]
                    ms = [o[("sr_%d_%d" % (m, h), c)] for h in (0, 1)]
                    if 3 not in [a0] + fs and a0 != fs[bf if cv == 0 else 1 - bf]:
                        return True
                    if 3 not in [a1] + ms and a1 != ms[bm if cv == 0 else 1 - bm]:
                        return True
            return False

        if inp2:
            from vf.llsym import pipeline, dp_harness

            exe = pipeline.native_twin(dp_harness.generate(shape))
            st2, exc2, outs2 = pipeline.run_native(exe, inp2)
            if st2 == "ok" and violates(outs, 0) and violates(outs2, 1):
                return "no fixed labelling of parental haplotypes by the transmission value explains the child's alleles (one input contradicts bit=index, another contradicts bit=1-index)"
        return None


SUBCHECKS = {c.name: c for c in [PedMendel()]}


# ---------------------------------------------------------------------------
# (b) variants with a conflict / missing genotype never reach the solver
# ---------------------------------------------------------------------------
from vf.runner import SubCheck
from vf.pysym.loader import SymWorld

GT_CLASSES = {"0/0": [0, 0], "0/1": [0, 1], "1/1": [1, 1], "./.": []}


class PedFilter(SubCheck):
    name = "ped_filter"
    encoded = ["whatshap.cli.phase.find_phaseable_variants", "find_mendelian_conflicts", "whatshap.pedigree.mendelian_conflict", "VariantTable.remove_rows_by_index / genotypes_of"]
    sources = ["whatshap/cli/phase.py", "whatshap/pedigree.py", "whatshap/vcf.py"]
    stubs = ["whatshap.core.Genotype: vf/models/core_model.py in the symbolic run, compiled class in the replay", "whatshap.cli package import stubbed (CommandLineError only)"]
    assumptions = ["diploid biallelic genotypes (what whatshap phase accepts)", "a variant absent from the phasable table is written unphased for all family members (C04: only positions present in components/super reads get phased)"]
    required_cover = ["conflict variant", "missing genotype variant", "consistent variant retained", "homozygous parent"]

    def shapes(self, tier):
        out = [dict(fam="trio", nvar=1), dict(fam="trio", nvar=2), dict(fam="quartet", nvar=1)]
        if tier != "quick":
            out.append(dict(fam="quartet", nvar=2, only_child2_varies=True))
            out.append(dict(fam="trio", nvar=3, first_fixed=True))
        return out

    def bounds(self, tier):
        return "trio with 1-2 (thorough: 3) variants and two-child quartet with 1 (2) variants; each member's genotype solver-chosen from {0/0, 0/1, 1/1, missing}; include_homozygous on/off"

    def setup(self):
        import types
        from vf.models import core_model

        climod = types.ModuleType("whatshap.cli")
        climod.__path__ = []
        climod.CommandLineError = type("CommandLineError", (Exception,), {})
        climod.log_memory_usage = lambda *a, **k: None
        climod.PhasedInputReader = None
        w = SymWorld(overrides={"whatshap.core": core_model, "whatshap.cli": climod, "whatshap.readselect": types.SimpleNamespace(readselection=None)})
        self.sym = dict(phase=w.load("whatshap.cli.phase"), vcf=w.load("whatshap.vcf"), ped=w.load("whatshap.pedigree"), core=core_model)
        from vf.models import vcfdoc

        vcfdoc.ensure_real()  # core, align, _variants rebuilt from the working tree: the set the `run` sub-check loads in the same worker
        import whatshap.cli.phase as rp, whatshap.vcf as rv, whatshap.pedigree as rped, whatshap.core as rc

        self.real = dict(phase=rp, vcf=rv, ped=rped, core=rc)

    def sym_impl(self):
        return self.sym

    def real_impl(self):
        return self.real

    def harness(self, e, shape, impl):
        phase, vcf, ped, core = impl["phase"], impl["vcf"], impl["ped"], impl["core"]
        members = ["f", "m", "c1"] + (["c2"] if shape["fam"] == "quartet" else [])
        trios = [ped.Trio(child="c1", father="f", mother="m")] + ([ped.Trio(child="c2", father="f", mother="m")] if shape["fam"] == "quartet" else [])
        nvar = shape["nvar"]
        vt = vcf.VariantTable("chr1", members)
        cls = []
        for v in range(nvar):
            row = []
            for s in members:
                if (shape.get("first_fixed") and v == 0) or (shape.get("only_child2_varies") and v == 0 and s != "c2"):
                    k = "0/1"
                else:
                    k = e.choice("gt_%d_%s" % (v, s), sorted(GT_CLASSES))
                row.append(k)
            cls.append(row)
            vt.add_variant(vcf.BiallelicVcfVariant(100 * (v + 1), "A", "C"), [core.Genotype(GT_CLASSES[k]) for k in row], [None] * len(members), [None] * len(members), [None] * len(members))
        include_hom = bool(e.bit("include_homozygous"))
        try:
            hom_positions, table = phase.find_phaseable_variants(members, include_hom, trios, vt)
        except Exception as ex:
            if isinstance(ex, TypeError) and ("argument" in str(ex) or "positional" in str(ex)):
                from vf.pysym.engine import Unsupported

                raise Unsupported("find_phaseable_variants no longer has the interface this unit harness drives (%s); the run_whatshap-level sub-check ped_genetic does not depend on it" % ex)
            e.check(False, "find_phaseable_variants raised %s on a family with conflicting/missing genotypes instead of leaving the variant unphased" % type(ex).__name__, lambda: dict(genotypes=cls))
            return
        kept = [v.position for v in table.variants]
        e.out("kept", kept)
        e.out("hom", sorted(hom_positions))
        for v in range(nvar):
            pos = 100 * (v + 1)
            row = dict(zip(members, cls[v]))
            missing = any(k == "./." for k in row.values())
            conflict = False
            for t in trios:
                gf, gm, gc = GT_CLASSES[row[t.father]], GT_CLASSES[row[t.mother]], GT_CLASSES[row[t.child]]
                if gf and gm and gc and not any(sorted((a, b)) == sorted(gc) for a in gf for b in gm):
                    conflict = True
            if conflict:
                e.cover("conflict variant")
                e.check(pos not in kept, "a variant with a Mendelian conflict is handed to the solver", lambda: dict(genotypes=row))
            if missing:
                e.cover("missing genotype variant")
                e.check(pos not in kept, "a variant with a missing genotype in the family is handed to the solver", lambda: dict(genotypes=row))
            anyhet = any(row[t.child] == "0/1" for t in trios)  # the statement speaks of child-heterozygous variants
            if not conflict and not missing and anyhet:
                e.cover("consistent variant retained")
                e.check(pos in kept, "a Mendelian-consistent child-heterozygous variant is not handed to the solver", lambda: dict(genotypes=row))
                if any(k in ("0/0", "1/1") for k in row.values()):
                    e.cover("homozygous parent")
                    e.check(pos in hom_positions, "a retained variant that is homozygous in a family member is missing from the genetic-haplotyping positions", lambda: dict(genotypes=row))
        for p in hom_positions:
            e.check(p in kept, "genetic-haplotyping position that is not among the phasable variants", lambda: dict(hom=list(hom_positions), kept=kept))
        e.check(len(table.genotypes_of("c1")) == len(kept), "phasable table rows inconsistent", None)


SUBCHECKS["ped_filter"] = PedFilter()


# =====================================================================================================================
# ped_parts: which bits of the reported transmission value belong to which child (LLSym over Pedigree + PedigreePartitions)
# =====================================================================================================================
PARTS_UNITS = ["pedigree.cpp", "pedigreepartitions.cpp", "genotype.cpp", "binomial.cpp", "phredgenotypelikelihoods.cpp"]


def parts_harness(shape):
    """individual ids 10.. (ids differ from indices); the relationships are added in one of the listed orders (symbolic);
    the transmission value is an arbitrary value of 2 bits per relationship"""
    n, orders = shape["nind"], shape["orders"]
    nt = len(orders[0])
    L = ['#include <vector>', '#include "pedigree.h"', '#include "pedigreepartitions.h"', 'extern "C" unsigned sym_vs(const char*, unsigned, unsigned);', 'extern "C" void sym_out(const char*, unsigned, unsigned);', 'extern "C" void harness() {']
    L.append("  Pedigree ped; std::vector<Genotype*> g; std::vector<PhredGenotypeLikelihoods*> l;")
    L.append("  for (unsigned i = 0; i < %d; ++i) ped.addIndividual(10 + i, g, l);" % n)
    L.append('  unsigned order = sym_vs("order", 0, %d);' % (len(orders) - 1))
    for k, o in enumerate(orders):
        L.append("  %sif (order == %d) { %s }" % ("else " if k else "", k, " ".join("ped.addRelationship(%d, %d, %d);" % (10 + f, 10 + m, 10 + c) for f, m, c in o)))
    L.append('  unsigned tv = sym_vs("tv", 0, %d);' % (4 ** nt - 1))
    L.append("  PedigreePartitions pp(ped, tv);")
    L.append('  sym_out("count", 0, pp.count());')
    L.append('  for (unsigned i = 0; i < %d; ++i) for (unsigned h = 0; h < 2; ++h) sym_out("h2p", 2 * i + h, (unsigned)pp.haplotype_to_partition(i, h));' % n)
    L.append("}")
    return "\n".join(L) + "\n"


def parts_expected(shape, order, tv, flip):
    """haplotype -> partition under the convention the Python side relies on: the k-th ADDED relationship owns bits 2k
    (father) and 2k+1 (mother) of the transmission value (phase.py / write_recombination_list decode it that way);
    `flip` chooses which bit value names which parental haplotype."""
    n = shape["nind"]
    rel = shape["orders"][order]
    children = {c for _, _, c in rel}
    h2p, p = {}, 0
    for i in range(n):
        if i not in children:
            h2p[i] = [p, p + 1]
            p += 2
    todo = list(enumerate(rel))
    while todo:
        rest = []
        for k, (f, m, c) in todo:
            if f in h2p and m in h2p:
                fb, mb = (tv >> (2 * k)) & 1, (tv >> (2 * k + 1)) & 1
                h2p[c] = [h2p[f][fb ^ flip], h2p[m][mb ^ flip]]
            else:
                rest.append((k, (f, m, c)))
        assert len(rest) < len(todo)
        todo = rest
    return h2p, p


class PedParts(SubCheck):
    """Child haplotype 0 shares its partition with the father's haplotype, haplotype 1 with the mother's haplotype selected
    by THAT child's two bits of the transmission value - for every order in which the relationships were added."""

    name = "ped_parts"
    encoded = ["Pedigree::addIndividual / addRelationship / id_to_index / get_triples", "PedigreePartitions::PedigreePartitions / compute_haplotype_to_partition_rec / haplotype_to_partition / count (all from LLVM IR, clang++-14 -O1)"]
    sources = ["src/pedigree.cpp", "src/pedigree.h", "src/pedigreepartitions.cpp", "src/pedigreepartitions.h"]
    stubs = ["libstdc++ externals of vf/llsym/interp.py"]
    assumptions = ["the k-th added relationship owns bits 2k (father) and 2k+1 (mother) of the transmission value - the decoding used by whatshap/cli/phase.py and whatshap/pedigree.py; which bit value names which parental haplotype is one fixed convention (as ped_mendel)"]
    required_cover = ["partitions of every transmission value", "relationships added in another order than the individuals"]

    def shapes(self, tier):
        out = [
            dict(fam="trio", nind=3, orders=[[(0, 1, 2)]]),
            dict(fam="quartet", nind=4, orders=[[(0, 1, 2), (0, 1, 3)], [(0, 1, 3), (0, 1, 2)]]),
            dict(fam="child listed before its parents", nind=3, orders=[[(1, 2, 0)]]),
        ]
        if tier != "quick":
            out.append(dict(fam="two trios", nind=6, orders=[[(0, 1, 2), (3, 4, 5)], [(3, 4, 5), (0, 1, 2)]]))
            out.append(dict(fam="three generations", nind=5, orders=[[(0, 1, 2), (2, 3, 4)], [(2, 3, 4), (0, 1, 2)]]))
            out.append(dict(fam="three children", nind=5, orders=[[(0, 1, 2), (0, 1, 3), (0, 1, 4)], [(0, 1, 4), (0, 1, 2), (0, 1, 3)], [(0, 1, 3), (0, 1, 4), (0, 1, 2)]]))
        return out

    def bounds(self, tier):
        return "families: %s; relationships added in every listed order (symbolic), ALL transmission values (2 bits per relationship) at once as a value-set input" % ", ".join(s["fam"] for s in self.shapes(tier))

    def setup(self):
        from vf.llsym import pipeline

        pipeline.ensure_ir2json()
        pipeline.core_bitcode(PARTS_UNITS)

    def judge(self, shape, inp, native):
        st, exc, o = native
        if st != "ok":
            return "PedigreePartitions fails on a valid pedigree: %s" % (exc or st)
        bad = []
        for flip in (1, 0):
            exp, cnt = parts_expected(shape, inp["order"], inp["tv"], flip)
            got = {i: [o[("h2p", 2 * i)], o[("h2p", 2 * i + 1)]] for i in range(shape["nind"])}
            if got != exp or o[("count", 0)] != cnt:
                bad.append("relationships %s, transmission value %d: haplotype partitions %s, expected %s" % (shape["orders"][inp["order"]], inp["tv"], got, exp))
        return bad[0] if len(bad) == 2 else None

    def run(self, shape, tier, seed):
        import time
        from vf.llsym import pipeline, irmod, dpcheck
        from vf.llsym.interp import Interp, run_in_thread
        from vf.llsym.values import Unsupported
        from vf.runner import JobResult

        t0 = time.time()
        src = parts_harness(shape)
        errors, viol, samples, cover = [], [], [], {}
        stats = dict(paths=0, decisions=0, solver_queries=0, solver_s=0.0)
        nob = ndis = ninc = replays = 0
        try:
            mod = irmod.Module(pipeline.harness_module(src, PARTS_UNITS))
            it = Interp(mod, inputs_symbolic=True, time_budget=600)
            status = run_in_thread(lambda: it.run_harness())
        except Unsupported as u:
            return JobResult(sub=self.name, shape=shape, stats=stats, violations=[], samples=[], cover={}, errors=([] if "time budget exceeded" in str(u) else ["LLSym unsupported: %s" % u]), replays=0, obligations=1, discharged=0, inconclusive=1, wall_s=time.time() - t0)
        stats["decisions"] = it.stats["merges"] + it.stats["splits"]
        exe = pipeline.native_twin(src, PARTS_UNITS, tag="pptwin")
        cons = list(it.constraints)
        if status != "ok":
            errors.append("symbolic run aborted: %r" % (status,))
        else:
            outs = {k: v[1] for k, v in it.outputs.items()}
            Z = lambda key: dpcheck.to_z3(it, outs[key])
            order, tv = it.inputs["order"][0], it.inputs["tv"][0]
            n = shape["nind"]
            nt = len(shape["orders"][0])
            notab = [z3.Not(it.lits.guard_expr(frozenset(g))) for g, k, m in it.aborts]
            # the expected table as an if-then-else over the (small) input domain, per convention
            wrong = {}
            for flip in (1, 0):
                cases = []
                for oi in range(len(shape["orders"])):
                    for t in range(4 ** nt):
                        exp, cnt = parts_expected(shape, oi, t, flip)
                        ok = z3.And(Z(("count", 0)) == cnt, *[Z(("h2p", 2 * i + h)) == exp[i][h] for i in range(n) for h in (0, 1)])
                        cases.append(z3.And(order == oi, tv == t, z3.Not(ok)))
                wrong[flip] = z3.Or(*cases)
            res = {}
            for flip in (1, 0):
                nob += 1
                r, model, dt = dpcheck.solve(wrong[flip], cons + notab, 300000)
                stats["solver_queries"] += 1
                stats["solver_s"] += dt
                res[flip] = (r, model)
            for g, kind, msg in it.aborts:
                nob += 1
                r, model, dt = dpcheck.solve(it.lits.guard_expr(frozenset(g)), cons, 300000)
                stats["solver_queries"] += 1
                stats["solver_s"] += dt
                if r == "unsat":
                    ndis += 1
                elif r == "unknown":
                    ninc += 1
                else:
                    inp = {nm: model.eval(x, model_completion=True).as_long() for nm, (x, lo, hi) in it.inputs.items()}
                    nat = pipeline.run_native(exe, inp)
                    replays += 1
                    if nat[0] != "ok":
                        viol.append(dict(sub=self.name, shape=shape, witness=inp, msg="PedigreePartitions fails on a valid pedigree: %s" % (nat[1] or nat[0]), info=None, reproduced=True, concrete=[nat[0], nat[1]]))
                    else:
                        errors.append("reachable %s (%s) not confirmed natively for %r" % (kind, msg, inp))
            cover["partitions of every transmission value"] = 1
            if len(shape["orders"]) > 1:
                cover["relationships added in another order than the individuals"] = 1
            rs = [res[1][0], res[0][0]]
            if "unsat" in rs:
                ndis += 2  # one convention holds for all inputs: the weaker reading is proved, the other query is moot
                samples.append(dict(sub=self.name, shape=shape, obligation="partitions follow the added relationship's bits under one fixed convention", result="unsat (convention: bit %s selects haplotype 0)" % ("1" if res[1][0] == "unsat" else "0")))
            elif "unknown" in rs:
                ninc += 2
            else:
                # both conventions have counter-examples: prefer one input that contradicts both
                nob += 1
                rb, mb, dt = dpcheck.solve(z3.And(wrong[1], wrong[0]), cons + notab, 300000)
                stats["solver_queries"] += 1
                stats["solver_s"] += dt
                model = mb if rb == "sat" else res[1][1]
                inp = {nm: model.eval(x, model_completion=True).as_long() for nm, (x, lo, hi) in it.inputs.items()}
                nat = pipeline.run_native(exe, inp)
                replays += 1
                why = self.judge(shape, inp, nat)
                if why is None:
                    # the model of the other convention may be the one that fails both
                    model = res[0][1]
                    inp = {nm: model.eval(x, model_completion=True).as_long() for nm, (x, lo, hi) in it.inputs.items()}
                    nat = pipeline.run_native(exe, inp)
                    replays += 1
                    why = self.judge(shape, inp, nat)
                if why:
                    viol.append(dict(sub=self.name, shape=shape, witness=inp, msg="the child's partitions are not those selected by its own bits of the transmission value", info=dict(detail=why), reproduced=True, concrete=[nat[0], nat[1]]))
                else:
                    # each convention fails somewhere, but no single input fails both: still no fixed convention holds
                    viol.append(dict(sub=self.name, shape=shape, witness=inp, msg="no fixed labelling convention of the transmission bits holds for all inputs", info=None, reproduced=True, concrete=[nat[0], nat[1]]))
            # validation of the symbolic result against the native twin
            import random

            rnd = random.Random(seed)
            for _ in range(4):
                inp = {nm: rnd.randint(lo, hi) for nm, (x, lo, hi) in it.inputs.items()}
                st, exc, nout = pipeline.run_native(exe, inp)
                replays += 1
                sub = [(x, z3.IntVal(inp[nm])) for nm, (x, lo, hi) in it.inputs.items()]
                for key, v in outs.items():
                    ev = z3.simplify(z3.substitute(dpcheck.to_z3(it, v), *sub))
                    if st == "ok" and (not z3.is_int_value(ev) or ev.as_long() != nout.get(key)):
                        errors.append("symbolic result disagrees with native twin at %s for %r: %s vs %s" % (key, inp, ev, nout.get(key)))
                        break
        stats["paths"] = nob
        return JobResult(sub=self.name, shape=shape, stats=stats, violations=viol, samples=samples, cover=cover, errors=errors, replays=replays, obligations=nob, discharged=ndis, inconclusive=ninc, wall_s=time.time() - t0)

    def replay(self, shape, witness):
        from vf.llsym import pipeline

        exe = pipeline.native_twin(parts_harness(shape), PARTS_UNITS, tag="pptwin")
        nat = pipeline.run_native(exe, witness)
        why = self.judge(shape, witness, nat)
        return ("violation" if why else "ok"), why, []

    def classify(self, shape, v):
        return "ped_parts:%s:%s" % (v["msg"], shape["fam"])


SUBCHECKS["ped_parts"] = PedParts()


# =====================================================================================================================
# ped_genetic: "by default child-heterozygous variants with a homozygous parent are phased even without any read"
# - the Python side: such a variant reaches the solver and the writer whatever the reads look like
# =====================================================================================================================
class PedGenetic(SubCheck):
    """run_whatshap itself (default options, --ped) under stubs, as C20's harness: the VCF reader yields a solver-chosen trio
    table, the phased-input reader yields solver-chosen read sets (none at all included), the exact solver is a contract
    stub that phases every position it is given (ped_mendel shows the real DP does so, unflagged, for a child-heterozygous
    column with a homozygous parent and no read), the VCF writer records what it is asked to write.  Asserted: every
    Mendelian-consistent variant that is heterozygous in the child and homozygous in a parent is among the positions
    handed to the solver and has a phase set (component) for the child in what the writer gets - with or without reads."""

    name = "ped_genetic"
    encoded = ["whatshap.cli.phase.run_whatshap (family loop: read selection result -> accessible positions -> genetic haplotyping positions -> solver -> compute_overall_components -> writer)", "find_phaseable_variants", "find_mendelian_conflicts",
               "setup_families", "setup_pedigree", "create_pedigree", "merge_readsets", "find_components", "compute_overall_components", "whatshap.pedigree.PedReader / mendelian_conflict / UniformRecombinationCostComputer", "whatshap.graph.ComponentFinder"]
    sources = ["whatshap/cli/phase.py", "whatshap/pedigree.py", "whatshap/vcf.py", "whatshap/graph.py", "whatshap/merge.py"]
    stubs = ["VcfReader (yields the harness' VariantTable)", "PhasedInputReader.read (harness-chosen read sets: none, one read over all variants, one read over the first two)", "readselection (identity)",
             "Pedigree / PedigreeDPTable: contract stub returning super reads that carry an allele at every position they were given (justified by ped_mendel for read-less columns) and a constant transmission vector",
             "PhasedVcfWriter: records (super reads, components) - that a variant present in both with a heterozygous genotype gets phased is C04's claim", "open: in-memory PED file; whatshap.core data classes: vf/models/core_model.py, compiled module in the replay"]
    assumptions = ["default options of `whatshap phase --ped` (genetic haplotyping on, genotypes trusted, homozygous variants not included)", "trio father/mother/child listed in the PED file; diploid biallelic called genotypes"]
    required_cover = ["no read at all on the chromosome", "read-less variant with a homozygous parent", "exactly one variant homozygous in a family member", "two such variants", "variant covered by a read", "Mendelian conflict variant present", "two families in one run", "variant consistent in one family, conflicting in the other"]
    hash_mode = "concretise"

    # representative family rows (father, mother, child) for the longer shapes
    ROWS = [("0/0", "0/1", "0/1"), ("0/1", "0/0", "0/1"), ("1/1", "0/1", "0/1"), ("0/1", "0/1", "0/1"), ("0/0", "1/1", "0/1"), ("0/1", "0/1", "0/0"), ("0/0", "0/0", "0/1"), ("0/0", "0/0", "0/0")]

    def shapes(self, tier):
        out = [dict(nvar=1, rows="all")]
        out += [dict(nvar=2, rows="all", first=list(r)) for r in itertools.product(["0/0", "0/1", "1/1"], repeat=3)]
        out += [dict(nvar=3, rows="representative", first=list(r)) for r in self.ROWS]
        # a second, unrelated trio in the same VCF / PED: what one family's genotypes look like must not matter to the other
        out += [dict(nvar=n, rows="representative", first=list(r), fam2=True) for n in (1, 2) for r in self.ROWS]
        if tier != "quick":
            out += [dict(nvar=4, rows="representative", first=list(r), second=list(r2)) for r in self.ROWS for r2 in self.ROWS]
        return out

    def bounds(self, tier):
        return ("trio, one chromosome; 1-2 variants: every member's genotype at every variant solver-chosen from {0/0, 0/1, 1/1}; 3%s variants: every variant one of 8 representative family rows "
                "(one / the other / no parent homozygous, both homozygous, child homozygous, conflict, all homozygous); reads per sample solver-chosen from {none, one read over all variants, one over the first two}" % ("" if tier == "quick" else "-4"))

    setup = PedFilter.setup
    sym_impl = PedFilter.sym_impl
    real_impl = PedFilter.real_impl

    def harness(self, e, shape, impl):
        import io
        import os
        import shutil
        import tempfile

        phase, vcf, core = impl["phase"], impl["vcf"], impl["core"]
        real = impl is self.real
        fam2 = bool(shape.get("fam2"))
        members = ["f", "m", "c"] + (["f2", "m2", "c2"] if fam2 else [])
        families = [("f", "m", "c")] + ([("f2", "m2", "c2")] if fam2 else [])
        if fam2:
            e.cover("two families in one run")
        nvar = shape["nvar"]
        positions = [100 * (v + 1) for v in range(nvar)]
        GT = {"0/0": [0, 0], "0/1": [0, 1], "1/1": [1, 1]}
        rows = []
        for v in range(nvar):
            fixed = shape.get("first") if v == 0 else shape.get("second") if v == 1 else None
            if fixed is not None:
                rows.append(dict(zip(members, fixed)))
            elif shape["rows"] == "all":
                rows.append({s: e.choice("gt_%d_%s" % (v, s), sorted(GT)) for s in members})
            else:
                rows.append(dict(zip(members, e.choice("row_%d" % v, self.ROWS))))
            if fam2:
                rows[-1].update(zip(("f2", "m2", "c2"), e.choice("row2_%d" % v, self.ROWS)))
        vt = vcf.VariantTable("chr1", members)
        for v in range(nvar):
            vt.add_variant(vcf.BiallelicVcfVariant(positions[v], "A", "C"), [core.Genotype(GT[rows[v][s]]) for s in members], [None] * len(members), [None] * len(members), [None] * len(members))
        pats = {s: (e.choice("reads_%s" % s, ["none", "all", "first two"]) if not fam2 else "none") for s in members}
        seen = dict(dp_positions=None, components=None, superreads=None, dp={})

        class VcfReaderStub:
            def __init__(s2, *a, **k):
                s2.samples = list(members)

            def __enter__(s2):
                return s2

            def __exit__(s2, *a):
                return None

            def __iter__(s2):
                return iter([vt])

        class WriterStub:
            def __init__(s2, *a, **k):
                pass

            def __enter__(s2):
                return s2

            def __exit__(s2, *a):
                return None

            def write(s2, chromosome, superreads, components):
                seen["components"] = dict(seen["components"] or {}, **{s: dict(c) for s, c in components.items()})
                seen["superreads"] = dict(seen["superreads"] or {}, **{s: sorted(v.position for v in rs[0]) for s, rs in superreads.items()})
                return []

            def write_unchanged(s2, chromosome):
                seen["unchanged"] = True

        class InputReaderStub:
            has_vcfs = False
            has_alignments = False

            def __init__(s2, paths, ref, numeric_sample_ids, *a, **k):
                s2.nsi = numeric_sample_ids

            def __enter__(s2):
                return s2

            def __exit__(s2, *a):
                return None

            def read_vcfs(s2):
                pass

            def read(s2, chromosome, variants, sample):
                rs = core.ReadSet()
                pos = [v.position for v in variants]
                span = {"none": [], "all": pos, "first two": pos[:2]}[pats[sample]]
                if len(span) >= 2:
                    r = core.Read("read_%s" % sample, 50, 0, s2.nsi[sample])
                    for p in span:
                        r.add_variant(p, 0, 10)
                    rs.add(r)
                return rs, set()

        class PedStub:
            def __init__(s2, nsi):
                s2.nsi, s2.samples, s2.trios = nsi, [], []

            def add_individual(s2, sample, gts, gls=None):
                s2.samples.append(sample)

            def add_relationship(s2, father_id, mother_id, child_id):
                s2.trios.append((father_id, mother_id, child_id))

        class DPStub:
            def __init__(s2, all_reads, recomb, pedigree, distrust, positions):
                s2.positions, s2.ped, s2.reads = list(positions), pedigree, all_reads
                seen["dp_positions"] = list(positions)
                for smp in pedigree.samples:
                    seen["dp"][smp] = list(positions)
                seen["dp_reads"] = [(r.name, [v.position for v in r]) for r in all_reads]

            def get_super_reads(s2):
                out = []
                for s in s2.ped.samples:
                    rs = core.ReadSet()
                    for h in (0, 1):
                        r = core.Read("superread_%d_%s" % (h, s), -1, -1, s2.ped.nsi[s])
                        for p in s2.positions:
                            r.add_variant(p, h, 0)
                        rs.add(r)
                    out.append(rs)
                return out, [0] * len(s2.positions)

            def get_optimal_cost(s2):
                return 0

            def get_optimal_partitioning(s2):
                return [0] * len(s2.reads)

        tmp = tempfile.mkdtemp(prefix="c05-", dir="/var/tmp")
        ped_path = os.path.join(tmp, "ped.txt")
        open(ped_path, "w").write("fam1 c f m 0 1\n" + ("fam2 c2 f2 m2 0 1\n" if fam2 else ""))
        patches = dict(VcfReader=VcfReaderStub, PhasedVcfWriter=WriterStub, PhasedInputReader=InputReaderStub, PedigreeDPTable=DPStub, Pedigree=PedStub,
                       readselection=lambda rs, cov, preferred_source_ids=None, bridging=True: set(range(len(rs))))
        saved = {k: phase.__dict__.get(k) for k in patches}
        phase.__dict__.update(patches)
        exc = None
        try:
            try:
                phase.run_whatshap(phase_input_files=[], variant_file="in.vcf", output=io.StringIO(), ped=ped_path, write_command_line_header=False)
            except Exception as ex:  # noqa
                exc = "%s: %s" % (type(ex).__name__, ex)
        finally:
            for k, v in saved.items():
                if v is None:
                    phase.__dict__.pop(k, None)
                else:
                    phase.__dict__[k] = v
            shutil.rmtree(tmp, ignore_errors=True)
        e.out("dp_positions", seen["dp_positions"])
        e.out("components_of_child", sorted((seen["components"] or {}).get("c", {}).items()))
        e.out("dp_per_sample", sorted(seen["dp"].items()))
        ctx = lambda: dict(genotypes=rows, reads=pats, positions_handed_to_solver=seen["dp_positions"], components=seen["components"], exception=exc)
        e.check(exc is None, "run_whatshap raised on a trio", ctx)
        covered = set()
        for s in members:
            span = {"none": [], "all": positions, "first two": positions[:2]}[pats[s]]
            if len(span) >= 2:
                covered.update(span)
        if all(p == "none" for p in pats.values()):
            e.cover("no read at all on the chromosome")
        wanted = []  # (father, mother, child, position)
        for fa, mo, ch in families:
            for v in range(nvar):
                gf, gm, gc = GT[rows[v][fa]], GT[rows[v][mo]], GT[rows[v][ch]]
                consistent = any(sorted((a, b)) == sorted(gc) for a in gf for b in gm)
                if not consistent:
                    e.cover("Mendelian conflict variant present")
                    continue
                if rows[v][ch] == "0/1" and (rows[v][fa] != "0/1" or rows[v][mo] != "0/1"):
                    wanted.append((fa, mo, ch, positions[v]))
                    if fam2:
                        other = [t for t in families if t[2] != ch][0]
                        og = [GT[rows[v][x]] for x in other]
                        if not any(sorted((a, b)) == sorted(og[2]) for a in og[0] for b in og[1]):
                            e.cover("variant consistent in one family, conflicting in the other")
        # variants the run retains (consistent, heterozygous in some member) and that are homozygous in some member
        fa, mo, ch = families[0]
        hom_retained = [positions[v] for v in range(nvar) if any(sorted((a, b)) == sorted(GT[rows[v][ch]]) for a in GT[rows[v][fa]] for b in GT[rows[v][mo]])
                        and any(rows[v][s] == "0/1" for s in (fa, mo, ch)) and any(rows[v][s] != "0/1" for s in (fa, mo, ch))]
        if len(hom_retained) == 1:
            e.cover("exactly one variant homozygous in a family member")
        if len(hom_retained) >= 2:
            e.cover("two such variants")
        for fa, mo, ch, p in wanted:
            if p in covered:
                e.cover("variant covered by a read")
            else:
                e.cover("read-less variant with a homozygous parent")
            e.check(p in (seen["dp"].get(ch) or []), "a child-heterozygous variant with a homozygous parent is not handed to the solver (it stays unphased although genetic haplotyping is on)",
                    lambda p=p, ch=ch: dict(ctx(), position=p, child=ch, covered_by_a_read=p in covered))
            comp = (seen["components"] or {}).get(ch, {})
            e.check(p in comp, "a child-heterozygous variant with a homozygous parent gets no phase set for the child", lambda p=p, ch=ch: dict(ctx(), position=p, child=ch, covered_by_a_read=p in covered))
            e.check(p in ((seen["superreads"] or {}).get(ch) or []), "a child-heterozygous variant with a homozygous parent is missing from the child's super reads", lambda p=p, ch=ch: dict(ctx(), position=p, child=ch))

    def classify(self, shape, v):
        return "ped_genetic:%s:covered=%s" % (v["msg"], (v.get("info") or {}).get("covered_by_a_read"))


SUBCHECKS["ped_genetic"] = PedGenetic()


# =====================================================================================================================
# run: the same clause on run_whatshap as a whole with the REAL reader and writer (checks/phase_run.py, pedigree shapes)
# =====================================================================================================================
from checks import phase_run as _pr


class Run(_pr.PhaseRun):
    """Trio without any read; the parents are homozygous for different alleles, the child heterozygous.  Every record the
    reader loads (the first usable record at its position) has to come out phased for the child, paternal allele first -
    also when an unusable record (multi-ALT, non-SNV under --only-snvs) shares its position."""

    name = "run"

    required_cover = ["usable record behind an unusable one at the same position", "two usable records at one position", "child phased without any read"]

    def filter_shapes(self, shapes):
        return [s for s in shapes if s.get("ped")]

    def judge(self, e, sc, shape, out, lists, info):
        e.check(len(out["records"]) == len(sc.doc["records"]), "records lost", info)
        seen_pos = set()
        prev_unusable_here = {}
        for ri, ro in zip(sc.doc["records"], out["records"]):
            p = ri["pos"]
            if not sc.usable(ri):
                prev_unusable_here[p] = True
                continue
            first_usable = p not in seen_pos
            seen_pos.add(p)
            if not first_usable:
                e.cover("two usable records at one position")
                continue  # a second usable record at one position is skipped by design (duplicate position)
            if prev_unusable_here.get(p):
                e.cover("usable record behind an unusable one at the same position")
            child = ro["calls"][2]
            fa = ri["calls"][0]["GT"]
            e.check(bool(child.get("phased")) or self.phase_statement(child), "a child-heterozygous variant with homozygous parents is left unphased although no read is needed to phase it (genetic haplotyping)",
                    lambda: dict(info(), record=(ri["chrom"], ri["pos"], ri["alts"])))
            e.cover("child phased without any read")
            # (which allele comes first is the solver's business - ped_mendel; the stand-in solver here does not model it)

    def classify(self, shape, v):
        return "run:%s:same_pos=%s:kinds=%s" % (v["msg"][:60], shape.get("same_pos"), ",".join(shape["kinds"]))


SUBCHECKS["run"] = Run()
