"""C09 - PS and HP encodings are equivalent, round-trip, and never mix old and new phase.

Sub-checks
  codec    a file without phase information is phased by the REAL writer code (PhasedVcfWriter.write ->
           _set_PS / _set_HP) once with tag=PS and once with tag=HP from the same phasing result; both outputs
           are decoded call by call with VcfReader._extract_GT_PS_phase / _extract_HP_phase and as a whole with
           VcfReader(phases=True) -> VariantTable.phases_of.  Oracle: decode(encode(x)) == x for both tags, both
           tags decode to the same phase, nothing decodes where nothing was written.
  rephase  the input already carries phase information (PS/phased GT or HP, own block ids) and is phased again
           with either tag.  Oracle: every phase either decoder extracts from a target-sample call of the output
           is the one the new run wrote; where the new run wrote nothing, nothing decodes (weaker reading of
           "phase statement": only *decodable* phase counts, a stray PS value on an unphased call does not).
  blocks   VariantTable.phased_blocks_as_reads on a symbolic table: one pair of complementary, position-sorted
           pseudo reads per block with >= 2 usable variants, none otherwise.

The model reproduces the write->read normalisation of htslib (e.g. HP=None is written as an empty field and
re-read as (None,) or ('.',) depending on the column), so "decode what was written" is judged on what a
reader of the output file gets; every path is replayed with real pysam / the real decoders.

Not covered here: "a phased VCF as the only phase input reproduces every phase set" needs the DP (C01/C02
lemma with two complementary reads per block); `blocks` establishes the pseudo-read construction it rests on.
"""
from vf.runner import SubCheck
from vf.pysym.loader import SymWorld
from vf.models.vcfdoc import ScratchMixin

from checks import c04

PROPERTY = "C09"


def _norm_phase(p):
    if p is None:
        return None
    return (p.block_id, tuple(p.phase) if p.phase is not None else None, p.quality)


def decode_calls(V, records):
    """[[{'HP': decoded, 'PS': decoded} per sample] per record] with the repo's two decoders"""
    out = []
    for r in records:
        row = []
        for call in r.samples.values():
            d = {}
            for name, fn in (("HP", V.VcfReader._extract_HP_phase), ("PS", V.VcfReader._extract_GT_PS_phase)):
                try:
                    d[name] = _norm_phase(fn(call))
                except Exception as ex:
                    d[name] = "EXC:" + type(ex).__name__
            row.append(d)
        out.append(row)
    return out


def read_tables(V, path, mav):
    """VcfReader(phases=True) over the whole file: per chromosome the positions and phases_of every sample"""
    try:
        out = []
        with V.VcfReader(path, phases=True, mav=bool(mav)) as reader:
            samples = list(reader.samples)
            for table in reader:
                out.append(dict(chrom=table.chromosome, positions=[v.position for v in table.variants], phases={s: [_norm_phase(p) for p in table.phases_of(s)] for s in samples}))
        return out
    except Exception as ex:
        return "EXC:" + type(ex).__name__


class SymCodec:
    def __init__(self, owner):
        self.o = owner
        self.ph = c04.SymPhase(owner)

    def run(self, doc, shape, plan, tag):
        pm = self.o.pm
        out = self.ph.phase(doc, dict(shape, tag=tag), plan)
        pm.FS["out.vcf"] = out
        V = self.o.sym_vcf
        dec = decode_calls(V, list(pm.VariantFile("out.vcf")))
        tables = read_tables(V, "out.vcf", shape.get("mav"))
        return out, dec, tables


class RealCodec:
    def __init__(self, owner):
        self.o = owner
        self.ph = c04.RealPhase(owner)

    def run(self, doc, shape, plan, tag):
        import pysam

        out = self.ph.phase(doc, dict(shape, tag=tag), plan)
        V = self.o.real_vcf
        path = self.o.spath("out.vcf")
        with pysam.VariantFile(path) as f:
            dec = decode_calls(V, list(f))
        tables = read_tables(V, path, shape.get("mav"))
        return out, dec, tables


def expected_new(doc, plan, meta):
    """What the new run states, from the harness inputs only: {(record index, sample index): (block_id, phase)} for
    the calls the run phases (super-read with decided, different alleles at the record VcfReader keeps for that
    position), and the set of target calls on selected chromosomes."""
    selected = {chrom: sel for chrom, sel, _, _ in plan}
    new, targets = {}, set()
    for gi, g in enumerate(meta["groups"]):
        for j in g:
            for t in meta["targets"]:
                if selected[doc["records"][j]["chrom"]]:
                    targets.add((j, t))
        j = meta["accepted"].get(gi)
        if j is None:
            continue
        r = doc["records"][j]
        for t in meta["targets"]:
            al = meta["sr_at"].get((gi, t))
            if al is None or al[0] == al[1] or not all(a in (0, 1) or (meta["mav"] and a != 3) for a in al):
                continue
            new[(j, t)] = (meta["comp_at"][(gi, t)] + 1, (al[0], al[1]))
    return new, targets


class _Base(ScratchMixin, SubCheck):
    sources = ["whatshap/vcf.py"]
    stubs = c04._Base.stubs
    replay_every = 1

    def setup(self):
        c04._Base.setup(self)

    def classify(self, shape, v):
        return "%s:%s" % (self.name, v["msg"])


def _judge(e, name, run_tag, doc, meta, new, targets, dec, info, old_possible):
    """hygiene + round trip for one output; returns nothing, raises through e.check"""
    from vf.models.vcfdoc import deq, Obligations

    ob = Obligations(e, info)
    own = "PS" if run_tag == "PS" else "HP"
    for (j, t) in sorted(targets):
        d = dec[j][t]
        want = new.get((j, t))
        for decoder in ("HP", "PS"):
            got = d[decoder]
            if isinstance(got, str):
                # which written value made the decoder fail is part of the signature
                e.check(False, "%s: decoder _extract_%s_phase raised %s on a target call of the output (run tag %s, call %s by the new run)" % (name, "HP" if decoder == "HP" else "GT_PS", got[4:], run_tag, "phased" if want else "not phased"), info)
            if got is None:
                continue
            if want is None:
                e.check(False, "%s: a target call the new %s run did not phase still decodes to a phase through the %s decoder (old phase information survives)" % (name, run_tag, "HP" if decoder == "HP" else "GT/PS"), info)
            if decoder != own:
                e.check(False, "%s: a target call phased by the new %s run also decodes through the %s decoder (old and new phase mixed)" % (name, run_tag, "HP" if decoder == "HP" else "GT/PS"), info)
            ob.add(deq(got[0], want[0]), "%s: decoded block id differs from component + 1 written by the %s run" % (name, run_tag))
            g0 = doc["records"][j]["calls"][t]["GT"]
            order = "descending" if (len(g0) == 2 and None not in g0 and g0[0] > g0[1]) else "ascending"
            ob.add(deq(tuple(got[1]), tuple(want[1])), "%s: decoded haplotype alleles differ from the phase written by the %s run (input GT of the call listed in %s allele order)" % (name, run_tag, order))
        if want is not None:
            e.check(d[own] is not None, "%s: a call phased by the %s run does not decode (decode(encode(x)) is None)" % (name, run_tag), info)
            e.cover("round trip decoded")
    ob.discharge()


class Codec(_Base):
    """fresh (unphased) file, both tags from one phasing result"""

    name = "codec"
    encoded = ["whatshap.vcf.PhasedVcfWriter.{write,_set_PS,_set_HP,_remove_existing_phasing}", "whatshap.vcf.VcfReader.{_extract_HP_phase,_extract_GT_PS_phase,_process_single_chromosome,__iter__}", "whatshap.vcf.VariantTable.{add_variant,phases_of}"]
    assumptions = c04._Base.assumptions + [
        "positions are concrete in this sub-check (HP ids are formatted into strings): 10/20/... and 2147483600/... (block ids up to 2^31-2)",
        "HP-tag outputs that cannot be parsed at all (finding of C04: NUL bytes) are excluded",
        "multi-allelic mode (mav) is off, as in `whatshap phase`; the HP encoding of alleles >= 2 (polyphase --tag HP) is outside this property",
    ]
    required_cover = ["round trip decoded", "both tags decoded to the same phase", "block id near 2^31", "table-level read compared"]

    def shapes(self, tier):
        from vf.models import vcfdoc

        vcfdoc.prebuild()
        out = []
        for posbase in (10, 2147483600):
            for kind, mav in (("snv", 0), ("indel", 0), ("multi", 0)):
                for targets in ([0], [1], [0, 1]):
                    out.append(dict(tag="HP", nsamp=2, targets=targets, kinds=[kind], pre=["none"], mav=mav, gtset="small" if len(targets) == 2 else "full", rich=0, hv=0, posbase=posbase, unphased_input=1, nt_gt=(0, 1)))
            out.append(dict(tag="HP", nsamp=1, targets=[0], kinds=["snv", "snv"], pre=["none", "none"], gtset="small", rich=0, hv=0, posbase=posbase, unphased_input=1))
            out.append(dict(tag="HP", nsamp=2, targets=[0], kinds=["snv", "multi"], pre=["none", "none"], gtset="small", rich=1, hv=1, posbase=posbase, unphased_input=1, nt_gt=(1, 1)))
        if tier != "quick":
            out.append(dict(tag="HP", nsamp=2, targets=[0, 1], kinds=["snv", "snv"], pre=["none", "none"], gtset="small", rich=0, hv=0, unphased_input=1))
            out.append(dict(tag="HP", nsamp=1, targets=[0], kinds=["snv", "indel", "snv"], pre=["none"] * 3, gtset="small", rich=0, hv=0, unphased_input=1))
        return out

    def bounds(self, tier):
        return "%d shapes: 1-2 (thorough 3) records x 1-2 samples, concrete positions (small and near 2^31), genotype classes / super-read order / component ids solver-chosen; every scenario phased with PS and with HP" % len(self.shapes(tier))

    def sym_impl(self):
        return SymCodec(self)

    def real_impl(self):
        return RealCodec(self)

    def harness(self, e, shape, impl):
        doc, plan, meta = c04.build(e, shape)
        e.assume(not (meta["all_unphased"] and meta["nsamp"] >= 2))
        info = lambda: dict(input=e.value(doc), plan=e.value([list(p) for p in plan]))
        new, targets = expected_new(doc, plan, meta)
        res = {}
        for tag in ("PS", "HP"):
            try:
                res[tag] = impl.run(doc, shape, plan, tag)
            except Exception as ex:
                e.check(False, "codec: phasing with tag %s raised %s" % (tag, type(ex).__name__), info)
            e.out("out." + tag, res[tag][0])
            e.out("decoded." + tag, res[tag][1])
            e.out("tables." + tag, res[tag][2])
        if shape.get("posbase", 10) > 2**30 and new:
            e.cover("block id near 2^31")
        for tag in ("PS", "HP"):
            _judge(e, "codec", tag, doc, meta, new, targets, res[tag][1], info, False)
        # both encodings decode to the same thing, call by call (own decoder each)
        for (j, t) in sorted(targets):
            a, b = res["PS"][1][j][t]["PS"], res["HP"][1][j][t]["HP"]
            e.check((a is None) == (b is None), "codec: a call decodes under one tag only", info)
            if a is not None:
                e.check(a[0] == b[0] and tuple(a[1]) == tuple(b[1]), "codec: PS and HP outputs decode to different phases", info)
                e.cover("both tags decoded to the same phase")
        # whole-file read (VariantTable.phases_of)
        tp, th = res["PS"][2], res["HP"][2]
        for tag, tb in (("PS", tp), ("HP", th)):
            e.check(not isinstance(tb, str), "codec: VcfReader(phases=True) raised %s on the %s output" % (tb[4:] if isinstance(tb, str) else "", tag), info)
        e.check(len(tp) == len(th), "codec: the two outputs have different chromosome tables", info)
        for a, b in zip(tp, th):
            e.check(a["positions"] == b["positions"], "codec: the two outputs list different variants", info)
            for t in meta["targets"]:
                s = doc["samples"][t]
                pa = [None if p is None else (p[0], tuple(p[1])) for p in a["phases"][s]]
                pb = [None if p is None else (p[0], tuple(p[1])) for p in b["phases"][s]]
                e.check(pa == pb, "codec: VariantTable.phases_of differs between the PS and the HP output", info)
        e.cover("table-level read compared")


class Rephase(_Base):
    """input already phased; phased again with either tag"""

    name = "rephase"
    encoded = Codec.encoded
    assumptions = c04._Base.assumptions + [
        "pre-existing phase: PS key with per-call value present/missing and solver-chosen phased flags (symbolic), or HP key with value 77-1,77-2 / '.'",
        "HP-tag outputs that cannot be parsed at all (finding of C04: NUL bytes) are excluded",
        "'phase statement' is read as: something one of the two decoders of vcf.py extracts from the call (weaker reading)",
    ]
    required_cover = ["round trip decoded", "pre-existing PS value", "pre-existing HP value", "old phase on a record the new run leaves alone", "old phase on a record the new run phases"]

    def shapes(self, tier):
        out = []
        for tag in ("PS", "HP"):
            for pre in ("PS", "HP"):
                for kind, mav in (("snv", 0), ("multi", 0), ("noalt", 0)) if tier == "quick" else (("snv", 0), ("multi", 0), ("noalt", 0), ("indel", 0), ("sym", 0)):
                    for targets in ([0], [1]) if tier == "quick" else ([0], [1], [0, 1]):
                        out.append(dict(tag=tag, nsamp=2, targets=targets, kinds=[kind], pre=[pre], mav=mav, gtset="small", rich=0, hv=1, maxpos=2**31 - 2, nt_gt=(0, 1)))
                out.append(dict(tag=tag, nsamp=1, targets=[0], kinds=["snv"], pre=[pre], gtset="full", rich=1, hv=1))
                out.append(dict(tag=tag, nsamp=1, targets=[0], kinds=["snv", "snv"], pre=[pre, pre], gtset="small", rich=0, hv=1))
                out.append(dict(tag=tag, nsamp=2, targets=[0], kinds=["snv", "snv"], pre=[pre, "none"], gtset="tiny", rich=0, hv=1, oldfix=1, nt_gt=(0, 1)))
        return out

    def bounds(self, tier):
        return "%d shapes: 1-2 records x 1-2 samples, old tag PS/HP x new tag PS/HP, positions symbolic up to 2^31-2 for PS runs, old values / phased flags / genotype classes / new phasing solver-chosen" % len(self.shapes(tier))

    def sym_impl(self):
        return SymCodec(self)

    def real_impl(self):
        return RealCodec(self)

    def harness(self, e, shape, impl):
        # a file carries ONE encoding of phase: HP-tagged files have unphased GTs throughout
        doc, plan, meta = c04.build(e, dict(shape, one_encoding=1, unphased_input=1 if "HP" in shape["pre"] else 0))
        tag = shape["tag"]
        e.assume(not (tag == "HP" and meta["all_unphased"] and meta["nsamp"] >= 2))
        info = lambda: dict(input=e.value(doc), plan=e.value([list(p) for p in plan]), tag=tag)
        new, targets = expected_new(doc, plan, meta)
        try:
            out, dec, tables = impl.run(doc, shape, plan, tag)
        except Exception as ex:
            e.check(False, "rephase: phasing with tag %s raised %s" % (tag, type(ex).__name__), info)
        e.out("out", out)
        e.out("decoded", dec)
        e.out("tables", tables)
        olds = []
        for j, r in enumerate(doc["records"]):
            for t in meta["targets"]:
                if (j, t) in targets and any(k in r["format"] for k in ("PS", "HP")):
                    e.cover("old phase on a record the new run phases" if (j, t) in new else "old phase on a record the new run leaves alone")
        old_tag = [p for p in shape["pre"] if p != "none"][0]
        _judge(e, "rephase[%s->%s]" % (old_tag, tag), tag, doc, meta, new, targets, dec, info, True)
        if len(meta["targets"]) == meta["nsamp"] and all(sel for _, sel, _, _ in plan):
            # only then is every phase statement of the file subject to the hygiene clause
            e.check(not isinstance(tables, str), "rephase[%s->%s]: VcfReader(phases=True) raised %s on the output" % (old_tag, tag, tables[4:] if isinstance(tables, str) else ""), info)


# ---------------------------------------------------------------------------------------------------------------
class Blocks(SubCheck):
    """VariantTable.phased_blocks_as_reads"""

    name = "blocks"
    encoded = ["whatshap.vcf.VariantTable.{__init__,add_variant,phased_blocks_as_reads}", "whatshap.vcf.BiallelicVcfVariant.{__hash__,__eq__}"]
    sources = ["whatshap/vcf.py"]
    assumptions = [
        "variant positions strictly increasing (sorted, duplicate-free table as VcfReader builds it)",
        "block ids from the concrete domain {1, 7, 2147483647} (they are formatted into the read name)",
        "phases of heterozygous diploid calls are complementary tuples (what both decoders return)",
    ]
    stubs = ["whatshap.core Read/Genotype: vf/models/core_model.py; replayed on the compiled module"]
    required_cover = ["block with >= 2 usable variants", "block with a single usable variant", "variant skipped: homozygous", "variant skipped: not an input variant", "variant skipped: no phase", "interleaved blocks"]
    hash_mode = "const"

    def shapes(self, tier):
        from vf.models import vcfdoc

        vcfdoc.prebuild(("core",))
        if tier == "quick":
            return [dict(n=2, q=1, blocks=3), dict(n=3, q=0, blocks=3), dict(n=3, q=1, blocks=2), dict(n=4, q=0, blocks=2)]
        return [dict(n=2, q=1, blocks=3), dict(n=3, q=0, blocks=3), dict(n=3, q=1, blocks=3), dict(n=4, q=0, blocks=3), dict(n=4, q=1, blocks=2), dict(n=5, q=0, blocks=2)]

    def bounds(self, tier):
        return "n <= %d variants with symbolic increasing positions; per variant solver-chosen: genotype class (het / hom / wrong ploidy / none), phase (none, or block id from 3 values with orientation), membership in input_variants, phase quality present or not" % max(s["n"] for s in self.shapes(tier))

    def setup(self):
        from vf.models import pysam_model as pm, core_model, vcfdoc

        self.world = SymWorld(overrides={"pysam": pm, "pysam.libcbcf": pm, "whatshap.core": core_model, "whatshap.cli": vcfdoc.cli_stub()})
        self.sym_vcf = self.world.load("whatshap.vcf")
        self.core_model = core_model
        vcfdoc.ensure_real()
        import whatshap.vcf as rv
        import whatshap.core as rc

        self.real_vcf, self.real_core = rv, rc

    def sym_impl(self):
        return (self.sym_vcf, self.core_model)

    def real_impl(self):
        return (self.real_vcf, self.real_core)

    def harness(self, e, shape, impl):
        V, core = impl
        n = shape["n"]
        BLOCKS = [1, 7, 2147483647]
        pos = []
        for i in range(n):
            p = e.int("pos%d" % i, 0, 2**31 - 2)
            if i:
                e.assume(p > pos[-1])
            pos.append(p)
        table = V.VariantTable("chr1", ["s1"])
        variants, usable = [], {}  # block -> [(index, phase)]
        input_variants = []
        spec = []
        for i in range(n):
            v = V.BiallelicVcfVariant(pos[i], "A", "C")
            variants.append(v)
            nb = shape.get("blocks", 2)
            opts = [("het", (b, o), 1) for b in range(nb) for o in (0, 1)] + [("het", None, 1), ("het", (0, 0), 0), ("hom", (0, 0), 1), ("triploid", (1, 1), 1), ("none", (0, 1), 1)]
            gclass, ph, inset = e.choice("v%d" % i, opts)
            gt = {"het": [0, 1], "hom": [1, 1], "triploid": [0, 0, 1], "none": []}[gclass]
            qual = None
            if ph is not None and shape["q"]:
                qual = e.int("q%d" % i, 0, 60)
            phase = None
            if ph is not None:
                tup = (0, 1) if ph[1] == 0 else (1, 0)
                if gclass == "triploid":
                    tup = (0, 0, 1) if ph[1] == 0 else (1, 0, 0)
                if gclass == "hom":
                    tup = (1, 1)
                phase = V.VariantCallPhase(block_id=BLOCKS[ph[0]], phase=tup, quality=qual)
            table.add_variant(v, [core.Genotype(gt)], [phase], [None], [None])
            if inset:
                input_variants.append(V.BiallelicVcfVariant(pos[i], "A", "C"))
            ok = gclass == "het" and phase is not None and inset
            if gclass == "hom" and phase is not None and inset:
                e.cover("variant skipped: homozygous")
            if not inset and gclass == "het" and phase is not None:
                e.cover("variant skipped: not an input variant")
            if phase is None and gclass == "het" and inset:
                e.cover("variant skipped: no phase")
            if ok:
                usable.setdefault(BLOCKS[ph[0]], []).append((i, tup, qual))
            spec.append((gclass, ph, inset))
        info = lambda: dict(n=n, positions=e.value(pos), spec=spec)
        reads = list(table.phased_blocks_as_reads("s1", input_variants, 3, 5, default_quality=20, mapq=100))
        got = []
        for r in reads:
            got.append(dict(name=r.name, source_id=r.source_id, sample_id=r.sample_id, mapqs=list(r.mapqs), variants=[(x.position, x.allele, x.quality) for x in r]))
        e.out("reads", got)
        # oracle
        from vf.models.vcfdoc import deq, Obligations

        ob = Obligations(e, info)
        want_blocks = {b: u for b, u in usable.items() if len(u) >= 2}
        for b, u in usable.items():
            e.cover("block with >= 2 usable variants" if len(u) >= 2 else "block with a single usable variant")
        idx = sorted(i for u in want_blocks.values() for i, _, _ in u)
        if len(want_blocks) >= 2:
            bl = {i: b for b, u in want_blocks.items() for i, _, _ in u}
            seq = [bl[i] for i in idx]
            if any(seq[k] != seq[k + 1] and seq[k] in seq[k + 1 :] for k in range(len(seq) - 1)):
                e.cover("interleaved blocks")
        e.check(len(got) == 2 * len(want_blocks), "number of pseudo reads is not two per block with >= 2 usable variants", info)
        for b, u in want_blocks.items():
            mine = [g for g in got if g["name"].endswith("_block_%d" % b)]
            e.check(len(mine) == 2, "a block does not yield exactly one pair of pseudo reads", info)
            e.check(sorted(g["name"] for g in mine) == ["s1_phase_0_block_%d" % b, "s1_phase_1_block_%d" % b], "pseudo read names are not phase_0/phase_1 of the block", info)
            for g in mine:
                h = 0 if "_phase_0_" in g["name"] else 1
                e.check(len(g["variants"]) == len(u), "a pseudo read does not cover exactly the usable variants of its block", info)
                e.check(g["source_id"] == 3 and g["sample_id"] == 5 and g["mapqs"] == [100], "pseudo read carries wrong source/sample id or mapq", info)
                for k, (i, tup, qual) in enumerate(u):  # u is in table (= position) order
                    p, a, q = g["variants"][k]
                    ob.add(deq(p, pos[i]), "pseudo read is not sorted by position / has a wrong position")
                    e.check(a == tup[h], "pseudo read allele is not the phased allele of its haplotype", info)
                    ob.add(deq(q, 20 if qual is None else qual), "pseudo read quality is neither the phase quality nor the default")
            a0 = [x[1] for x in mine[0]["variants"]]
            a1 = [x[1] for x in mine[1]["variants"]]
            e.check(all(x + y == 1 for x, y in zip(a0, a1)), "the two pseudo reads of a block are not complementary", info)
        ob.discharge()

    def classify(self, shape, v):
        return "blocks:%s" % v["msg"]


SUBCHECKS = {c.name: c for c in [Codec(), Rephase(), Blocks()]}

if __name__ == "__main__":
    import sys
    from vf import runner

    sys.exit(runner.main("checks.c09", sys.argv[1:]))


# =====================================================================================================================
# run: re-phasing through run_whatshap as a whole (real VcfReader -> ... -> real PhasedVcfWriter), see checks/phase_run.py
# =====================================================================================================================
from checks import phase_run as _pr


class Run(_pr.PhaseRun):
    """C09, last clause, on the whole command: after re-phasing an already phased file every phase statement (phased GT, PS
    value, HP value) of a target sample on a processed chromosome sits at a variant the new run handed to the solver for
    that sample - whether or not the sample had reads there."""

    def filter_shapes(self, shapes):
        return [s for s in shapes if not s.get("ped") and s["old"] is not None and not s["distrust"]]

    def judge(self, e, sc, shape, out, lists, info):
        targets, processed = self.targets(sc), self.processed(sc)
        for ri, ro in zip(sc.doc["records"], out["records"]):
            if ri["chrom"] not in processed:
                continue
            for si, s in enumerate(_pr.SAMPLES):
                if s not in targets:
                    continue
                co = ro["calls"][si]
                if self.phase_statement(co):
                    new = (ri["pos"] - 1) in sc.given.get((ri["chrom"], s), [])
                    if new:
                        e.cover("phase statement written by the new run")
                    e.check(new, "after re-phasing, a target call still makes a phase statement although the new run did not phase that variant for this sample (old phase information survives)",
                            lambda: dict(info(), record=(ri["chrom"], ri["pos"]), sample=s, reads_of_that_sample_on_the_chromosome=sc.reads.get((ri["chrom"], s)), usable_variant=sc.usable(ri)))

    def classify(self, shape, v):
        i = v.get("info") or {}
        return "run:%s:reads=%s:usable=%s" % (v["msg"][:60], i.get("reads_of_that_sample_on_the_chromosome"), i.get("usable_variant"))


Run.required_cover = _pr.PhaseRun.required_cover + ["phase statement written by the new run"]
SUBCHECKS["run"] = Run()
