"""C14 - `whatshap split` distributes every read to exactly the outputs its
haplotype-list entry selects.

The real `run_split` (with `check_haplotag_list_information`,
`process_haplotag_list_file`, the two line parsers, both input iterators,
`initialize_io_files`, `write_read_length_histogram`,
`select_reads_in_largest_phased_blocks`) is loaded from the working tree into a
SymWorld whose file layer is the in-memory model of vf/models/io_model.py.
The solver chooses the *structure* (read names incl. duplicates, list entries,
requested outputs, read lengths) and the option flags are symbolic booleans that
the code itself forks on.  Every explored path is replayed by materialising a
real FASTQ/BAM file + list file in a scratch directory, running the REAL
`whatshap.cli.split.run_split` on them and reading the outputs back.

Sub-checks
  dist      distribution/partition/histogram totals; reads <= 3 (quick) / 4 (thorough)
  hist      read lengths solver-chosen (incl. reads without sequence), histogram per length
  largest   --only-largest-block (4-column list, solver-chosen phase sets / chromosomes)

Oracle (written from the statement, independent of the code):
  * a read whose name the list tags Hk belongs to class k; a read listed as
    `none` or not listed belongs to class 0 (untagged); with
    --discard-unknown-reads the not-listed reads belong nowhere;
    with --only-largest-block (from the option's help text) a tagged entry only
    counts if its phase set is the largest (tagged entries) of its chromosome.
  * every requested output Hk == the class-k reads, in input order, byte-identical
    to the input records; plus the class-0 reads when --add-untagged.
    The requested untagged output == the class-0 reads.
  * all outputs requested (and neither --add-untagged nor --discard-unknown-reads)
    => every input read occurs in exactly one output.
  * histogram (weaker reading, DESIGN 3.2/4): column h at length L == number of
    class-h reads of that length written to output h; the --add-untagged
    copies may or may not be counted; a column whose output was not requested
    counts nothing (for the untagged column with --add-untagged either 0 or the
    untagged reads is accepted).
"""
import os
import re
import shutil
import tempfile
import types

from vf.runner import SubCheck
from vf.pysym.loader import SymWorld

PROPERTY = "C14"

POOL = ["rA", "rB", "rC"]
LISTONLY = "rQ"  # a name that never occurs among the reads


# ---------------------------------------------------------------------------
# input texts (shared by the model side and the real side)
# ---------------------------------------------------------------------------
def rec_text(fmt, idx, name, L, C):
    if fmt == "fastq":
        return "@%s idx=%d\n%s\n+\n%s\n" % (name, idx, "A" * L, "#" * L)
    cigar = "%dM" % C if (C and not L) else "*"
    return "%s\t4\t*\t0\t0\t%s\t*\t0\t0\t%s\t*\tXI:i:%d\n" % (name, cigar, "A" * L if L else "*", idx)


def fasta_form(name, idx):
    # what pysam's FastxRecord.__str__ gives for a record without quality values
    return ">%s idx=%d\n\n" % (name, idx)


_IDX = re.compile(r"(?:idx=|XI:i:)(\d+)")


def indices_in(text):
    return [int(x) for x in _IDX.findall(text)]


# ---------------------------------------------------------------------------
# the two implementations behind the one harness
# ---------------------------------------------------------------------------
class _SymImpl:
    """run_split of the working tree on the in-memory file model."""

    def __init__(self):
        from vf.models import io_model

        self.io_model = io_model
        self.holder = io_model.Holder()
        m = io_model.build(self.holder)
        w = SymWorld(overrides={"xopen": m.xopen_module, "pysam": m.pysam}, shadows={"open": m.open})
        # whatshap/cli/__init__.py pulls in the whole phasing stack; split.py uses nothing of it
        w.load("whatshap")
        pkg = types.ModuleType("whatshap.cli")
        pkg.__path__ = [os.path.join(w.repo, "whatshap", "cli")]
        pkg.__package__ = "whatshap.cli"
        w.modules["whatshap.cli"] = pkg
        self.mod = w.load("whatshap.cli.split")
        self.mod.detect_file_format = m.detect_file_format
        self.world = w

    def run(self, fmt, reads, list_text, slots, kwargs, hist):
        io_model = self.io_model
        vfs = io_model.VFS()
        self.holder.vfs = vfs
        ext = "fastq" if fmt == "fastq" else "bam"
        rp = "reads." + ext
        if fmt == "fastq":
            vfs.files[rp] = "".join(r["text"] for r in reads)
        else:
            vfs.files[rp] = [io_model.BamToken(i, r["name"], r["L"], r["C"], r["text"]) for i, r in enumerate(reads)]
        vfs.files["list.tsv"] = list_text
        paths = {s: "out%d.%s" % (s, ext) for s in slots}
        kw = _kwargs(paths, kwargs, "hist.tsv" if hist else None)
        try:
            self.mod.run_split(rp, "list.tsv", **kw)
        except Exception as ex:
            return dict(exc=type(ex).__name__ + ": " + str(ex)[:80], out={}, hist=None)
        out = {}
        for s, p in paths.items():
            v = vfs.files.get(p)
            if v is None:
                out[s] = None
            elif fmt == "fastq":
                out[s] = v
            else:
                out[s] = "".join(t.text for t in v)
        return dict(exc=None, out=out, hist=vfs.files.get("hist.tsv") if hist else None)


class _RealImpl:
    """The real whatshap.cli.split.run_split on real files (real xopen, real pysam)."""

    def __init__(self):
        from vf import build

        build.prepare_repo()
        import whatshap.cli.split as real
        import pysam

        self.real = real
        self.pysam = pysam
        self.dir = None  # per-job scratch directory (set by _Split.run); None: one per call

    def run(self, fmt, reads, list_text, slots, kwargs, hist):
        pysam = self.pysam
        own = self.dir is None
        d = tempfile.mkdtemp(prefix="c14-", dir="/var/tmp") if own else self.dir
        try:
            ext = "fastq" if fmt == "fastq" else "bam"
            rp = os.path.join(d, "reads." + ext)
            if fmt == "fastq":
                with open(rp, "w") as f:
                    f.write("".join(r["text"] for r in reads))
            else:
                hdr = pysam.AlignmentHeader.from_dict({"HD": {"VN": "1.6", "SO": "unknown"}})
                with pysam.AlignmentFile(rp, "wb", header=hdr) as f:
                    for r in reads:
                        f.write(pysam.AlignedSegment.fromstring(r["text"].rstrip("\n"), hdr))
                # the materialised file must be the scenario the harness describes
                with pysam.AlignmentFile(rp, "rb", check_sq=False) as f:
                    back = [a.to_string() + "\n" for a in f]
                if back != [r["text"] for r in reads]:
                    raise RuntimeError("materialiser: BAM does not read back as written: %r" % (back,))
            lp = os.path.join(d, "list.tsv")
            with open(lp, "w") as f:
                f.write(list_text)
            paths = {s: os.path.join(d, "out%d.%s" % (s, ext)) for s in slots}
            hp = os.path.join(d, "hist.tsv") if hist else None
            kw = _kwargs(paths, kwargs, hp)
            try:
                self.real.run_split(rp, lp, **kw)
            except Exception as ex:
                return dict(exc=type(ex).__name__ + ": " + str(ex)[:80], out={}, hist=None)
            out = {}
            for s, p in paths.items():
                if not os.path.exists(p):
                    out[s] = None
                elif fmt == "fastq":
                    out[s] = open(p).read()
                else:
                    with pysam.AlignmentFile(p, "rb", check_sq=False) as f:
                        out[s] = "".join(a.to_string() + "\n" for a in f)
            return dict(exc=None, out=out, hist=open(hp).read() if hist else None)
        finally:
            if own:
                shutil.rmtree(d, ignore_errors=True)
            else:
                for f in os.listdir(d):
                    os.remove(os.path.join(d, f))


def _kwargs(paths, kwargs, hist_path):
    kw = dict(
        add_untagged=kwargs["add_untagged"],
        discard_unknown_reads=kwargs["discard"],
        only_largest_block=kwargs["largest"],
        output_untagged=paths.get(0),
        read_lengths_histogram=hist_path,
    )
    if kwargs["api"] == "h12":
        kw["output_h1"] = paths.get(1)
        kw["output_h2"] = paths.get(2)
    else:
        kw["outputs"] = [paths[h] for h in range(1, kwargs["ploidy"] + 1)]
    return kw


def parse_hist(text, ploidy):
    """rows [(length, [count per column])] or None if the table is not readable."""
    try:
        lines = text.split("\n")
        if lines[-1] != "":
            return None
        lines.pop()
        rows = []
        for ln in lines[1:]:
            f = ln.split("\t")
            if len(f) != ploidy + 2:
                return None
            rows.append((int(f[0]), [int(x) for x in f[1:]]))
        return rows
    except (ValueError, IndexError, AttributeError):
        return None


# ---------------------------------------------------------------------------
class _Split(SubCheck):
    mode = "dist"
    encoded = [
        "whatshap.cli.split.run_split",
        "check_haplotag_list_information",
        "process_haplotag_list_file",
        "select_reads_in_largest_phased_blocks",
        "_two_column_parser",
        "_four_column_parser",
        "_fastq_string_iterator",
        "_bam_iterator",
        "initialize_io_files",
        "write_read_length_histogram",
    ]
    sources = ["whatshap/cli/split.py", "whatshap/timer.py"]
    assumptions = [
        "every read name occurs at most once in the haplotype list (the statement quantifies over duplicate names in the reads, not in the list; with --discard-unknown-reads the code itself rejects such lists by an assertion)",
        "haplotype words are 'none' or H1..H<ploidy> (other words are rejected by the code with KeyError; the statement says nothing about them)",
        "the list has at least one line (header or entry); with --discard-unknown-reads at least one entry (the code rejects the rest explicitly)",
        "read names are opaque tokens without white space; plain (uncompressed) files - gzip/BGZF byte level is outside the claim",
        "python API of run_split as the CLI drives it: --output-h1/--output-h2 (ploidy 2, at least one given) or repeated -o (all haplotype outputs given); the untagged output optional in both",
    ]
    stubs = [
        "vf/models/io_model.py: xopen / open(os.devnull) as io.StringIO objects over a virtual file system; pysam.FastxFile as a 4-line FASTQ parser with pysam's FastxRecord.__str__; pysam.AlignmentFile as a list of opaque BAM tokens (query_name, query_length, infer_query_length()); whatshap.utils.detect_file_format answered from the virtual file's kind. Validated on every path by replaying the scenario through the real run_split on real files",
        "whatshap/cli/__init__.py is not executed (empty package object): split.py imports nothing from it",
    ]

    def setup(self):
        self._sym = _SymImpl()
        self._real = _RealImpl()

    def sym_impl(self):
        return self._sym

    def real_impl(self):
        return self._real

    def budget(self, tier):
        return 900 if tier == "quick" else 3000

    def run(self, shape, tier, seed):
        self._real.dir = tempfile.mkdtemp(prefix="c14-", dir="/var/tmp")
        try:
            return super().run(shape, tier, seed)
        finally:
            shutil.rmtree(self._real.dir, ignore_errors=True)
            self._real.dir = None

    # ------------------------------------------------------------------
    def harness(self, e, shape, impl):
        mode = self.mode
        fmt, cols, header, api, n = shape["fmt"], shape["cols"], shape["header"], shape["api"], shape["n"]
        pool = POOL[: shape["pool"]]
        ploidy = 3 if api == "o3" else 2
        words = ["absent", "none"] + ["H%d" % h for h in range(1, ploidy + 1)]

        # ---- reads: names in first-occurrence order (names are opaque: renaming is a symmetry)
        reads = []
        used = 0
        for i in range(n):
            k = 0 if i == 0 else e.choice("name%d" % i, range(min(used + 1, len(pool))))
            used = max(used, k + 1)
            if mode == "hist":
                if fmt == "fastq":
                    L, C = e.choice("len%d" % i, [(1, 0), (2, 0), (0, 0)])
                else:
                    L, C = e.choice("len%d" % i, [(1, 0), (2, 0), (0, 0), (0, 2)])
            else:
                L, C = 1 + i, 0  # pairwise different lengths
            reads.append(dict(name=pool[k], L=L, C=C, text=rec_text(fmt, i, pool[k], L, C)))
        names = [r["name"] for r in reads]
        if len(set(names)) < len(names):
            e.cover("duplicate read name")

        # ---- list: one optional entry per candidate name
        cand = list(pool) + ([LISTONLY] if shape["listonly"] else [])
        entry = {}
        lines = []
        for j, nm in enumerate(cand):
            if j == 0 and "w0" in shape:
                wd = shape["w0"]
                if wd not in words:
                    e.assume(False)
            elif nm == LISTONLY and shape["listonly"] == "lite":
                wd = e.choice("word%d" % j, ["absent", "H1"])
            else:
                wd = e.choice("word%d" % j, words)
            if wd == "absent":
                continue
            if cols == 4:
                if mode == "largest" and wd != "none":
                    ps, ch = e.choice("block%d" % j, [("1000", "chr1"), ("2000", "chr1"), ("1000", "chr2")])
                else:
                    ps, ch = ("none", "chr1") if wd == "none" else ("1000", "chr1")
                lines.append("%s\t%s\t%s\t%s\n" % (nm, wd, ps, ch))
            else:
                ps = ch = None
                lines.append("%s\t%s\n" % (nm, wd))
            entry[nm] = (wd, ps, ch)
        fillers = {}
        if mode == "largest" and cols == 4 and e.bit("fillers"):
            # two further tagged reads that are not in the input: they make chr2/2000 the largest block of chr2, so that an
            # entry of chr2/1000 lies outside the largest block of ITS chromosome while 1000 may be the largest block of chr1
            for nm in ("fillX", "fillY"):
                lines.append("%s\tH1\t2000\tchr2\n" % nm)
                fillers[nm] = ("H1", "2000", "chr2")
        if shape.get("rev"):
            lines.reverse()
        if header:
            lines.insert(0, "#readname\thaplotype\tphaseset\tchromosome\n" if cols == 4 else "#readname\thaplotype\n")
        e.assume(len(lines) > 0)
        list_text = "".join(lines)

        # ---- options
        if api == "h12":
            rq = e.choice("req_h", [(1, 1), (1, 0), (0, 1)])
            req_h = {1: rq[0], 2: rq[1]}
        else:
            req_h = {h: 1 for h in range(1, ploidy + 1)}
        req_u = e.bit("req_untagged")
        slots = [0] * req_u + [h for h in sorted(req_h) if req_h[h]]
        requested = {0: bool(req_u)}
        requested.update({h: bool(v) for h, v in req_h.items()})
        add_untagged = e.bool("add_untagged")
        discard = e.bool("discard") if entry else False
        largest = mode == "largest"
        hist = mode != "largest"  # the option is on in dist/hist and off in largest

        # ---- --only-largest-block: the statement's "haplotype the list assigns" restricted as the option's help says
        selected_block = {}
        if largest:
            sizes = {}
            for nm, (wd, ps, ch) in list(entry.items()) + list(fillers.items()):
                if wd != "none":
                    sizes.setdefault(ch, {}).setdefault(ps, 0)
                    sizes[ch][ps] += 1
            if fillers and any(ch == "chr2" and ps == "1000" and wd != "none" for wd, ps, ch in entry.values()) and any(ch == "chr1" and ps == "1000" and wd != "none" for wd, ps, ch in entry.values()):
                e.cover("phase set id that is the largest block on one chromosome and a smaller one on another")
            for ch, by_ps in sizes.items():
                top = max(by_ps.values())
                best = [ps for ps, c in by_ps.items() if c == top]
                if len(best) > 1:
                    e.assume(False)  # tie between largest blocks: which one wins is not specified anywhere
                selected_block[ch] = best[0]
                if len(by_ps) > 1:
                    e.cover("chromosome with two phase sets")

        # ---- run the code under test
        res = impl.run(fmt, reads, list_text, slots, dict(add_untagged=add_untagged, discard=discard, largest=largest, api=api, ploidy=ploidy), hist)
        e.out("exception", res["exc"])
        e.out("outputs", res["out"])
        e.out("histogram", res["hist"])

        # ---- oracle ------------------------------------------------------
        cls = []  # class per read: 0..ploidy, or None = belongs nowhere
        for r in reads:
            ent = entry.get(r["name"])
            if ent is None:
                e.cover("read not in the list")
                if discard:
                    cls.append(None)
                    e.cover("unlisted read discarded")
                else:
                    cls.append(0)
            elif ent[0] == "none":
                e.cover("read listed as none")
                cls.append(0)
            else:
                h = int(ent[0][1:])
                if largest and selected_block[ent[2]] != ent[1]:
                    e.cover("tagged read outside the largest block")
                    h = 0
                cls.append(h)
        if any(nm not in names for nm in entry):
            e.cover("list name absent from the reads")

        def want(slot, trunc=None):
            idx = []
            for i, c in enumerate(cls):
                if trunc is not None and i >= trunc:
                    break
                if c is None:
                    continue
                if c == slot or (slot >= 1 and c == 0 and add_untagged):
                    idx.append(i)
            return idx

        def text_of(idx, fasta=False):
            out = []
            for i in idx:
                r = reads[i]
                if fasta and fmt == "fastq" and r["L"] == 0:
                    out.append(fasta_form(r["name"], i))
                else:
                    out.append(r["text"])
            return "".join(out)

        def diagnose():
            """Names the defect shapes this check is known to meet, so that classify()
            produces a specific signature (anything else stays generic)."""
            if res["exc"] is not None:
                return "exception"
            got = res["out"]
            stops = []
            if discard and any(names.count(nm) >= 2 for nm in entry):
                # a listed read name occurs twice: are the outputs those of a proper prefix of the input?
                stops = list(range(n - 1, 0, -1))
            for trunc in [None] + stops:
                for fasta in (False, True):
                    if (trunc is None and not fasta) or (fasta and not (fmt == "fastq" and any(r["L"] == 0 for r in reads))):
                        continue
                    if all(got.get(s) == text_of(want(s, trunc=trunc), fasta=fasta) for s in slots):
                        kinds = []
                        if trunc is not None:
                            kinds.append("early-stop, outputs are those of a proper prefix of the input (duplicate listed read name + --discard-unknown-reads)")
                        if fasta:
                            kinds.append("FASTQ record with empty sequence rewritten in FASTA form")
                        return " + ".join(kinds)
            return "other"

        ctx = lambda: dict(kind=diagnose(), reads=[(r["name"], r["L"], r["C"]) for r in reads], list=list_text, slots=slots, add_untagged=e.value(add_untagged), discard=e.value(discard), largest=largest, got=res["out"], exc=res["exc"], hist=res["hist"])

        e.check(res["exc"] is None, "run_split raised on an input of the statement's domain", ctx)
        if any(c == 0 for c in cls) and any(s >= 1 for s in slots) and add_untagged:
            e.cover("--add-untagged copies an untagged read")
        for s in slots:
            exp = want(s)
            got = res["out"].get(s)
            e.check(got is not None, "a requested output file was not produced", ctx)
            if got != text_of(exp):
                gi = indices_in(got)
                if gi == exp:
                    e.check(False, "a read was modified on its way to the output", ctx)
                elif sorted(gi) == sorted(exp):
                    e.check(False, "reads are not written in input order", ctx)
                elif set(exp) - set(gi):
                    e.check(False, "a read is missing from the output its list entry selects", ctx)
                else:
                    e.check(False, "an output contains a read its list entry does not select (or a read twice)", ctx)
        for h in range(0, ploidy + 1):
            if not requested[h] and any(c == h for c in cls):
                e.cover("read of a class whose output was not requested")
        if all(requested.values()) and not discard and not (any(c == 0 for c in cls) and add_untagged):
            e.cover("all outputs requested: partition")
            where = [sum(indices_in(res["out"][s]).count(i) for s in slots) for i in range(n)]
            e.check(all(w == 1 for w in where), "all outputs requested but they do not partition the input", ctx)

        if hist:
            rows = parse_hist(res["hist"], ploidy)
            e.check(rows is not None, "read-length histogram is not a readable table", ctx)
            length = [r["L"] if r["L"] > 0 else r["C"] for r in reads]
            if any(r["L"] == 0 for r in reads):
                e.cover("read without sequence")
            if any(r["L"] == 0 and r["C"] > 0 for r in reads):
                e.cover("length inferred from CIGAR")
            if len(set(length)) > 1:
                e.cover("two different read lengths")
            # row-wise: every row (and every length without a row: all counts 0) must be admissible
            todo = list(rows) + [(L, [0] * (ploidy + 1)) for L in sorted(set(length) - {L for L, _ in rows})]
            for L, counts in todo:
                U = sum(1 for i in range(n) if cls[i] == 0 and length[i] == L)
                for c in range(ploidy + 1):
                    got = counts[c]
                    T = sum(1 for i in range(n) if cls[i] == c and length[i] == L)
                    if c >= 1:
                        ok = [T] if requested[c] else [0]
                        if requested[c] and U and add_untagged:
                            ok.append(T + U)  # weaker reading: copies may or may not be counted
                    else:
                        ok = [U] if requested[0] else [0]
                        if not requested[0] and U and add_untagged:
                            ok.append(U)
                    e.check(got in ok, "histogram count differs from the number of reads written for that class and length", lambda: dict(ctx(), column=c, length=L, count=got, admissible=ok))
            # column totals: a length listed in two rows makes every column sum exceed the reads written
            seen_L = [L for L, _ in rows]
            e.check(len(seen_L) == len(set(seen_L)), "histogram lists the same read length in more than one row (column sums exceed the reads written)", lambda: dict(ctx(), kind="duplicate histogram rows"))

    def classify(self, shape, violation):
        info = violation.get("info") or {}
        return "split:%s:%s:%s" % (shape["fmt"], info.get("kind", "?"), violation["msg"])

    # ------------------------------------------------------------------


def _spread(base, always=False):
    """One job per word of the first list candidate (spreads a size over the cores)."""
    if base["n"] < 2 and not always:
        return [base]
    ploidy = 3 if base["api"] == "o3" else 2
    return [dict(base, w0=w0) for w0 in ["absent", "none"] + ["H%d" % h for h in range(1, ploidy + 1)]]


def _big_first(shapes):
    return sorted(shapes, key=lambda s: (-s["n"], s["api"] != "o3"))


class Dist(_Split):
    name = "dist"
    mode = "dist"
    required_cover = [
        "duplicate read name",
        "read not in the list",
        "unlisted read discarded",
        "read listed as none",
        "list name absent from the reads",
        "--add-untagged copies an untagged read",
        "read of a class whose output was not requested",
        "all outputs requested: partition",
    ]

    def shapes(self, tier):
        out = []
        if tier == "quick":
            plan = [("h12", "fastq", 2, False, 3), ("h12", "bam", 4, True, 3), ("o2", "fastq", 4, True, 3), ("o3", "bam", 2, True, 3)]
        else:  # (api, format, columns, header, max reads)
            plan = [
                ("h12", "fastq", 2, False, 4), ("h12", "bam", 4, True, 4), ("h12", "fastq", 4, True, 3), ("h12", "bam", 2, False, 3),
                ("h12", "fastq", 2, True, 2), ("h12", "bam", 4, False, 2), ("h12", "fastq", 4, False, 2), ("h12", "bam", 2, True, 2),
                ("o2", "fastq", 4, True, 4), ("o2", "bam", 2, False, 3),
                ("o3", "bam", 2, True, 4), ("o3", "fastq", 4, False, 3),
            ]
        for api, fmt, cols, header, nmax in plan:
            for n in range(1, nmax + 1):
                # quick: the name that no read carries is either not listed or tagged H1
                out += _spread(dict(fmt=fmt, cols=cols, header=header, api=api, n=n, pool=3, listonly="lite" if tier == "quick" else True))
        if tier == "thorough":
            out += [dict(s, rev=True) for s in out if s["n"] == 3 and s["api"] == "h12" and s["fmt"] == "fastq" and s["cols"] == 2 and not s["header"]]
        return _big_first(out)

    def bounds(self, tier):
        return (
            "reads <= %d with names from a pool of 3 (every duplicate pattern, first-occurrence order), list = optional entry (none/H1..Hp) for each pool name "
            "and for one name absent from the reads (quick: absent or H1 only; <= 4 lines, fixed order%s), 2- and 4-column lists with/without header, FASTQ and unaligned BAM "
            "(quick: 4 of the 24 format x columns x header x API combinations at <= 3 reads; thorough: 12, of which 4 at <= 4 reads, 4 at <= 3, 4 at <= 2), APIs --output-h1/-h2 (every non-empty subset) and -o x2 / -o x3, untagged output requested or not, --add-untagged and --discard-unknown-reads symbolic; "
            "%d shapes" % (3 if tier == "quick" else 4, "" if tier == "quick" else " and reversed for 3 reads", len(self.shapes(tier)))
        )


class Hist(_Split):
    name = "hist"
    mode = "hist"
    required_cover = [
        "duplicate read name",
        "read without sequence",
        "length inferred from CIGAR",
        "two different read lengths",
        "--add-untagged copies an untagged read",
        "read of a class whose output was not requested",
    ]

    def shapes(self, tier):
        out = []
        if tier == "quick":
            plan = [("fastq", 2, True, "h12", 2), ("fastq", 2, True, "o3", 2), ("bam", 4, True, "h12", 2), ("bam", 4, True, "o3", 2)]
        else:
            plan = [("fastq", 2, True, "h12", 2), ("fastq", 2, True, "o3", 3), ("bam", 4, True, "h12", 3), ("bam", 4, True, "o3", 2),
                    ("fastq", 4, False, "h12", 2), ("fastq", 4, False, "o3", 2), ("bam", 2, False, "h12", 2), ("bam", 2, False, "o3", 2)]
        for fmt, cols, header, api, nmax in plan:
            for n in range(1, nmax + 1):
                out += _spread(dict(fmt=fmt, cols=cols, header=header, api=api, n=n, pool=2, listonly=False))
        return _big_first(out)

    def bounds(self, tier):
        return (
            "reads <= %d (names from a pool of 2), per read a solver-chosen length: FASTQ sequence of 1, 2 or 0 bases; BAM sequence of 1 or 2 bases, "
            "no sequence, or no sequence with CIGAR 2M; list entry none/H1..Hp/absent per pool name; options as in dist; %d shapes"
            % (2 if tier == "quick" else 3, len(self.shapes(tier)))
        )


class Largest(_Split):
    name = "largest"
    mode = "largest"
    assumptions = _Split.assumptions + [
        "--only-largest-block: per chromosome the phase set with the most tagged entries is unique (which of two equally large blocks wins is not specified)",
    ]
    required_cover = [
        "tagged read outside the largest block",
        "chromosome with two phase sets",
        "duplicate read name",
        "phase set id that is the largest block on one chromosome and a smaller one on another",
    ]

    def shapes(self, tier):
        out = []
        if tier == "quick":
            plan = [("fastq", True, "h12", 2), ("bam", False, "h12", 1)]
        else:
            plan = [("fastq", True, "h12", 1), ("fastq", True, "h12", 2), ("fastq", True, "h12", 3), ("bam", False, "h12", 1), ("bam", False, "h12", 2), ("fastq", True, "o3", 1), ("fastq", True, "o3", 2)]
        for fmt, header, api, n in plan:
            out += _spread(dict(fmt=fmt, cols=4, header=header, api=api, n=n, pool=3, listonly=False), always=True)
        return _big_first(out)

    def bounds(self, tier):
        return "--only-largest-block with a 4-column list: reads <= %d from a pool of 3 names, every tagged entry in one of the blocks chr1/1000, chr1/2000, chr2/1000 (solver-chosen), optionally two further list-only entries in chr2/2000; options as in dist; histogram not requested; %d shapes" % (2 if tier == "quick" else 3, len(self.shapes(tier)))


SUBCHECKS = {c.name: c for c in [Dist(), Hist(), Largest()]}

if __name__ == "__main__":
    import sys
    from vf import runner

    sys.exit(runner.main("checks.c14", sys.argv[1:]))
