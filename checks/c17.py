"""C17 - haplotag followed by haplotagphase reproduces the phasing that tagged the reads.

Sub-checks
  chain   stage 1: prepare_haplotag_information + attempt_add_phase_information (haplotag.py) tag error-free reads of a
          phased diploid table (HP = haplotype index + 1, PS = phase set id);
          stage 2: reads carrying exactly those tags (as ReadSetReader builds them: Read(HP_tag=HP, PS_tag=PS)) and the same
          table with a solver-chosen subset of the variants unphased go through run_haplotagphase (the inline vote
          bookkeeping, compute_votes, best_candidate, consensus, length_of_homopolymer) and the phased writer.
  chain_multiallelic
          the same chain (same harness) over tables that mix biallelic records with records that have TWO ALT alleles
          and a solver-chosen phased heterozygous genotype 0|1, 1|0, 0|2, 2|0, 1|2 or 2|1.  This is the separate path of
          run_haplotagphase for `mav=True` (its default): the per-position `allele_to_id` / `id_to_allele` maps built from
          Genotype.as_vector() (DESCENDING allele order), used by compute_votes (ht ^ id of the read's allele) and by
          consensus (id -> allele of the two super-reads), VcfReader(mav=True) and PhasedVcfWriter(mav=True).
          `whatshap haplotag` itself opens its VCF without multi-allelic support, so the first stage sees only the
          biallelic records (symbolic run: the records are left out as VcfReader._process_single_chromosome does for
          mav=False; replay: the original phased VCF is written with both ALT alleles and parsed by the real VcfReader
          with run_haplotag's arguments).  A read is therefore tagged from the biallelic variants of its phase set and
          then votes, in stage 2, at every variant it covers, 2-ALT ones included.

What is a stand-in: PhasedInputReader (BAM + allele detection) in both stages; in the symbolic run also VcfReader (the
table is built directly), IndexedFasta (a string) and PhasedVcfWriter (a 10-line model of `write`: a variant present in
both super-reads and in `components` and heterozygous gets GT = (allele of super-read 0 | allele of super-read 1) and
PS = component + 1; every other record has its existing phasing removed by _remove_existing_phasing; the stand-ins of
VcfReader and PhasedVcfWriter take the `mav` argument run_haplotagphase passes: without it 2-ALT records are not loaded /
not phased, as in vcf.py).  The replay runs
the REAL run_haplotagphase on a real VCF file and FASTA written from the witness, through the real VcfReader, the real
PhasedVcfWriter and real pysam; only PhasedInputReader stays a stand-in there.  That is what validates the writer model.

Readings (DESIGN 3 rule 2)
  * "every variant it phases": every variant that was unphased in the second stage's input and is phased in its output.
    Asserted for those: GT order == haplotype order of the original table, PS == phase set id carried by the reads that
    cover it (== its original phase set, as no read overlaps two phase sets).  Whether a covered variant must get phased
    is not claimed by the statement (thresholds), only covered as a reachability tag.
  * "variants that were already phased in its input are never altered": GT order, phased flag and PS of such a record
    are the same in the output.  (The statement's pipeline unphases everything; the clause only has content for a
    partly phased second input, which is what the solver is free to choose here.)
  * 2-ALT records: "the haplotype order it had in the original phased VCF" is the ordered pair of VCF allele indices
    (e.g. 2|1).  A read that covers only 2-ALT variants is not tagged by `whatshap haplotag` (they are not loaded
    there); whether it is tagged is not asserted, only that a tag, if present, is the read's haplotype.  That a voted
    2-ALT variant must get phased is, as for biallelic ones, not asserted; the vacuity guard requires that each of the six
    ordered genotypes is reached as "phased by stage 2 with the original order".
"""
import contextlib
import io
import itertools
import os
import shutil
import tempfile

from vf.runner import SubCheck
from vf.pysym.loader import SymWorld

PROPERTY = "C17"
SAMPLE = "s"
CHROM = "chr1"
REFSEQ = "ACGT" * 60  # no homopolymer context


class _Impl:
    def __init__(self, core, vcf, haplotag, haplotagphase, make_aln, stage2, stage1_table):
        self.core, self.vcf, self.haplotag, self.haplotagphase, self.make_aln, self.stage2 = core, vcf, haplotag, haplotagphase, make_aln, stage2
        self.stage1_table = stage1_table


def _alt(base):
    return {"A": "C", "C": "G", "G": "T", "T": "A"}[base]


def _alts(pos, nalt, indel=False):
    """ALT alleles of the record at `pos`: one, or two distinct ones for a 2-ALT record; an insertion for `indel`"""
    base = REFSEQ[pos]
    if indel:
        return [base + "TG"]
    return [_alt(base)] + ([{"A": "G", "C": "T", "G": "A", "T": "C"}[base]] if nalt == 2 else [])


def _variant(vcfmod, pos, nalt, indel=False):
    if nalt == 1:
        return vcfmod.BiallelicVcfVariant(pos, REFSEQ[pos], _alts(pos, 1, indel)[0])
    return vcfmod.MultiallelicVcfVariant(pos, REFSEQ[pos], _alts(pos, nalt))


def _table(core, vcfmod, rows, mav):
    """What VcfReader(path, phases=True, mav=mav) yields for the records `rows` (pos -> dict(gt, phased, ps, nalt)):
    records with more than one ALT allele are left out unless mav (VcfReader._process_single_chromosome); a phase exists
    for a phased heterozygous GT (VcfReader._extract_GT_PS_phase)."""
    vt = vcfmod.VariantTable(CHROM, [SAMPLE])
    for pos in sorted(rows):
        r = rows[pos]
        nalt = r.get("nalt", 1)
        if nalt > 1 and not mav:
            continue
        ph = vcfmod.VariantCallPhase(block_id=r["ps"], phase=tuple(r["gt"]), quality=None) if r["phased"] else None
        vt.add_variant(_variant(vcfmod, pos, nalt, r.get("indel", False)), [core.Genotype(sorted(r["gt"]))], [ph], [None], [None])
    return vt


def _write_vcf(path, rows):
    with open(path, "w") as f:
        f.write("##fileformat=VCFv4.2\n##contig=<ID=%s,length=%d>\n" % (CHROM, len(REFSEQ)))
        f.write('##FORMAT=<ID=GT,Number=1,Type=String,Description="Genotype">\n##FORMAT=<ID=PS,Number=1,Type=Integer,Description="Phase set">\n')
        f.write("#CHROM\tPOS\tID\tREF\tALT\tQUAL\tFILTER\tINFO\tFORMAT\t%s\n" % SAMPLE)
        for pos in sorted(rows):
            r = rows[pos]
            alts = ",".join(_alts(pos, r.get("nalt", 1), r.get("indel", False)))
            if r["phased"]:
                f.write("%s\t%d\t.\t%s\t%s\t.\tPASS\t.\tGT:PS\t%d|%d:%d\n" % (CHROM, pos + 1, REFSEQ[pos], alts, r["gt"][0], r["gt"][1], r["ps"]))
            else:
                f.write("%s\t%d\t.\t%s\t%s\t.\tPASS\t.\tGT\t%d/%d\n" % (CHROM, pos + 1, REFSEQ[pos], alts, r["gt"][0], r["gt"][1]))


def _sym_stage1_table(sub, core, vcfmod, rows):
    # run_haplotag opens VcfReader(variant_file, only_snvs=False, phases=True, ploidy=ploidy): no mav
    return _table(core, vcfmod, rows, mav=False)


def _real_stage1_table(sub, core, vcfmod, rows):
    """the original phased VCF as a file (2-ALT records with both ALT alleles), parsed the way run_haplotag does"""
    d = tempfile.mkdtemp(prefix="c17-", dir="/var/tmp")
    try:
        path = os.path.join(d, "phased.vcf")
        _write_vcf(path, rows)
        with contextlib.redirect_stderr(io.StringIO()):
            with vcfmod.VcfReader(path, only_snvs=False, phases=True, ploidy=2) as reader:
                tables = list(reader)
        return tables[0] if tables else vcfmod.VariantTable(CHROM, [SAMPLE])
    finally:
        shutil.rmtree(d, ignore_errors=True)


class _WriterModel:
    """PhasedVcfWriter.write for one sample, tag PS (see module docstring)."""

    def __init__(self, rows, mav=False):
        self.rows = rows  # pos -> dict(gt, phased, ps[, nalt])
        self.mav = mav  # the `mav` argument run_haplotagphase hands to PhasedVcfWriter
        self.result = None

    def __enter__(self):
        return self

    def __exit__(self, *a):
        return False

    def write_unchanged(self, chromosome):
        self.result = {p: (tuple(r["gt"]), r["phased"], r["ps"]) for p, r in self.rows.items()}

    def write(self, chromosome, sample_superreads, sample_components, sample_haploid_components=None):
        sr = sample_superreads[SAMPLE]
        comp = sample_components[SAMPLE]
        phases = {}
        for variants in zip(*sr):
            phasing = tuple(v.allele for v in variants)
            if self.mav or all(a in (0, 1) for a in phasing):
                phases[variants[0].position] = phasing
        out = {}
        for pos, r in self.rows.items():
            gt = tuple(sorted(r["gt"]))  # _remove_existing_phasing: GT sorted and unphased, an existing PS value blanked
            is_het = len(set(gt)) > 1
            if r.get("nalt", 1) > 1 and not self.mav:
                out[pos] = (gt, False, None)  # "we do not phase multiallelic sites unless requested"
            elif pos in comp and pos in phases:
                if tuple(sorted(phases[pos])) != gt:
                    gt = tuple(sorted(phases[pos], reverse=True))  # genotype change: GT = Genotype.as_vector()
                    is_het = len(set(gt)) > 1
                if is_het:
                    out[pos] = (tuple(phases[pos]), True, comp[pos] + 1)
                else:
                    out[pos] = (gt, False, None)
            else:
                out[pos] = (gt, False, None)  # record skipped
        self.result = out


def _sym_stage2(sub, mod, core, vcfmod, rows, reads, opts=None):
    hm = sub.hm
    opts = opts or {}

    class _Vcf(list):
        samples = [SAMPLE]

        def __enter__(self):
            return self

        def __exit__(self, *a):
            return False

    class _Fasta(dict):
        def __enter__(self):
            return self

        def __exit__(self, *a):
            return False

    wm = _WriterModel(rows)

    def writer(*a, **k):
        wm.mav = bool(k.get("mav", False))
        return wm

    mod.PhasedInputReader = lambda *a, **k: hm.Reader(core, {SAMPLE: reads})
    mod.VcfReader = lambda *a, **k: _Vcf([_table(core, vcfmod, rows, bool(k.get("mav", False)))])
    mod.PhasedVcfWriter = writer
    mod.IndexedFasta = lambda path: _Fasta({CHROM: REFSEQ})
    with contextlib.redirect_stdout(io.StringIO()):
        mod.run_haplotagphase(variant_file="in.vcf", alignment_file="tagged.bam", output="out.vcf", reference="ref.fa", write_command_line_header=False, **opts)
    return wm.result


def _real_stage2(sub, mod, core, vcfmod, rows, reads, opts=None):
    import pysam

    opts = opts or {}
    hm = sub.hm
    d = tempfile.mkdtemp(prefix="c17-", dir="/var/tmp")
    try:
        fa = os.path.join(d, "ref.fa")
        with open(fa, "w") as f:
            f.write(">%s\n%s\n" % (CHROM, REFSEQ))
        pysam.faidx(fa)
        vin, vout = os.path.join(d, "in.vcf"), os.path.join(d, "out.vcf")
        _write_vcf(vin, rows)
        saved = mod.PhasedInputReader
        mod.PhasedInputReader = lambda *a, **k: hm.Reader(core, {SAMPLE: reads})
        try:
            with contextlib.redirect_stdout(io.StringIO()), contextlib.redirect_stderr(io.StringIO()):
                mod.run_haplotagphase(variant_file=vin, alignment_file="tagged.bam", output=vout, reference=fa, write_command_line_header=False, **opts)
        finally:
            mod.PhasedInputReader = saved
        out = {}
        with pysam.VariantFile(vout) as vf:
            for rec in vf:
                c = rec.samples[0]
                ps = c["PS"] if "PS" in rec.format else None
                out[rec.start] = (tuple(c["GT"]), bool(c.phased), ps)
        return out
    finally:
        shutil.rmtree(d, ignore_errors=True)


_PHASES = {"b": [(0, 1), (1, 0)], "i": [(0, 1), (1, 0)], "m": [(0, 1), (1, 0), (0, 2), (2, 0), (1, 2), (2, 1)]}


def _read_options(V, psidx):
    """a read: non-empty subset of the variants of one phase set"""
    opts = []
    for ps in sorted(set(psidx)):
        members = [i for i in range(V) if psidx[i] == ps]
        for m in range(1, len(members) + 1):
            opts += [list(c) for c in itertools.combinations(members, m)]
    return opts


class Chain(SubCheck):
    name = "chain"
    encoded = ["whatshap.cli.haplotag.prepare_haplotag_information", "get_variant_information", "attempt_add_phase_information",
               "whatshap.cli.haplotagphase.run_haplotagphase (vote bookkeeping)", "compute_votes", "best_candidate", "consensus", "length_of_homopolymer"]
    sources = ["whatshap/cli/haplotag.py", "whatshap/cli/haplotagphase.py", "whatshap/vcf.py"]
    assumptions = [
        "error-free reads: every read shows, at each variant it covers, the allele of one fixed haplotype of the original phasing; qualities >= 1",
        "no read overlaps two phase sets (proviso of the statement); diploid, biallelic variants; default thresholds (gap 70, cut-poly 10); reference without homopolymer runs",
        "the second stage's reads carry the HP/PS tags written by the first stage unchanged (ReadSetReader copies the BAM tags into Read.HP_tag/PS_tag)",
        "phase sets are named by the 1-based position of their leftmost variant (what `whatshap phase` writes)",
    ]
    stubs = ["logger.debug/info/warning statements are removed from the symbolic encoding (their eager str.format would concretise symbolic qualities); the replay runs them", "vf/models/haplotag_model.py Reader (PhasedInputReader) and Aln (pysam.AlignedSegment; replay: real AlignedSegment)", "vf/models/core_model.py (replay: compiled whatshap.core)",
             "symbolic run only: VariantTable built directly instead of VcfReader, a str instead of IndexedFasta, a model of PhasedVcfWriter.write (checks/c17.py _WriterModel); the replay uses the real classes on real files"]
    required_cover = ["stage 1 tags every read with its true haplotype", "stage 2 phases an unphased variant", "already phased variant with votes", "already phased variant without votes",
                      "covered unphased variant gets phased", "two phase sets", "homozygous variant present"]
    max_decisions = 20000

    def shapes(self, tier):
        out = []
        vmax, rmax = (3, 2) if tier == "quick" else (4, 3)
        for V in range(1, vmax + 1):
            for psidx in itertools.product((0, 1), repeat=V):
                if psidx[0] != 0:
                    continue
                opts = _read_options(V, psidx)
                for R in range(1, rmax + 1):
                    if V == 4 and R == 3:
                        continue  # thorough: V = 4 with up to two reads, three reads up to V = 3
                    for reads in itertools.combinations_with_replacement(opts, R):
                        out.append(dict(V=V, psidx=list(psidx), reads=[list(r) for r in reads]))
        return out

    def bounds(self, tier):
        sh = self.shapes(tier)
        return ("%d shapes: V <= %d diploid variants in <= 2 phase sets (every assignment), R <= %d reads (R <= 2 for V = 4) each covering a non-empty subset of one phase set's variants (every multiset of such reads); "
                "symbolic: original phased alleles, haplotype of every read, every quality in 1..3, which variants are unphased in the second input, one variant optionally homozygous (any for V <= 2, the last one otherwise)"
                % (len(sh), max(s["V"] for s in sh), max(len(s["reads"]) for s in sh)))

    def setup(self):
        from vf.models import core_model, haplotag_model as hm
        from vf import build
        import fcntl

        self.hm = hm
        self.world = SymWorld(overrides={"whatshap.core": core_model, "whatshap.cli": hm.cli_stub()}, transformer=hm.strip_logging)
        ht = self.world.load("whatshap.cli.haplotag")
        hp = self.world.load("whatshap.cli.haplotagphase")
        vcf = self.world.load("whatshap.vcf")
        self.sym = _Impl(core_model, vcf, ht, hp, hm.make_sym_aln, _sym_stage2, _sym_stage1_table)
        os.makedirs(build.CACHE, exist_ok=True)
        with open(os.path.join(build.CACHE, ".lock-c10"), "w") as lock:
            fcntl.flock(lock, fcntl.LOCK_EX)
            real = build.load_real(["core", "align", "_variants"])
            fcntl.flock(lock, fcntl.LOCK_UN)
        import pysam
        import whatshap.vcf
        import whatshap.cli.haplotag
        import whatshap.cli.haplotagphase

        pysam.set_verbosity(0)
        self.real = _Impl(real["core"], whatshap.vcf, whatshap.cli.haplotag, whatshap.cli.haplotagphase, hm.make_real_aln, _real_stage2, _real_stage1_table)

    def sym_impl(self):
        return self.sym

    def real_impl(self):
        return self.real

    def run(self, shape, tier, seed):
        self.replay_every = 1
        return SubCheck.run(self, shape, tier, seed)

    def harness(self, e, shape, impl):
        V, psidx, rcov = shape["V"], shape["psidx"], shape["reads"]
        multi = "kinds" in shape  # chain_multiallelic: 'b' = one ALT allele, 'm' = two ALT alleles
        kinds = shape["kinds"] if multi else "b" * V
        nalt = [2 if k == "m" else 1 for k in kinds]
        indel = [k == "i" for k in kinds]  # chain_options: 'i' = insertion record
        opts = self.options(e, shape)
        positions = [10 * (i + 1) + i for i in range(V)]  # 0-based
        block = {ps: min(positions[i] for i in range(V) if psidx[i] == ps) + 1 for ps in set(psidx)}
        phases = [list(e.choice("phase%d" % i, _PHASES[kinds[i]])) for i in range(V)]
        # homozygous records are the business of `chain`; chain_multiallelic has none
        hom = None if multi else e.choice("hom", [None] + (list(range(V)) if V <= 2 else [V - 1]))
        if len(set(psidx)) > 1:
            e.cover("two phase sets")
        if hom is not None:
            e.cover("homozygous variant present")
        # ---- original phased table, as `whatshap haplotag` gets it ----
        orig = {}
        for i, pos in enumerate(positions):
            if i == hom:
                orig[pos] = dict(gt=(1, 1), phased=False, ps=None, nalt=nalt[i], indel=indel[i])
            else:
                orig[pos] = dict(gt=tuple(phases[i]), phased=True, ps=block[psidx[i]], nalt=nalt[i], indel=indel[i])
        if multi:
            vt = impl.stage1_table(self, impl.core, impl.vcf, orig)
            e.out("stage1_table", [(v.position, list(ph.phase), ph.block_id) if ph is not None else (v.position, None, None) for v, ph in zip(vt.variants, vt.phases_of(SAMPLE))])
        else:
            vt = _table(impl.core, impl.vcf, orig, mav=False)
        # ---- error-free reads ----
        hap = [e.bit("hap%d" % r) for r in range(len(rcov))]
        rvars = []
        for r, cov in enumerate(rcov):
            rvars.append([(positions[i], 1 if i == hom else phases[i][hap[r]], e.int("q%d_%d" % (r, i), 1, 3)) for i in cov])
        reads1 = [dict(name="r%d" % r, start=5, vars=rvars[r]) for r in range(len(rcov))]
        rd = self.hm.Reader(impl.core, {SAMPLE: reads1})
        bx, r2h, _ = impl.haplotag.prepare_haplotag_information(vt, [SAMPLE], rd, [(0, None)], True, 50000, 2)
        tags = []
        for r in range(len(rcov)):
            aln = impl.make_aln("r%d" % r, 0, 5, 10, {})
            impl.haplotag.attempt_add_phase_information(aln, r2h, bx, 50000, True)
            tags.append(dict(aln.get_tags()))
        e.out("stage1_tags", [sorted(t.items()) for t in tags])
        ctx1 = lambda: dict(options=opts, insertion_records=[positions[i] for i in range(V) if indel[i]], positions=positions, alt_alleles=nalt, phase_set_of_variant=[block[p] for p in psidx], phases=phases, homozygous=hom, read_haplotypes=hap,
                            reads=[[(p, a, e.value(q)) for p, a, q in rv] for rv in rvars], stage1_tags=e.value([sorted(t.items()) for t in tags]))
        for r, cov in enumerate(rcov):
            informative = [i for i in cov if i != hom and nalt[i] == 1]
            if informative:
                e.check(tags[r].get("HP") == hap[r] + 1 and tags[r].get("PS") == block[psidx[cov[0]]], "stage 1: an error-free read is not tagged with its haplotype and phase set", ctx1)
            elif all(i == hom for i in cov):
                e.check("HP" not in tags[r], "stage 1: a read without heterozygous variants was tagged", ctx1)
            elif "HP" not in tags[r]:
                # the read covers heterozygous variants, but only 2-ALT ones, which `whatshap haplotag` does not load: whether
                # it is tagged is not the statement's business (if it is, then with its haplotype)
                e.cover("read covering only 2-ALT variants is left untagged by haplotag")
            else:
                e.check(tags[r].get("HP") == hap[r] + 1 and tags[r].get("PS") == block[psidx[cov[0]]], "stage 1: an error-free read is not tagged with its haplotype and phase set", ctx1)
        e.cover("stage 1 tags every read with its true haplotype")
        # ---- second stage: same records, some unphased; reads as ReadSetReader builds them from the tagged BAM ----
        unph = [bool(e.bit("unphased%d" % i)) if i != hom else True for i in range(V)]
        rows = {}
        for i, pos in enumerate(positions):
            if i == hom:
                rows[pos] = dict(gt=(1, 1), phased=False, ps=None, nalt=nalt[i], indel=indel[i])
            elif unph[i]:
                rows[pos] = dict(gt=tuple(sorted(phases[i])), phased=False, ps=None, nalt=nalt[i], indel=indel[i])
            else:
                rows[pos] = dict(gt=tuple(phases[i]), phased=True, ps=block[psidx[i]], nalt=nalt[i], indel=indel[i])
        reads2 = [dict(name="r%d" % r, start=5, hp=tags[r].get("HP", -1), ps=tags[r].get("PS", -1), vars=rvars[r]) for r in range(len(rcov))]
        result = impl.stage2(self, impl.haplotagphase, impl.core, impl.vcf, rows, reads2, opts)
        e.out("stage2", sorted((p, list(v[0]), v[1], v[2]) for p, v in result.items()))
        ctx = lambda: dict(ctx1(), second_input={p: (r["gt"], r["phased"], r["ps"]) for p, r in rows.items()}, output=e.value(sorted((p, list(v[0]), v[1], v[2]) for p, v in result.items())))
        newly = []
        for i, pos in enumerate(positions):
            gt, phased, ps = result[pos]
            covered = any(i in cov for cov in rcov)
            voted = any(i in cov and "HP" in tags[r] for r, cov in enumerate(rcov))  # == covered when every variant is biallelic
            if i == hom:
                e.check(not phased and tuple(sorted(gt)) == (1, 1), "a homozygous variant was phased or its genotype changed", ctx)
                continue
            if unph[i]:
                if phased:
                    e.cover("stage 2 phases an unphased variant")
                    e.check(tuple(gt) == tuple(phases[i]), "a variant phased by haplotagphase does not have the haplotype order of the original phasing", lambda: dict(ctx(), position=pos, alt_alleles_of_record=nalt[i]))
                    e.check(ps == block[psidx[i]], "a variant phased by haplotagphase does not get the phase set of the reads that cover it", lambda: dict(ctx(), position=pos, alt_alleles_of_record=nalt[i]))
                    e.check(covered, "a variant no read covers was phased", lambda: dict(ctx(), position=pos, alt_alleles_of_record=nalt[i]))
                    e.cover("covered unphased variant gets phased")
                    newly.append(i)
                    if opts.get("only_indels"):
                        e.cover("--only-indels: insertion phased" if indel[i] else "--only-indels: SNV phased")
                    if nalt[i] == 2:
                        e.cover("2-ALT variant phased by stage 2 with the original order %d|%d" % tuple(phases[i]))
                else:
                    e.check(tuple(sorted(gt)) == tuple(sorted(phases[i])), "genotype of an unphased variant changed", lambda: dict(ctx(), position=pos, alt_alleles_of_record=nalt[i]))
                    if opts.get("only_indels") and voted and not indel[i]:
                        e.cover("--only-indels: voted SNV left unphased")
                    if opts and opts.get("gap_threshold") == 100 and voted:
                        e.cover("gap threshold 100: voted variant left unphased")
                    if multi and voted and not opts:
                        # not a claim of the statement (thresholds), so only reported through the vacuity guard: with
                        # error-free reads and default thresholds nothing should end up here
                        e.cover("voted unphased variant stays unphased")
            else:
                e.cover("already phased variant with votes" if voted else "already phased variant without votes")
                if opts.get("only_indels") and voted and not indel[i]:
                    e.cover("--only-indels: already phased SNV with votes")
                if nalt[i] == 2 and voted:
                    e.cover("already phased 2-ALT variant with votes")
                e.check(phased and tuple(gt) == tuple(phases[i]) and ps == block[psidx[i]],
                        "a variant that was already phased in the input of haplotagphase was altered", lambda: dict(ctx(), position=pos, alt_alleles_of_record=nalt[i], covered_by_a_tagged_read=voted))
        if any(nalt[i] == 2 for i in newly) and any(nalt[i] == 1 and psidx[i] == psidx[j] for i in newly for j in newly if nalt[j] == 2):
            e.cover("2-ALT and biallelic variant phased in the same phase set")
        if len({tuple(sorted(phases[i])) for i in newly if nalt[i] == 2}) > 1:
            e.cover("two 2-ALT variants with different genotypes phased in one run")

    def options(self, e, shape):
        """keyword arguments of run_haplotagphase beyond the defaults (chain_options chooses them through the solver)"""
        return {}

    def classify(self, shape, v):
        info = v.get("info") or {}
        if v["msg"].startswith("a variant that was already phased") and not (info.get("options") or {}):
            # same signature in both sub-checks: it is one defect (no vote -> the writer drops the existing phasing)
            return "chain:already phased variant altered:covered_by_a_tagged_read=%s" % info.get("covered_by_a_tagged_read")
        if "alt_alleles_of_record" in info:
            return "%s:%s:alt_alleles_of_record=%s" % (self.name, v["msg"], info.get("alt_alleles_of_record"))
        return "%s:%s" % (self.name, v["msg"])


class ChainMultiallelic(Chain):
    name = "chain_multiallelic"
    assumptions = [
        "error-free reads: every read shows, at each variant it covers, the allele (VCF allele index 0, 1 or 2) of one fixed haplotype of the original phasing; qualities >= 1",
        "no read overlaps two phase sets (proviso of the statement); diploid; every record has one or two ALT alleles, 2-ALT records are heterozygous with any of the six phased genotypes over {0,1,2}; "
        "no homozygous records here (sub-check chain has them); default options of haplotagphase (mav on, gap 70, cut-poly 10); reference without homopolymer runs",
        "`whatshap haplotag` loads the phased VCF without multi-allelic support (run_haplotag's VcfReader call), so reads are tagged from the biallelic variants only",
        "the second stage's reads carry the HP/PS tags written by the first stage unchanged and, at every variant, the allele index the real allele detection reports (index into REF + ALT list, restricted to the genotype's alleles)",
        "phase sets are named by the 1-based position of their leftmost variant (what `whatshap phase` writes)",
    ]
    stubs = Chain.stubs + ["symbolic run only: VcfReader(mav=False) of the first stage = the table without the 2-ALT records; the replay writes the original phased VCF (two ALT alleles in those records) and parses it with the real VcfReader; "
                           "the stand-ins of VcfReader/PhasedVcfWriter in the second stage honour the `mav` argument run_haplotagphase passes"]
    required_cover = ["stage 1 tags every read with its true haplotype", "stage 2 phases an unphased variant", "covered unphased variant gets phased", "two phase sets",
                      "already phased variant with votes", "already phased variant without votes", "already phased 2-ALT variant with votes",
                      "read covering only 2-ALT variants is left untagged by haplotag", "2-ALT and biallelic variant phased in the same phase set",
                      "two 2-ALT variants with different genotypes phased in one run"] + [
                      "2-ALT variant phased by stage 2 with the original order %d|%d" % p for p in _PHASES["m"]]

    def shapes(self, tier):
        out = []

        def add(kinds, psidx, reads):
            out.append(dict(V=len(kinds), kinds=kinds, psidx=list(psidx), reads=[list(r) for r in reads]))

        def all_reads(kinds, psidx, rmax):
            opts = _read_options(len(kinds), psidx)
            tagged = lambda r: any(kinds[i] == "b" for i in r)
            for R in range(1, rmax + 1):
                for reads in itertools.combinations_with_replacement(opts, R):
                    if len(kinds) >= 3 and not any(tagged(r) for r in reads):
                        continue  # no read can be tagged (V <= 2 keeps such read sets)
                    if len(kinds) >= 3 and kinds.count("m") >= 2 and not all(tagged(r) for r in reads):
                        continue  # two 2-ALT records (6 x 6 genotypes): only read sets in which every read votes
                    add(kinds, psidx, reads)

        if tier == "quick":
            # the big ones first (job balance)
            add("bmm", (0, 0, 0), [[0, 1, 2]])
            add("bbm", (0, 1, 1), [[0], [1, 2]])
            add("bmb", (0, 0, 1), [[0, 1], [2]])
            for kinds in ("bm", "mb"):
                all_reads(kinds, (0, 0), 2)
            add("m", (0,), [[0]])
        else:
            for kinds in ("bmm", "mbm", "mmb"):
                all_reads(kinds, (0, 0, 0), 2)
            for kinds, psidxs in (("bbm", [(0, 0, 0), (0, 1, 1)]), ("bmb", [(0, 0, 0), (0, 0, 1), (0, 1, 1)]), ("mbb", [(0, 0, 0), (0, 0, 1)])):
                for psidx in psidxs:  # every split in which the 2-ALT record shares its phase set with a biallelic one
                    all_reads(kinds, psidx, 2)
            for kinds in ("bm", "mb"):
                all_reads(kinds, (0, 0), 3)
                all_reads(kinds, (0, 1), 2)
            all_reads("mm", (0, 0), 1)
            all_reads("m", (0,), 2)
            add("bmbm", (0, 0, 1, 1), [[0, 1], [2, 3]])
        return out

    def bounds(self, tier):
        sh = self.shapes(tier)
        return ("%d shapes: V <= %d diploid records, each with one ('b') or two ('m') ALT alleles [%s], in <= 2 phase sets, R <= %d error-free reads each covering a non-empty subset of one phase set's variants "
                "(%s); "
                "symbolic: original phased genotype of every record (2 orders for 'b'; 0|1, 1|0, 0|2, 2|0, 1|2, 2|1 for 'm'), haplotype of every read, every quality in 1..3, which records are unphased in the second input"
                % (len(sh), max(s["V"] for s in sh), ", ".join(sorted({s["kinds"] for s in sh})), max(len(s["reads"]) for s in sh),
                   "every multiset of <= 2 reads for bm/mb, selected read sets for V = 3" if tier == "quick" else
                   "V = 3 with one 2-ALT record: every multiset of <= 2 reads of which one covers a biallelic record; V = 3 with two 2-ALT records: every multiset of <= 2 reads that all cover the biallelic record; "
                   "V = 2: every multiset of <= 3 reads; one V = 4 shape"))


class ChainOptions(Chain):
    """the same chain with the options of `whatshap haplotagphase` chosen by the solver and insertion records next to SNVs"""

    name = "chain_options"
    assumptions = [a for a in Chain.assumptions if not a.startswith("no read overlaps")] + [
        "no read overlaps two phase sets (proviso of the statement); diploid; every record is an SNV or an insertion with one ALT allele; reference without homopolymer runs",
        "options: --only-indels on/off, --gap-threshold in {0, 70, 100}, --cut-poly in {0, 10} (solver-chosen); none of them is mentioned by the statement, so its clauses are asserted unchanged for every choice"]
    required_cover = ["stage 1 tags every read with its true haplotype", "stage 2 phases an unphased variant", "already phased variant with votes", "already phased variant without votes",
                      "--only-indels: insertion phased", "--only-indels: voted SNV left unphased", "--only-indels: already phased SNV with votes", "two phase sets"]

    def options(self, e, shape):
        o = dict(only_indels=bool(e.bit("only_indels")), gap_threshold=e.choice("gap_threshold", [70, 0, 100]), cut_poly=e.choice("cut_poly", [10, 0]))
        return o

    def shapes(self, tier):
        out = []
        kindsets = ["bi", "ib", "ii"] if tier == "quick" else ["bi", "ib", "ii", "bbi", "bib", "ibb", "iib"]
        for kinds in kindsets:
            V = len(kinds)
            for psidx in itertools.product((0, 1), repeat=V):
                if psidx[0] != 0:
                    continue
                opts = _read_options(V, psidx)
                for R in (1, 2):
                    if V == 3 and R == 2:
                        continue  # three records: one read (two reads x 12 option combinations did not finish in 40 min)
                    for reads in itertools.combinations_with_replacement(opts, R):
                        out.append(dict(V=V, kinds=kinds, psidx=list(psidx), reads=[list(r) for r in reads], options=True))
        return out

    def bounds(self, tier):
        sh = self.shapes(tier)
        return ("%d shapes: V <= %d biallelic records, SNVs ('b') and insertions ('i') [%s], in <= 2 phase sets, R <= 2 error-free reads; symbolic: as chain (no homozygous record), plus "
                "--only-indels, --gap-threshold in {0,70,100}, --cut-poly in {0,10}" % (len(sh), max(s["V"] for s in sh), ", ".join(sorted({s["kinds"] for s in sh}))))


SUBCHECKS = {c.name: c for c in [Chain(), ChainMultiallelic(), ChainOptions()]}

if __name__ == "__main__":
    import sys
    from vf import runner

    sys.exit(runner.main("checks.c17", sys.argv[1:]))
