"""C07 - read selection never exceeds the coverage cap and leaves no admissible read out.

Sub-checks
  select    whatshap.readselect.readselection (DeCy translation of readselect.pyx on top of the
            DeCy PriorityQueue, the real CovMonitor and ComponentFinder executed symbolically):
            subset / cap / maximality / independence of the std::unordered_set order, over every
            incidence shape within the bound, with the cap, every base quality and the
            preferred-source flags decided by z3
  family    arithmetic lemma about the per-member cap that `whatshap phase` derives from
            --internal-downsampling (expression and validation read from phase.py's AST at run time),
            over unbounded integers

Readings (DESIGN 3 rule 2)
  * "spanned": a read spans every variant index between its first and last covered variant
    (inclusive), variant indices being the ranks of the positions of the whole read set - the statement's
    own words ("from first to last covered variant").
  * "maximal: every read left out would push some variant it spans above k" is asserted literally:
    for every read that is not selected there is a variant in its span whose span count (over the
    selected reads) is already >= k.  Reads that "cover no new variant" in one slice are not an exception:
    the algorithm keeps iterating until no undecided read remains, so it promises exactly this.
  * the family clause is asserted as arithmetic only (members * per-member cap <= k for 1 <= members <= k,
    and k <= 23 after validation); together with the cap clause proved per member by `select` this gives the
    statement's "never more than k times in total over all members".  The WHATSHAP_VERIF_TRACE hook named by
    the property is not needed for that and is not used here.
"""
import ast
import contextlib
import io
import itertools
import os

from vf.runner import SubCheck, REPO
from vf.pysym.loader import SymWorld

PROPERTY = "C07"

POS = [10, 20, 30, 40, 50, 60]


class _NoResult(Exception):
    """the coverage monitor was consulted far more often than any terminating run can need"""


class _Impl:
    """What the harness needs from an implementation (symbolic translation or compiled build)."""

    def __init__(self, Read, ReadSet, readselection, set_order, covmonitor):
        self.Read, self.ReadSet, self._readselection, self.set_order = Read, ReadSet, readselection, set_order
        # step bound: every pop of a read from a queue asks the monitor once; a terminating run over R reads pops
        # O(R^2) reads per pass.  The (pure Python) CovMonitor class is wrapped for that - in the symbolic world and in
        # the real package alike - so that a selection loop that never ends becomes an observable failure.
        self.calls = [0, float("inf")]
        orig = covmonitor.max_coverage_in_range
        calls = self.calls

        def counted(mon, begin, end):
            calls[0] += 1
            if calls[0] > calls[1]:
                raise _NoResult()
            return orig(mon, begin, end)

        covmonitor.max_coverage_in_range = counted

    def readselection(self, rs, k, preferred, bridging, limit=80):
        self.calls[0], self.calls[1] = 0, limit
        out = io.StringIO()
        try:
            with contextlib.redirect_stdout(out):
                return self._readselection(rs, k, preferred, bridging)
        finally:
            self.calls[1] = float("inf")  # outside of this call the (shared, real) CovMonitor class must behave as unwrapped


def _locked_load_real(build, names):
    """16 workers start at once; let one of them compile a changed tree, the others wait and use the cache"""
    import fcntl

    os.makedirs(build.CACHE, exist_ok=True)
    with open(os.path.join(build.CACHE, ".lock-c07"), "w") as lock:
        fcntl.flock(lock, fcntl.LOCK_EX)
        try:
            return build.load_real(names)
        finally:
            fcntl.flock(lock, fcntl.LOCK_UN)


def _subsets(n):
    out = []
    for m in range(2, n + 1):
        out += [list(c) for c in itertools.combinations(range(n), m)]
    return out


class Select(SubCheck):
    name = "select"
    encoded = [
        "whatshap.readselect.readselection", "_construct_indexes", "_compute_score_for_read", "_update_score_for_reads",
        "_construct_priorityqueue", "_slice_read_selection", "readselection_helper", "format_read_source_stats",
        "whatshap.priorityqueue.PriorityQueue (DeCy)", "whatshap.coverage.CovMonitor", "whatshap.graph.ComponentFinder",
    ]
    sources = ["whatshap/readselect.pyx", "whatshap/coverage.py", "whatshap/graph.py", "whatshap/priorityqueue.pyx", "whatshap/priorityqueue.pxd"]
    assumptions = [
        "every read covers at least two variants (documented precondition; readselection raises ValueError otherwise - checked in the shape 'short')",
        "variants of a read are stored in increasing position order (Read.sort(), done by every producer of read sets)",
        "cap k >= 1",
    ]
    stubs = [
        "vf/models/core_model.py Read/ReadSet in place of the compiled whatshap.core (validated by the per-path replay on real whatshap.core objects)",
        "DeCy shims vector/unordered_set/pair/pointer (vf/decy/shims.py); the inputs of the repo's tests/test_readselect.py are run through the translation and the compiled build in setup() and must agree",
        "order independence on replay: the compiled build (libstdc++'s own bucket order) is compared with the translation run concretely under the solver-chosen traversal order; a step bound on CovMonitor.max_coverage_in_range turns a selection loop that never ends into an observable failure",
    ]
    required_cover = [
        "a read is left out", "all reads selected", "cap reached at some variant", "preferred read selected", "bridging on",
        "unordered_set iterated in a non-identity order", "scores tie on the first two components", "short read rejected",
    ]
    max_decisions = 20000
    policies = ["rev", "rot1"]

    def run(self, shape, tier, seed):
        R = len(shape.get("reads", []))
        self._nonterm = 0
        self.policies = ["revrot"] if R >= 4 else ["rev", "rot1"] if tier == "quick" else ["rev", "revrot", "rot1", "rot-1"]
        return SubCheck.run(self, shape, tier, seed)

    # ---- shapes -------------------------------------------------------------
    def shapes(self, tier):
        """(R reads, N positions, mode): `all` = every ordered tuple of covered subsets; `sorted` = only tuples in
        non-decreasing order of the first covered variant (the order ReadSet.sort() gives `whatshap phase`);
        `multiset` = tuples in lexicographic order of the covered sets (one representative per multiset of reads)."""
        out = [dict(kind="short")]
        if tier == "quick":
            rn = [(1, 2, "all"), (2, 2, "all"), (2, 3, "all"), (2, 4, "all"), (3, 2, "all"), (3, 3, "all"), (3, 4, "sorted")]
        else:
            rn = [(1, 2, "all"), (2, 2, "all"), (2, 3, "all"), (2, 4, "all"), (3, 2, "all"), (3, 3, "all"), (3, 4, "all"), (4, 2, "all"), (4, 3, "sorted"), (4, 4, "multiset")]
        for R, N, mode in rn:
            subs = _subsets(N)
            for reads in itertools.product(subs, repeat=R):
                if len(set(j for r in reads for j in r)) != N:
                    continue  # an instance of a smaller N
                if mode == "sorted" and any(reads[i][0] > reads[i + 1][0] for i in range(R - 1)):
                    continue
                if mode == "multiset" and any(reads[i] > reads[i + 1] for i in range(R - 1)):
                    continue
                for bridging in (0, 1):
                    # pref=1: preferred_source_ids is a set and the solver decides which reads come from a preferred
                    # source (possibly none); pref=0: preferred_source_ids=None
                    for pref in ((0, 1) if R <= 2 else (1,)):
                        out.append(dict(kind="sel", reads=[list(r) for r in reads], n=N, bridging=bridging, pref=pref))
        # bridging families (beyond R/N of the general enumeration, because the bridging pass only decides anything once
        # >= 2 blocks exist AND >= 2 undecided reads compete): two resp. three disjoint block reads plus two further reads
        seen = set(tuple(map(tuple, s["reads"])) for s in out if s["kind"] == "sel" and s["bridging"])
        for extra in itertools.product(_subsets(4), repeat=2):
            reads = [[0, 1], [2, 3]] + [list(x) for x in extra]
            if tuple(map(tuple, reads)) not in seen:
                out.append(dict(kind="sel", reads=reads, n=4, bridging=1, pref=0, family="bridge4"))
        cands = [[1, 2], [3, 4], [1, 4], [2, 5], [0, 3], [1, 2, 3, 4]]
        for extra in itertools.product(cands, repeat=2):
            out.append(dict(kind="sel", reads=[[0, 1], [2, 3], [4, 5]] + [list(x) for x in extra], n=6, bridging=1, pref=0, family="bridge6"))
        return out

    def bounds(self, tier):
        allsh = [s for s in self.shapes(tier) if s["kind"] == "sel"]
        sh = [s for s in allsh if "family" not in s]
        return (
            "%d incidence shapes: R <= %d reads over N <= %d variant positions; every ordered assignment of a covered subset (>= 2 positions) to every read "
            "whose union is all N positions%s; bridging on/off; preferred_source_ids None (R <= 2) or a set; "
            "symbolic: cap k in [1,3], base quality of every entry in [0,3], which reads come from a preferred source; "
            "plus the bridging families {[0,1],[2,3]} + any two reads over 4 positions and {[0,1],[2,3],[4,5]} + two reads out of 6 block-joining candidates over 6 positions (bridging on, no preferred sources); "
            "std::unordered_set traversal order: every permutation of every traversal for R <= 2 and N <= 3, otherwise one solver-chosen policy per run out of %s"
            % (len(allsh), max(len(s["reads"]) for s in sh), max(s["n"] for s in sh),
               " (R=3, N=4: reads in non-decreasing order of their first variant)" if tier == "quick" else ", R=4: N=3 reads ordered by first variant, N=4 one representative per multiset of reads (lexicographic order)",
               "reverse/rotate" if tier == "quick" else "reverse/reverse+rotate/rotate left/rotate right (R <= 3), reverse+rotate (R=4)")
        )

    # ---- implementations ------------------------------------------------------
    def setup(self):
        from vf.models import core_model
        from vf.decy import shims

        self.shims = shims
        self.world = SymWorld(overrides={"whatshap.core": core_model}, decy=["whatshap.readselect", "whatshap.priorityqueue"])
        mod = self.world.load("whatshap.readselect")

        def set_order(fn):
            shims.ORDER_HOOK = fn

        self.sym = _Impl(core_model.Read, core_model.ReadSet, mod.readselection, set_order, mod.CovMonitor)
        from vf import build

        real = _locked_load_real(build, ["core", "priorityqueue", "readselect"])
        import whatshap.coverage

        self.real = _Impl(real["core"].Read, real["core"].ReadSet, real["readselect"].readselection, lambda fn: None, whatshap.coverage.CovMonitor)
        self._selftest(core_model, self.real)

    def _selftest(self, core_model, real_impl):
        """DeCy self-test: the inputs of the repo's own tests/test_readselect.py are run through the translation and
        through the compiled build; every call must return the same set.  (The tests' expected values are not
        asserted here: a changed tree may legitimately change them, that is the repo's test-suite's business.)"""
        import whatshap.testhelpers as real_th

        w = SymWorld(overrides={"whatshap.core": core_model}, decy=["whatshap.readselect", "whatshap.priorityqueue"], shadows={"int": int, "float": float, "bool": bool})
        mod = w.load("whatshap.readselect")
        th = w.load("whatshap.testhelpers")
        src = open(os.path.join(REPO, "tests", "test_readselect.py")).read()
        src = src.replace("from whatshap.readselect import readselection", "").replace("from whatshap.testhelpers import string_to_readset", "")
        logs = []
        sym_impl = _Impl(core_model.Read, core_model.ReadSet, mod.readselection, lambda fn: None, mod.CovMonitor)
        for impl, helper in ((sym_impl, th.string_to_readset), (real_impl, real_th.string_to_readset)):
            log = []

            def rec(reads, max_cov, preferred_source_ids=None, bridging=True, _impl=impl, _log=log):
                try:  # step-bounded like the harness, so that a tree whose selection loop never ends cannot hang setup()
                    r = _impl.readselection(reads, max_cov, preferred_source_ids, bridging, limit=20000)
                except _NoResult:
                    _log.append("no result within 20000 coverage queries")
                    return set()
                _log.append(sorted(r))
                return r

            ns = {"__name__": "decy_selftest", "readselection": rec, "string_to_readset": helper}
            tree = ast.parse(src)
            for node in ast.walk(tree):  # the tests' inputs are used, their expected values are not
                for field in ("body", "orelse"):
                    if isinstance(getattr(node, field, None), list):
                        setattr(node, field, [ast.Pass() if isinstance(x, ast.Assert) else x for x in getattr(node, field)])
            ast.fix_missing_locations(tree)
            with contextlib.redirect_stdout(io.StringIO()):
                exec(compile(tree, "test_readselect.py", "exec"), ns)
                for k, f in list(ns.items()):
                    if k.startswith("test_") and callable(f):
                        f()
            logs.append(log)
        if len(logs[0]) < 8:
            raise RuntimeError("DeCy self-test: repo tests for readselect not found")
        if logs[0] != logs[1]:
            raise RuntimeError("DeCy self-test: translation and compiled readselect disagree on the repo's test inputs: %r vs %r" % (logs[0], logs[1]))

    def sym_impl(self):
        return self.sym

    def real_impl(self):
        return self.real

    # ---- harness ----------------------------------------------------------------
    def harness(self, e, shape, impl):
        if shape["kind"] == "short":
            return self._short(e, impl)
        reads, bridging, pref = shape["reads"], bool(shape["bridging"]), shape["pref"]
        R = len(reads)
        if e.symbolic and getattr(self, "_nonterm", 0) >= 1:
            # fail fast: this job has already produced a non-termination counter-example (each costs the full step
            # bound, symbolically and on replay); the remaining paths of the job are dropped, the job is red anyway
            e.assume(False)
        k = e.int("k", 1, 3)
        # `steer`: the implementation whose unordered_set order the hook can steer.  Symbolically that is the
        # translation itself (run 1 identity order, run 2 steered).  On replay run 1 is the compiled build (libstdc++'s
        # own order) and run 2 the translation executed concretely under the order the solver chose, so that a result
        # which depends on the unspecified order shows up as a reproduced disagreement instead of an unreproducible one.
        steer = impl if e.symbolic else self.sym
        rs, rs2 = impl.ReadSet(), (None if steer is impl else steer.ReadSet())
        prefbit = []
        for i, cov in enumerate(reads):
            p = e.bit("pref%d" % i) if pref else 0
            prefbit.append(p)
            r = impl.Read("r%d" % i, 50, p)
            r2 = None if rs2 is None else steer.Read("r%d" % i, 50, p)
            for j in cov:
                q = e.int("q%d_%d" % (i, j), 0, 3)
                r.add_variant(POS[j], (i + j) % 2, q)
                if r2 is not None:
                    r2.add_variant(POS[j], (i + j) % 2, q)
            rs.add(r)
            if r2 is not None:
                rs2.add(r2)
        if rs2 is None:
            rs2 = rs
        preferred = {1} if pref else None

        limit = 4 * R * R + 16
        ctx0 = lambda: dict(reads=reads, bridging=bridging, preferred=[i for i in range(R) if prefbit[i]], k=e.value(k))
        # run 1: containers iterated in insertion order
        impl.set_order(None)
        try:
            sel0 = impl.readselection(rs, k, preferred, bridging, limit)
        except _NoResult:
            sel0 = None
            if e.symbolic:
                self._nonterm = getattr(self, "_nonterm", 0) + 1
        e.check(sel0 is not None, "readselection does not terminate (coverage monitor consulted more than 4*R*R+16 times; two passes of at most R rounds popping at most 2R reads each need 4*R*R)", ctx0)
        # run 2: every traversal of a std::unordered_set in an order chosen by the solver
        cnt = [0]
        policy = [None]

        def hook(items):
            n = len(items)
            cnt[0] += 1
            if n < 2:
                return items
            if R <= 2 and shape["n"] <= 3:
                p = e.perm("ord%d" % cnt[0], n)  # every permutation of every traversal
            else:
                # larger shapes: one solver-chosen policy for all traversals of a run (a single fork): reversal (what
                # libstdc++ does while no rehash happens) / reversal rotated by the traversal number / rotations
                if policy[0] is None:
                    policy[0] = e.choice("order_policy", self.policies)
                ident = list(range(n))
                p = {"rev": ident[::-1], "revrot": ident[::-1][cnt[0] % n:] + ident[::-1][:cnt[0] % n], "rot1": ident[1:] + ident[:1], "rot-1": ident[-1:] + ident[:-1]}[policy[0]]
            if p != list(range(n)):
                e.cover("unordered_set iterated in a non-identity order")
            return [items[x] for x in p]

        steer.set_order(hook)
        try:
            sel1 = steer.readselection(rs2, k, preferred, bridging, limit)
        except _NoResult:
            sel1 = None
        finally:
            steer.set_order(None)
        e.check(sel1 is not None, "readselection does not terminate under a permuted unordered_set order", ctx0)
        e.out("selected", sorted(sel0))
        e.out("selected_permuted", sorted(sel1))
        ctx = lambda: dict(reads=reads, selected=sorted(sel0), bridging=bridging, preferred=[i for i in range(R) if prefbit[i]], k=e.value(k), selected_permuted=sorted(sel1))
        e.check(sorted(sel0) == sorted(sel1), "selection depends on the iteration order of the unordered_set (insertion order resp. the compiled build vs. the steered order give different sets)", ctx)

        # ---- oracle, from the statement ----
        sel = set(sel0)
        e.check(all(type(i) is int and 0 <= i < R for i in sel), "selected set is not a subset of the input read indices", ctx)
        npos = sorted(set(j for cov in reads for j in cov))  # variant index = rank of the position
        span = [set(v for v, j in enumerate(npos) if min(cov) <= j <= max(cov)) for cov in reads]
        count = [sum(1 for i in sel if v in span[i]) for v in range(len(npos))]
        for v in range(len(npos)):
            e.check(count[v] <= k, "a variant is spanned by more than k selected reads", lambda: dict(ctx(), variant=v, span_count=count[v]))
        reached = False
        for i in range(R):
            if i in sel:
                continue
            e.cover("a read is left out")
            worst = max(count[v] for v in span[i])
            pref_overlap = any(p in sel and prefbit[p] and span[p] & span[i] for p in range(R))
            # would the monitor of the second pass, in which every selected preferred read is entered twice, explain it?
            dbl = [sum((2 if prefbit[s] else 1) for s in sel if v in span[s]) for v in range(len(npos))]
            e.check(
                worst >= k,
                "maximality: a read is left out although every variant it spans is spanned by fewer than k selected reads",
                lambda: dict(ctx(), left_out=i, span_counts=[count[v] for v in sorted(span[i])], overlaps_selected_preferred_read=bool(pref_overlap),
                             blocked_if_selected_preferred_reads_counted_twice=bool(max(dbl[v] for v in span[i]) >= e.value(k))),
            )
        if len(sel) == R:
            e.cover("all reads selected")
        if any(bool(count[v] == k) for v in range(len(npos))):
            e.cover("cap reached at some variant")
        if any(prefbit[i] and i in sel for i in range(R)):
            e.cover("preferred read selected")
        if bridging:
            e.cover("bridging on")
        # vacuity guard for the symbolic score order: two reads with equal (new - gaps, total - bad)
        sc = [2 * len(cov) - (max(cov) - min(cov) + 1) for cov in reads]
        if len(set(sc)) < R:
            e.cover("scores tie on the first two components")

    def _short(self, e, impl):
        """precondition guard: a read with fewer than two variants is rejected, never silently selected"""
        rs = impl.ReadSet()
        r = impl.Read("a", 50, 0)
        r.add_variant(10, 0, e.int("q0", 0, 3))
        r.add_variant(20, 1, e.int("q1", 0, 3))
        rs.add(r)
        r = impl.Read("b", 50, 0)
        r.add_variant(10, 0, e.int("q2", 0, 3))
        rs.add(r)
        try:
            impl.readselection(rs, e.int("k", 1, 3), None, True)
            e.check(False, "a read covering a single variant was accepted by readselection")
        except ValueError:
            e.cover("short read rejected")

    def classify(self, shape, v):
        info = v.get("info") or {}
        if v["msg"].startswith("maximality"):
            return "select:maximality:preferred_present=%s:blocked_if_selected_preferred_reads_counted_twice=%s" % (
                bool(info.get("preferred")), info.get("blocked_if_selected_preferred_reads_counted_twice"))
        return "select:%s" % v["msg"]


# ---------------------------------------------------------------------------
# the per-member cap of `whatshap phase`
# ---------------------------------------------------------------------------
def _find_cap_expr(tree):
    """The expression assigned to the second argument of the select_reads(...) call in run_whatshap."""
    call = None
    for node in ast.walk(tree):
        if isinstance(node, ast.Call) and isinstance(node.func, ast.Name) and node.func.id == "select_reads":
            call = node
    if call is None:
        raise RuntimeError("phase.py: call of select_reads not found")
    arg = call.args[1] if len(call.args) > 1 else [kw.value for kw in call.keywords if kw.arg == "max_coverage"][0]
    if not isinstance(arg, ast.Name):
        return arg, None
    found = [n for n in ast.walk(tree) if isinstance(n, ast.Assign) and len(n.targets) == 1 and isinstance(n.targets[0], ast.Name) and n.targets[0].id == arg.id]
    if len(found) != 1:
        raise RuntimeError("phase.py: expected exactly one assignment to %s, found %d" % (arg.id, len(found)))
    return found[0].value, arg.id


def _find_validation(tree):
    """Tests of `if <test>: parser.error(...)` in validate() that mention args.max_coverage."""
    tests = []
    for fn in ast.walk(tree):
        if isinstance(fn, ast.FunctionDef) and fn.name == "validate":
            for node in ast.walk(fn):
                if isinstance(node, ast.If) and any(isinstance(a, ast.Attribute) and a.attr == "max_coverage" for a in ast.walk(node.test)):
                    if any(isinstance(c, ast.Call) and isinstance(c.func, ast.Attribute) and c.func.attr == "error" for s in node.body for c in ast.walk(s)):
                        tests.append(node.test)
    return tests


class _Sized:
    """stands for the `family` list: only its length is used"""

    def __init__(self, n):
        self.n = n


class _Args:
    def __init__(self, k):
        self.max_coverage = k


def _sym_round(x, ndigits=None):
    """Python's round() to an integer (ties to even) on a symbolic real / int"""
    import z3
    from vf.pysym.engine import SymReal, SymInt

    if ndigits is not None:
        raise RuntimeError("phase.py: round() with ndigits - extend the check")
    if isinstance(x, SymInt) or isinstance(x, int):
        return x
    if not isinstance(x, SymReal):
        return round(x)
    q = z3.ToInt(x.e)  # floor
    frac = x.e - z3.ToReal(q)
    half = z3.RealVal("1/2")
    return SymInt(z3.If(frac < half, q, z3.If(frac > half, q + 1, z3.If(q % 2 == 0, q, q + 1))))


def _sym_trunc(x):
    import z3
    from vf.pysym.engine import SymReal, SymInt

    if isinstance(x, SymReal):
        q = z3.ToInt(x.e)
        return SymInt(z3.If(z3.Or(x.e >= 0, z3.ToReal(q) == x.e), q, q + 1))
    return x if isinstance(x, SymInt) else int(x)


class Family(SubCheck):
    name = "family"
    encoded = ["whatshap.cli.phase.run_whatshap: expression for max_coverage_per_sample", "whatshap.cli.phase.validate: tests on args.max_coverage"]
    sources = ["whatshap/cli/phase.py"]
    assumptions = ["k >= 1 (statement)", "1 <= number of family members <= k (statement: 'one family (of at most k members)')"]
    stubs = ["`family` is an object of symbolic length; len() and max()/min() are the symbolic versions"]
    required_cover = ["cap expression evaluated", "validation accepts k", "validation rejects k"]

    def shapes(self, tier):
        return [dict(q="product"), dict(q="validate")]

    def bounds(self, tier):
        return "unbounded mathematical integers k >= 1, 1 <= f <= k (no upper bound): f * cap(k, f) <= k, cap >= 1; validation passes => k <= 23"

    def setup(self):
        src = open(os.path.join(REPO, "whatshap", "cli", "phase.py")).read()
        tree = ast.parse(src)
        expr, name = _find_cap_expr(tree)
        self.cap_src = ast.unparse(expr)
        self.cap_code = compile(ast.Expression(expr), "phase.py:max_coverage_per_sample", "eval")
        self.free = sorted(set(n.id for n in ast.walk(expr) if isinstance(n, ast.Name)) - {"max", "min", "len", "int", "abs", "round"})
        tests = _find_validation(tree)
        if not tests:
            raise RuntimeError("phase.py: validation of args.max_coverage not found")
        self.val_src = [ast.unparse(t) for t in tests]
        self.val_code = [compile(ast.Expression(t), "phase.py:validate", "eval") for t in tests]
        from vf.decy import shims

        self.shims = shims

    def sym_impl(self):
        return "sym"

    def real_impl(self):
        return "real"

    def _env(self, k, f):
        sh = self.shims
        env = {"max": sh.sym_max, "min": sh.sym_min, "len": lambda x: x.n if isinstance(x, _Sized) else len(x), "round": _sym_round, "int": _sym_trunc, "abs": abs, "__builtins__": {}}
        for name in self.free:
            if name == "max_coverage":
                env[name] = k
            elif name == "family":
                env[name] = _Sized(f)
            else:
                raise RuntimeError("phase.py: per-member cap now depends on %r - extend the check" % name)
        return env

    def harness(self, e, shape, impl):
        k = e.int("k", 1, None)
        if shape["q"] == "product":
            f = e.int("f", 1, None)
            e.assume(f <= k)
            cap = eval(self.cap_code, self._env(k, f))
            e.cover("cap expression evaluated")
            e.out("cap", cap)
            ctx = lambda: dict(expression=self.cap_src, k=e.value(k), members=e.value(f), cap=e.value(cap))
            e.check(cap >= 1, "per-member cap below 1", ctx)
            e.check(f * cap <= k, "members * per-member cap exceeds --internal-downsampling", ctx)
        else:
            rejected = False
            for code in self.val_code:
                r = eval(code, {"args": _Args(k), "__builtins__": {}})
                if r:
                    rejected = True
            e.out("rejected", rejected)
            if rejected:
                e.cover("validation rejects k")
            else:
                e.cover("validation accepts k")
                e.check(k <= 23, "validation accepts a cap above 23 (table of more than 2^23 entries per column)", lambda: dict(tests=self.val_src, k=e.value(k)))

    def classify(self, shape, v):
        return "family:%s" % v["msg"]


def harvested_literals(path):
    """integer literals >= 2 of a source file (block sizes, thresholds): the boundaries at which an index computation can
    change behaviour.  Re-read from the working tree on every run."""
    import ast

    from vf.runner import REPO

    tree = ast.parse(open(os.path.join(REPO, path)).read())
    lits = set()
    for n in ast.walk(tree):
        if isinstance(n, ast.Constant) and type(n.value) is int and 2 <= n.value <= 4096:
            lits.add(n.value)
    return sorted(lits)


class CovMon(SubCheck):
    """The coverage monitor alone against its definition (CovMonitor.coverage[i] = number of added reads spanning variant
    index i; max_coverage_in_range = maximum over the index range).  readselection consults it before every insertion, so
    the cap of C07 is only as good as this bookkeeping.  Index ranges run over small values and over the neighbourhood
    (B-1, B, B+1, 2B-1, 2B, 2B+1) of every integer literal B found in coverage.py - with the naive implementation of the
    unchanged tree there is none; a blocked / bucketed implementation brings its own boundaries into the bound."""

    name = "covmon"
    encoded = ["whatshap.coverage.CovMonitor.{__init__,add_read,max_coverage_in_range,coverage}"]
    sources = ["whatshap/coverage.py"]
    assumptions = ["0 <= begin < end <= length for every call (readselect passes the first variant index and last + 1)"]
    stubs = []
    required_cover = ["query over a range two reads overlap in", "query over a range no read spans", "read nested inside another read"]

    def domain(self):
        vals = {0, 1, 2, 3}
        for b in harvested_literals("whatshap/coverage.py"):
            if b <= 512:
                vals.update({b - 1, b, b + 1, 2 * b - 1, 2 * b, 2 * b + 1})
        return sorted(vals)

    def shapes(self, tier):
        dom = self.domain()
        pairs = [(a, b) for a in dom for b in dom if a < b]
        return [dict(first=list(p), nadd=2 if tier == "quick" or len(pairs) > 20 else 3) for p in pairs]

    def bounds(self, tier):
        return "index values %s (small values plus the neighbourhood of every integer literal of whatshap/coverage.py); 2 (thorough, small domains: 3) add_read calls and one query with solver-chosen ranges over those values; `coverage` compared at every index" % self.domain()

    def setup(self):
        self.world = SymWorld()
        self.sym = self.world.load("whatshap.coverage")
        from vf import build

        build.prepare_repo()
        # a private copy of the real module: sub-check `select` wraps whatshap.coverage.CovMonitor (call counter) in the workers
        # it shares with this one
        import importlib.util

        spec = importlib.util.spec_from_file_location("covmon_private_copy", os.path.join(REPO, "whatshap", "coverage.py"))
        self.real = importlib.util.module_from_spec(spec)
        spec.loader.exec_module(self.real)

    def sym_impl(self):
        return self.sym

    def real_impl(self):
        return self.real

    def harness(self, e, shape, impl):
        dom = self.domain()
        pairs = [(a, b) for a in dom for b in dom if a < b]
        length = dom[-1] + 1
        cm = impl.CovMonitor(length)
        naive = [0] * length
        added = []
        for k in range(shape["nadd"]):
            b, en = tuple(shape["first"]) if k == 0 else e.choice("add%d" % k, pairs)
            cm.add_read(b, en)
            for i in range(b, en):
                naive[i] += 1
            added.append((b, en))
        if any(a[0] <= c[0] and c[1] <= a[1] for a in added for c in added if a is not c):
            e.cover("read nested inside another read")
        qb, qe = e.choice("query", pairs)
        got = cm.max_coverage_in_range(qb, qe)
        want = max(naive[qb:qe])
        e.out("max", got)
        if want >= 2:
            e.cover("query over a range two reads overlap in")
        if want == 0:
            e.cover("query over a range no read spans")
        info = lambda: dict(added_reads=added, query=[qb, qe], reported=got, spanning_reads_per_index_max=want)
        e.check(got == want, "coverage monitor: max_coverage_in_range differs from the number of added reads spanning an index of the range (the cap test of read selection is wrong)", info)
        cov = list(cm.coverage)
        e.check(cov == naive, "coverage monitor: coverage[] is not the number of added reads spanning each variant index", lambda: dict(info(), coverage=cov, expected=naive))

    def classify(self, shape, v):
        return "covmon:%s" % v["msg"][:60]


class PhaseSelect(SubCheck):
    """What `whatshap phase` hands to the solver: phase.select_reads() around readselection().  Third sentence of the statement,
    for one individual: no variant is spanned by more than k of the reads that come back - also for gapped reads (read pairs),
    whose span is wider than the variants they carry."""

    name = "phase_select"
    encoded = ["whatshap.cli.phase.select_reads", "whatshap.readselect.readselection and below (DeCy)", "whatshap.coverage.CovMonitor", "ReadSet.subset"]
    sources = ["whatshap/cli/phase.py", "whatshap/readselect.pyx", "whatshap/coverage.py", "whatshap/priorityqueue.pyx"]
    stubs = ["whatshap.core -> vf/models/core_model.py (replay: compiled core)", "DeCy translations of readselect.pyx / priorityqueue.pyx (replay: rebuilt extensions)", "whatshap.cli package import stubbed in the symbolic world"]
    assumptions = ["reads sorted by first position, >= 2 variants per read (what whatshap phase passes on)"]
    required_cover = ["gapped read", "cap binds: a read is left out"]
    max_decisions = 20000

    def shapes(self, tier):
        subsets = [list(c) for m in (2, 3, 4) for c in itertools.combinations(range(4), m)]
        R = 3 if tier == "quick" else 4
        return [dict(first=s0, R=R) for s0 in subsets]

    def bounds(self, tier):
        return "%d reads over 4 variants, each covering a solver-chosen subset of >= 2 variants (gaps allowed), cap k in {1, 2}" % (3 if tier == "quick" else 4)

    def setup(self):
        import types
        from vf.models import core_model
        from vf import build

        climod = types.ModuleType("whatshap.cli")
        climod.__path__ = []
        climod.CommandLineError = type("CommandLineError", (Exception,), {})
        climod.log_memory_usage = lambda *a, **k: None
        climod.PhasedInputReader = None
        w = SymWorld(overrides={"whatshap.core": core_model, "whatshap.cli": climod}, decy=["whatshap.readselect", "whatshap.priorityqueue"])
        self.sym = (w.load("whatshap.cli.phase"), core_model)
        real = _locked_load_real(build, ["core", "priorityqueue", "readselect"])
        import whatshap.cli.phase as real_phase

        self.real = (real_phase, real["core"])

    def sym_impl(self):
        return self.sym

    def real_impl(self):
        return self.real

    def harness(self, e, shape, impl):
        phase, core = impl
        subsets = [list(c) for m in (2, 3, 4) for c in itertools.combinations(range(4), m)]
        R = shape["R"]
        cover = [shape["first"]] + [e.choice("cov%d" % r, subsets) for r in range(1, R)]
        cover.sort(key=lambda c: c[0])
        k = e.choice("k", [1, 2])
        rs = core.ReadSet()
        for r, c in enumerate(cover):
            rd = core.Read("r%d" % r, 50, 0, 0)
            for v in c:
                rd.add_variant(POS[v], 0, 20 + r)
            rs.add(rd)
            if c[-1] - c[0] + 1 > len(c):
                e.cover("gapped read")
        rs.sort()
        buf = io.StringIO()
        with contextlib.redirect_stdout(buf):
            out = phase.select_reads(rs, k, None)
        chosen = sorted(r.name for r in out)
        e.out("selected", chosen)
        if len(chosen) < R:
            e.cover("cap binds: a read is left out")
        names = {"r%d" % r: c for r, c in enumerate(cover)}
        info = lambda: dict(reads=cover, k=k, handed_to_solver=chosen)
        e.check(all(n in names for n in chosen) and len(set(chosen)) == len(chosen), "select_reads returns reads that are not in the input", info)
        for v in range(4):
            span = sum(1 for n in chosen if names[n][0] <= v <= names[n][-1])
            e.check(span <= k, "the reads handed to the solver span a variant more than k times", lambda v=v, span=span: dict(info(), variant=v, spanned_by=span))

    def classify(self, shape, v):
        return "phase_select:%s" % v["msg"][:70]


SUBCHECKS = {c.name: c for c in [Select(), Family(), CovMon(), PhaseSelect()]}

if __name__ == "__main__":
    import sys
    from vf import runner

    sys.exit(runner.main("checks.c07", sys.argv[1:]))
