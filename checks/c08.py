"""C08 - genotyping decision layer: GT, GL and GQ agree.

Claimed (second sentence of the statement): in the output of `whatshap genotype`
GT is the unique maximum of the likelihood triple if that exceeds the threshold
and ./. otherwise; the values handed to log10 for GL are the likelihoods in
genotype-index order; the value handed to -10*log10 for GQ is the mass of the
*other* genotypes.

NOT APPLICABLE (first sentence): "GL equals the forward-backward posterior of the
HMM".  `GenotypeDPTable` (src/genotypedptable.cpp, genotypecolumncostcomputer.cpp,
transitionprobabilitycomputer.cpp) multiplies and rescales hundreds of
probabilities in x87 `long double`; neither a 64-bit-significand FP theory nor an
exact-real abstraction (which would be a different claim) is within reach of the
engines built here.  Likewise the numeric value of log10/round in the GL/GQ
formatting: `math.log10` is replaced (symbolic run *and* replay) by an opaque
term that remembers its argument.

Sub-checks
  decide   cli.genotype.determine_genotype on a symbolic likelihood triple + threshold
  writer   vcf.GenotypeVcfWriter.write_genotypes (GT/GL/GQ part) on fake record/call
           objects, arbitrary given genotype, symbolic likelihoods, 2 samples / 2 records
  pipe     determine_genotype -> VariantTable -> write_genotypes composed

Likelihoods are symbolic reals k/1024 with symbolic integer k in [0,1024] (z3
decides every comparison).  The code under test only orders likelihoods (and
compares a sum with 0): every order type / tie pattern of three likelihoods and
a threshold is realised on that grid, and grid values are exact binary floats,
so the replay on the real build (compiled whatshap.core.Genotype /
PhredGenotypeLikelihoods, doubles) sees exactly the order the solver chose.
"""
import fractions
import sys

from vf.runner import SubCheck
from vf.pysym.loader import SymWorld
from vf.pysym.engine import Unsupported

PROPERTY = "C08"
G = 1024
GT_OF_INDEX = {0: (0, 0), 1: (0, 1), 2: (1, 1)}  # VCF genotype order for diploid biallelic (VCF spec)


# ---------------------------------------------------------------------------
# opaque log10 (used on both sides; its numeric value is outside the claim)
# ---------------------------------------------------------------------------
class LogTerm:
    """factor * log10(arg); only the comparisons the writer makes are answered,
    and only where the answer follows from exact bounds on arg."""

    def __init__(self, arg, factor=1):
        self.arg = arg
        self.factor = factor

    def __mul__(self, c):
        if not isinstance(c, (int, float)):
            raise Unsupported("log term multiplied by %r" % (c,))
        return LogTerm(self.arg, self.factor * c)

    __rmul__ = __mul__

    def __repr__(self):
        return "%s*log10(%r)" % (self.factor, self.arg) if self.factor != 1 else "log10(%r)" % (self.arg,)

    def __lt__(self, c):  # max(log10(j), -1000) asks  -1000 > term
        if self.factor != 1 or not isinstance(c, int):
            raise Unsupported("comparison of a scaled log term")
        return bool(self.arg < fractions.Fraction(10) ** c)

    def __gt__(self, c):
        if self.factor != 1 or not isinstance(c, int):
            raise Unsupported("comparison of a scaled log term")
        return bool(self.arg > fractions.Fraction(10) ** c)

    def __round__(self, nd=None):
        if nd is not None:
            raise Unsupported("round(log term, ndigits)")
        return RoundTerm(self)


class RoundTerm:
    def __init__(self, inner):
        self.inner = inner

    def __repr__(self):
        return "round(%r)" % (self.inner,)

    def __gt__(self, c):  # min(round(-10*log10(q)), 10000) asks  10000 < term
        t = self.inner
        if t.factor != -10 or not isinstance(c, int) or c % 10:
            raise Unsupported("comparison of a rounded log term")
        # -10*log10(q) < c  <=>  q > 10**(-c/10): then round(.) <= c
        if t.arg > fractions.Fraction(10) ** (-c // 10):
            return False
        if t.arg < fractions.Fraction(10) ** (-c // 10 - 1):
            return True
        raise Unsupported("rounded log term too close to the cap to be ordered without evaluating log10")

    def __lt__(self, c):
        raise Unsupported("comparison of a rounded log term")


class MathShim:
    """Stands for the `math` module inside whatshap/vcf.py."""

    def __init__(self, real_math):
        self._m = real_math

    def log10(self, x):
        return LogTerm(x)

    def __getattr__(self, name):
        return getattr(self._m, name)


# ---------------------------------------------------------------------------
# minimal stand-ins for the pysam record / call the writer touches
# ---------------------------------------------------------------------------
class FakeCall(dict):
    pass


class FakeRecord:
    def __init__(self, start, alts, samples):
        self.start = start
        self.alts = alts
        self.samples = samples
        self.qual = 30


class _Impl:
    def __init__(self, genotype_mod, vcf_mod, core):
        import math

        self.genotype = genotype_mod
        self.vcf = vcf_mod
        self.core = core
        vcf_mod.math = MathShim(math)

    def writer(self, records):
        w = object.__new__(self.vcf.GenotypeVcfWriter)  # no VariantFile is opened
        w._record_modifier = lambda chromosome: iter(records)
        return w

    def table(self, samples, positions):
        t = self.vcf.VariantTable("chr1", list(samples))
        for p in positions:
            t.add_variant(
                self.vcf.BiallelicVcfVariant(p, "A", "C") if hasattr(self.vcf, "BiallelicVcfVariant") else self.vcf.VcfVariant(p, "A", "C"),
                [self.core.Genotype([]) for _ in samples],
                [None for _ in samples],
                [None for _ in samples],
                [None for _ in samples],
            )
        return t


def _lik(e, name):
    """A likelihood on the grid: symbolic k / 1024 (exact in binary floating point)."""
    return e.int(name, 0, G) / G


def _as_multiset(gt):
    return tuple(sorted(int(a) for a in gt))


class _Base(SubCheck):
    sources = ["whatshap/cli/genotype.py", "whatshap/vcf.py"]
    stubs = [
        "vf/models/core_model.py Genotype / PhredGenotypeLikelihoods / binomial_coefficient on the symbolic side (replay uses the compiled whatshap.core)",
        "math.log10 inside whatshap/vcf.py -> opaque term remembering its argument (symbolic run and replay): the numeric value of log10/round is outside the claim",
        "pysam VariantRecord / call -> FakeRecord / dict (the writer only assigns and deletes keys); VcfAugmenter.__init__/_record_modifier (htslib I/O) bypassed",
    ]
    assumptions = [
        "likelihoods and thresholds are finite numbers in [0,1] (grid k/1024 resp. t/2048, symbolic k, t)",
        "diploid, biallelic records at genotyped positions (run_genotype only genotypes such records: determine_genotype is hard-wired to three genotypes)",
    ]

    def setup(self):
        from vf import build
        from vf.models import core_model

        build.prepare_repo()
        import whatshap.align, whatshap._variants, whatshap.readselect, whatshap.priorityqueue  # noqa: E401  (imported by the CLI package, never called here)
        import whatshap.cli.genotype as real_genotype
        import whatshap.vcf as real_vcf
        import whatshap.core as real_core

        ov = {"whatshap.core": core_model}
        for n in ("align", "_variants", "readselect", "priorityqueue"):
            ov["whatshap." + n] = sys.modules["whatshap." + n]
        w = SymWorld(overrides=ov)
        self._sym = _Impl(w.load("whatshap.cli.genotype"), w.load("whatshap.vcf"), core_model)
        self._real = _Impl(real_genotype, real_vcf, real_core)

    def sym_impl(self):
        return self._sym

    def real_impl(self):
        return self._real


def _decision_oracle(e, l, thr, got_alleles, ctx):
    """result is genotype i  <=>  l_i is the strict maximum and exceeds the threshold."""
    for i in range(3):
        cond = l[i] > thr
        for j in range(3):
            if j != i:
                cond = cond & (l[i] > l[j])
        is_i = got_alleles == GT_OF_INDEX[i]
        e.check(cond == is_i, "GT is genotype %s although it is not (or is not although it is) the unique maximum above the threshold" % (GT_OF_INDEX[i],), ctx)
    e.check(got_alleles == () or got_alleles in GT_OF_INDEX.values(), "GT is neither a diploid biallelic genotype nor ./.", ctx)


class Decide(_Base):
    name = "decide"
    encoded = ["whatshap.cli.genotype.determine_genotype", "int_to_diploid_biallelic_gt"]
    required_cover = ["0/0 called", "0/1 called", "1/1 called", "./. because of a tie for the maximum", "./. because the maximum does not exceed the threshold", "maximum equals the threshold"]

    def bounds(self, tier):
        return "one likelihood triple (symbolic k/1024 each, no constraint on the sum) and one threshold (symbolic t/2048): all order types and tie patterns"

    def harness(self, e, shape, impl):
        l = [_lik(e, "k%d" % i) for i in range(3)]
        t = e.int("t", 0, 2 * G)
        thr = t / (2 * G)
        pl = impl.core.PhredGenotypeLikelihoods(list(l))
        res = impl.genotype.determine_genotype(pl, thr)
        got = _as_multiset(res.as_vector())
        e.out("GT", list(got))
        ctx = lambda: dict(l=e.value(l), threshold=e.value(thr), got=got)
        if got in GT_OF_INDEX.values():
            e.cover("%d/%d called" % got)
        else:
            m = l[0]
            tie = False
            for i in range(3):
                top = True
                for j in range(3):
                    if l[j] > l[i]:
                        top = False
                if top:
                    for j in range(3):
                        if j != i and l[j] == l[i]:
                            tie = True
                    if l[i] == thr:
                        e.cover("maximum equals the threshold")
                    if not tie and not (l[i] > thr):
                        e.cover("./. because the maximum does not exceed the threshold")
            if tie:
                e.cover("./. because of a tie for the maximum")
        _decision_oracle(e, l, thr, got, ctx)


def _inspect_call(e, call, l, gt_expected, ctx, tag):
    """GL / GQ terms of one genotyped call against the definition.
    l: the three likelihoods; gt_expected: sorted allele tuple the call must carry."""
    got = _as_multiset(call["GT"])
    e.out(tag + ".GT", list(got))
    e.check(got == gt_expected, "the GT written differs from the genotype determined for the call", ctx)
    gl = call["GL"]
    e.check(len(gl) == 3, "GL does not have one value per genotype", ctx)
    for i in range(3):
        term = gl[i]
        if isinstance(term, LogTerm):
            e.check(term.factor == 1, "GL value is not a plain log10", ctx)
            e.check(term.arg == l[i], "GL[%d] is not log10 of the likelihood of genotype %s" % (i, GT_OF_INDEX[i]), ctx)
            e.out(tag + ".GL%d" % i, term.arg * G)
        else:
            # no logarithm taken: legitimate only for a likelihood of zero (log10 undefined; the sentinel's value is not part of the statement)
            e.check(l[i] == 0, "GL[%d] carries a constant although the likelihood of genotype %s is positive" % (i, GT_OF_INDEX[i]), ctx)
            e.out(tag + ".GL%d" % i, "const")
    gq = call["GQ"]
    if got == ():
        e.out(tag + ".GQ", "none" if gq is None else "set")
        return
    idx = [i for i in range(3) if GT_OF_INDEX[i] == got][0]
    others = [l[j] for j in range(3) if j != idx]
    mass = others[0] + others[1]
    if isinstance(gq, RoundTerm):
        e.check(gq.inner.factor == -10, "GQ is not phred-scaled (-10*log10)", ctx)
        e.check(gq.inner.arg == mass, "GQ is not computed from the mass of the genotypes other than GT", ctx)
        e.out(tag + ".GQ", gq.inner.arg * G)
        e.cover("GQ from the mass of the other genotypes")
    else:
        # a constant: legitimate only when the other genotypes have no mass at all (phred of 0 is unbounded)
        e.check(gq is not None, "a called genotype has no GQ", ctx)
        e.check(mass == 0, "GQ is a constant although the other genotypes have positive mass", ctx)
        e.out(tag + ".GQ", "cap")
        e.cover("other genotypes have no mass")


class Writer(_Base):
    name = "writer"
    encoded = ["whatshap.vcf.GenotypeVcfWriter.write_genotypes", "VariantTable.add_variant/genotype_likelihoods_of/genotypes_of/set_*", "core_model.Genotype.get_index"]
    required_cover = ["GQ from the mass of the other genotypes", "other genotypes have no mass", "position not genotyped", "position not accessible", "a likelihood of zero", "second sample differs from the first", "stale FORMAT key removed"]

    def shapes(self, tier):
        out = [dict(records=1, samples=1), dict(records=1, samples=2), dict(records=2, samples=1)]
        if tier == "thorough":
            out.append(dict(records=2, samples=2, lite=True))  # all four calls at once; positive likelihoods, no stale keys
        return out

    def bounds(self, tier):
        return "records x samples in %s (2x2 only with positive likelihoods and without stale keys); per call: position genotyped / not accessible (likelihoods None) / not in the table, an arbitrary given genotype out of ./., 0/0, 0/1, 1/1 (not necessarily the arg-max), three symbolic likelihoods k/1024, optional stale FORMAT key; a non-genotyped record may be tri-allelic" % [(s["records"], s["samples"]) for s in self.shapes(tier)]

    def harness(self, e, shape, impl):
        R, S = shape["records"], shape["samples"]
        samples = ["s%d" % i for i in range(S)]
        positions = [10 * (r + 1) for r in range(R)]
        kind = [e.choice("kind%d" % r, ["genotyped", "absent"]) for r in range(R)]
        in_table = [positions[r] for r in range(R) if kind[r] != "absent"]
        # the table lists its variants in position order, plus one the VCF chunk does not contain
        table = impl.table(samples, [5] + in_table)
        records, plan, stale = [], {}, {}
        for r in range(R):
            alts = ("C",) if kind[r] != "absent" else e.choice("alts%d" % r, [("C",), ("C", "G")])
            calls = {}
            for s in samples:
                c = FakeCall()
                c["GT"] = (0, 1)
                stale[(r, s)] = 0 if shape.get("lite") else e.bit("stale%d%s" % (r, s))
                if stale[(r, s)]:
                    c["DP"] = 7
                    c["PS"] = 11
                calls[s] = c
            records.append(FakeRecord(positions[r], alts, calls))
        for s in samples:
            gls = [None] * (1 + len(in_table))
            gts = [impl.core.Genotype([]) for _ in range(1 + len(in_table))]
            gls[0] = impl.core.PhredGenotypeLikelihoods([0.5, 0.25, 0.25])
            gts[0] = impl.core.Genotype([0, 0])
            for r in range(R):
                if kind[r] == "absent":
                    continue
                row = 1 + in_table.index(positions[r])
                if e.bit("accessible%d%s" % (r, s)):
                    l = [_lik(e, "k%d%s.%d" % (r, s, i)) for i in range(3)]
                    if shape.get("lite"):
                        for x in l:
                            e.assume(x > 0)
                    g = e.choice("gt%d%s" % (r, s), [(), (0, 0), (0, 1), (1, 1)])
                    gls[row] = impl.core.PhredGenotypeLikelihoods(list(l))
                    gts[row] = impl.core.Genotype(list(g))
                    plan[(r, s)] = (l, g)
                else:
                    e.cover("position not accessible")
            table.set_genotype_likelihoods_of(s, gls)
            table.set_genotypes_of(s, gts)
        w = impl.writer(records)
        w.write_genotypes("chr1", table, False)
        ctx = lambda: dict(kind=kind, plan={str(k): (e.value(v[0]), v[1]) for k, v in plan.items()}, calls=[{s: {k: repr(v) for k, v in c.items()} for s, c in rec.samples.items()} for rec in records])
        if S == 2 and R >= 1 and (0, "s0") in plan and (0, "s1") in plan:
            a, b = plan[(0, "s0")], plan[(0, "s1")]
            if a[1] != b[1]:
                e.cover("second sample differs from the first")
        for r in range(R):
            for s in samples:
                call = records[r].samples[s]
                tag = "r%d%s" % (r, s)
                e.out(tag + ".keys", sorted(call.keys()))
                if (r, s) in plan:
                    l, g = plan[(r, s)]
                    for i in range(3):
                        if l[i] == 0:
                            e.cover("a likelihood of zero")
                    _inspect_call(e, call, l, g, lambda: dict(ctx(), record=r, sample=s), tag)
                else:
                    if kind[r] == "absent":
                        e.cover("position not genotyped")
                    # not part of the statement ("each genotyped call"): observed for the replay only
                    e.out(tag + ".GT", list(call["GT"]))
                    e.out(tag + ".GQ", repr(call["GQ"]))
                    e.out(tag + ".nGL", len(call["GL"]))
                if stale[(r, s)] and set(call.keys()) <= {"GT", "GL", "GQ"}:
                    e.cover("stale FORMAT key removed")  # (FORMAT clean-up itself is C04/C13 territory)


class Pipe(_Base):
    name = "pipe"
    encoded = ["whatshap.cli.genotype.determine_genotype", "whatshap.vcf.GenotypeVcfWriter.write_genotypes", "VariantTable"]
    required_cover = ["GQ from the mass of the other genotypes", "0/0 called", "0/1 called", "1/1 called", "no call"]

    def bounds(self, tier):
        return "one record, one sample: determine_genotype(l, threshold) stored in a VariantTable the way run_genotype does, then write_genotypes; l symbolic k/1024 triple, threshold symbolic t/2048"

    def harness(self, e, shape, impl):
        l = [_lik(e, "k%d" % i) for i in range(3)]
        t = e.int("t", 0, 2 * G)
        thr = t / (2 * G)
        pl = impl.core.PhredGenotypeLikelihoods(list(l))
        geno = impl.genotype.determine_genotype(pl, thr)
        table = impl.table(["s0"], [10])
        table.set_genotype_likelihoods_of("s0", [pl])
        table.set_genotypes_of("s0", [geno])
        call = FakeCall()
        call["GT"] = (None, None)
        rec = FakeRecord(10, ("C",), {"s0": call})
        impl.writer([rec]).write_genotypes("chr1", table, False)
        got = _as_multiset(call["GT"])
        ctx = lambda: dict(l=e.value(l), threshold=e.value(thr), call={k: repr(v) for k, v in call.items()})
        e.cover("%d/%d called" % got if got else "no call")
        _decision_oracle(e, l, thr, got, ctx)
        _inspect_call(e, call, l, got, ctx, "call")


SUBCHECKS = {c.name: c for c in [Decide(), Writer(), Pipe()]}

if __name__ == "__main__":
    from vf import runner

    sys.exit(runner.main("checks.c08", sys.argv[1:]))
