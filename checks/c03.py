"""C03 - phase sets are exactly the read-connected components, named by the leftmost variant.

Sub-checks
  components  whatshap.cli.phase.compute_overall_components -> find_components -> graph.ComponentFinder, executed
              symbolically on solver-chosen read/variant incidence matrices with symbolic increasing positions;
              single sample, trio with genetic haplotyping (master block of homozygous positions) and trio with
              --no-genetic-haplotyping.  Oracle: reflexive-transitive closure of "covered by a common read",
              representative = minimum position, master block merges every component touching it.
  distrust    the same entry point with distrust_genotypes=True: heterozygous / homozygous sites re-determined from
              the super-reads (reading taken: a read links the positions at which its own sample is heterozygous
              after phasing; homozygous-after-phasing positions form the master block in pedigree mode).
  vcf_ps      end to end to the file: the component map computed by the code above is handed, together with
              heterozygous super-reads, to the REAL PhasedVcfWriter.write (pysam model / real pysam on replay);
              the PS (symbolic positions) or HP (concrete positions) values of the output are compared with the
              closure: same value iff connected, value = 1-based position of the leftmost variant.

Outside (modelled by vf/models/core_model.py, replayed on the compiled module): how the compiled ReadSet/Read
iterate.  Which reads are *selected* is C07; which positions are accessible follows phase.py:
accessible = positions covered by >= 1 selected read (+ homozygous positions under genetic haplotyping).
"""
from vf.runner import SubCheck
from vf.pysym.loader import SymWorld
from vf.models.vcfdoc import ScratchMixin

PROPERTY = "C03"
REAL_EXTS = ("core", "priorityqueue", "readselect", "align", "_variants")


def closure(n, groups):
    """groups: lists of indices that are pairwise connected; returns comp[i] = min index of i's class"""
    comp = list(range(n))
    for g in groups:
        g = list(g)
        for x in g[1:]:
            a, b = comp[g[0]], comp[x]
            if a != b:
                lo, hi = min(a, b), max(a, b)
                comp = [lo if c == hi else c for c in comp]
    return comp


def lookup(e, mapping, key):
    if not e.symbolic:
        return mapping[key]
    for k, v in mapping.items():
        if k is key:
            return v
    raise KeyError("position object not among the keys")


class SymImpl:
    def __init__(self, owner):
        self.o = owner
        self.core = owner.core_model
        self.phase_mod = owner.sym_phase
        from checks import c04

        self.writer = c04.SymPhase(owner)

    def readset(self, reads):
        rs = self.core.ReadSet()
        for name, sid, variants in reads:
            r = self.core.Read(name, 60, 0, sid)
            for p, a in variants:
                r.add_variant(p, a, 10)
            rs.add(r)
        return rs

    def components(self, accessible, reads, distrust, family, genetic, hom_positions, superreads):
        ids = self.core.NumericSampleIds()
        for s in family:
            ids[s]
        srl = [self.writer._readset(ids[s], superreads[s]) for s in family] if superreads is not None else []
        return self.phase_mod.compute_overall_components(accessible, self.readset(reads), distrust, family, genetic, hom_positions, ids, srl)

    def write(self, doc, shape, plan):
        return self.writer.phase(doc, shape, plan)


class RealImpl(SymImpl):
    def __init__(self, owner):
        self.o = owner
        self.core = owner.real_core
        self.phase_mod = owner.real_phase
        from checks import c04

        self.writer = c04.RealPhase(owner)


class _Base(ScratchMixin, SubCheck):
    sources = ["whatshap/cli/phase.py", "whatshap/graph.py", "whatshap/vcf.py"]
    stubs = [
        "whatshap.core Read/ReadSet/NumericSampleIds: vf/models/core_model.py (iteration order of reads and variants), every path replayed on the compiled module rebuilt from the working tree",
        "whatshap.readselect / whatshap.cli package / solver classes are not reached (stubs that raise)",
    ]
    replay_every = 1
    max_decisions = 20000

    def setup(self):
        import types
        from vf.models import pysam_model as pm, core_model, vcfdoc
        from vf.pysym.engine import Unsupported

        rsel = types.ModuleType("whatshap.readselect")

        def readselection(*a, **k):
            raise Unsupported("readselection is not part of this check")

        rsel.readselection = readselection
        self.pm, self.core_model = pm, core_model
        self.world = SymWorld(overrides={"pysam": pm, "pysam.libcbcf": pm, "whatshap.core": core_model, "whatshap.cli": vcfdoc.cli_stub(), "whatshap.readselect": rsel})
        self.sym_phase = self.world.load("whatshap.cli.phase")
        self.sym_vcf = self.world.load("whatshap.vcf")
        import logging

        self.sym_vcf.logger.setLevel(logging.CRITICAL)
        self.sym_phase.logger.setLevel(logging.CRITICAL)
        vcfdoc.ensure_real(REAL_EXTS)
        import whatshap.vcf as rv
        import whatshap.core as rc
        import whatshap.cli.phase as rp

        rv.logger.setLevel(logging.CRITICAL)
        rp.logger.setLevel(logging.CRITICAL)
        self.real_vcf, self.real_core, self.real_phase = rv, rc, rp

    def sym_impl(self):
        return SymImpl(self)

    def real_impl(self):
        return RealImpl(self)

    def classify(self, shape, v):
        return "%s:%s" % (self.name, v["msg"])

    # -- scenario ---------------------------------------------------------------------------------------------
    def scenario(self, e, shape, concrete_positions=False):
        n, nr, mode = shape["n"], shape["r"], shape["mode"]
        pos = []
        for i in range(n):
            if concrete_positions:
                p = shape.get("posbase", 9) + 10 * i
            else:
                p = e.int("pos%d" % i, 0, 2**31 - 3)
                if i:
                    e.assume(p > pos[-1])
            pos.append(p)
        family = ["s0"] if mode == "single" else ["s0", "s1", "s2"]
        # the first read's coverage comes from the shape (spreads one (n, r) over the cores), the rest is solver-chosen
        inc = [[(shape["first"] >> i & 1) if (r == 0 and "first" in shape) else e.bit("read%d.covers%d" % (r, i)) for i in range(n)] for r in range(nr)]
        reads = []
        for r in range(nr):
            reads.append(("read%d" % r, r % len(family), [(pos[i], (r + i) % 2) for i in range(n) if inc[r][i]]))
        covered = [i for i in range(n) if any(inc[r][i] for r in range(nr))]
        return pos, family, inc, reads, covered


class Components(_Base):
    name = "components"
    encoded = ["whatshap.cli.phase.compute_overall_components", "whatshap.cli.phase.find_components", "whatshap.graph.ComponentFinder.{__init__,merge,_find_node,find}"]
    assumptions = [
        "positions strictly increasing (sorted accessible positions, as phase.py builds them)",
        "accessible positions = positions covered by at least one read handed to find_components, plus - pedigree with genetic haplotyping - the homozygous positions (phase.py: accessible_positions)",
        "genotypes trusted",
    ]
    required_cover = ["two components", "interleaved components", "nested component", "read merges two existing components", "master block merges components", "homozygous position not covered by any read", "position without read"]

    def shapes(self, tier):
        from vf.models import vcfdoc

        vcfdoc.prebuild(REAL_EXTS)
        if tier == "quick":
            base = [("single", 4, 3), ("single", 5, 2), ("trio", 3, 3), ("trio", 4, 2), ("trio_nogen", 4, 2)]
        else:
            base = [("single", 4, 4), ("single", 5, 3), ("trio", 4, 3), ("trio", 5, 2), ("trio_nogen", 4, 3)]
        out = []
        for mode, n, r in base:
            # the first read's coverage pattern is enumerated here so that one (n, r) spreads over the cores
            for first in range(2**n):
                out.append(dict(mode=mode, n=n, r=r, first=first))
        return out

    def bounds(self, tier):
        sh = self.shapes(tier)
        return "every read/variant incidence matrix with (mode, variants, reads) in %s; positions symbolic, strictly increasing in [0, 2^31); trio: every subset of homozygous positions" % sorted(set((s["mode"], s["n"], s["r"]) for s in sh))

    def harness(self, e, shape, impl):
        from vf.models.vcfdoc import deq, Obligations

        n, nr, mode = shape["n"], shape["r"], shape["mode"]
        pos, family, inc, reads, covered = self.scenario(e, shape)
        genetic = mode == "trio"
        homs = []
        if mode != "single":
            homs = [i for i in range(n) if e.bit("homozygous%d" % i)]
        acc_idx = sorted(set(covered) | (set(homs) if genetic else set()))
        accessible = [pos[i] for i in acc_idx]
        hom_positions = [pos[i] for i in homs]
        info = lambda: dict(positions=e.value(pos), incidence=inc, homozygous=homs, mode=mode)
        try:
            comps = impl.components(accessible, reads, False, family, genetic, hom_positions, None)
        except Exception as ex:
            e.check(False, "compute_overall_components raised %s" % type(ex).__name__, info)
        # oracle ---------------------------------------------------------------------------------------------
        groups = [[i for i in range(n) if inc[r][i]] for r in range(nr)]
        if genetic:
            groups.append([i for i in homs])
        want = closure(n, groups)
        e.check(len(comps) == len(acc_idx), "component map does not cover exactly the accessible positions", info)
        ob = Obligations(e, info)
        got = {}
        for i in acc_idx:
            got[i] = lookup(e, comps, pos[i])
            ob.add(deq(got[i], pos[want[i]]), "component id is not the position of the leftmost variant of the read-connected component")
        ob.discharge()
        e.out("components", [got[i] for i in acc_idx])
        # coverage tags ----------------------------------------------------------------------------------------
        classes = {}
        for i in acc_idx:
            classes.setdefault(want[i], []).append(i)
        if len(classes) >= 2:
            e.cover("two components")
        cl = sorted(classes.values())
        for a in cl:
            for b in cl:
                if a is not b and len(a) >= 2 and len(b) >= 2:
                    if a[0] < b[0] < a[-1] < b[-1]:
                        e.cover("interleaved components")
                    if a[0] < b[0] and b[-1] < a[-1]:
                        e.cover("nested component")
        part = closure(n, groups[:1])
        for g in groups[1:nr]:
            if len(set(part[i] for i in g)) >= 2 and sum(1 for c in set(part[i] for i in g) if part.count(c) >= 2) >= 2:
                e.cover("read merges two existing components")
            part = closure(n, [[i for i in range(n) if part[i] == c] for c in set(part)] + [g])
        if genetic and len(set(closure(n, groups[:nr])[i] for i in homs)) >= 2:
            e.cover("master block merges components")
        if genetic and any(i not in covered for i in homs):
            e.cover("homozygous position not covered by any read")
        if len(covered) < n:
            e.cover("position without read")


class Distrust(_Base):
    name = "distrust"
    encoded = Components.encoded
    assumptions = Components.assumptions[:2] + [
        "distrust_genotypes=True: reading taken for the statement's 'chain of reads' - a read links the positions it covers at which its own sample is heterozygous in the super-reads; in pedigree mode with genetic haplotyping the positions homozygous in some sample's super-reads form the master block (this is phase.py's documented intent; the statement itself only speaks about trusted genotypes)",
        "super-reads cover every accessible position with alleles in {0,1} or the solver's EQUAL_SCORES code 3 for an undecided allele",
    ]
    required_cover = ["read covers a position that became homozygous", "two components", "master block merges components", "site with an undecided allele (EQUAL_SCORES)"]

    def shapes(self, tier):
        if tier == "quick":
            base = [("single", 3, 2), ("trio", 3, 2)]
        else:
            base = [("single", 4, 2), ("single", 3, 3), ("trio", 3, 3), ("trio_nogen", 3, 2)]
        return [dict(mode=m, n=n, r=r, first=f) for m, n, r in base for f in range(2**n)]

    def bounds(self, tier):
        return "incidence matrices as in `components` for %s, plus per (sample, accessible position) a solver-chosen heterozygous/homozygous super-read genotype" % sorted(set((s["mode"], s["n"], s["r"]) for s in self.shapes(tier)))

    def harness(self, e, shape, impl):
        from vf.models.vcfdoc import deq, Obligations

        n, nr, mode = shape["n"], shape["r"], shape["mode"]
        pos, family, inc, reads, covered = self.scenario(e, shape)
        genetic = mode == "trio"
        acc_idx = list(covered)
        accessible = [pos[i] for i in acc_idx]
        het = {s: {} for s in range(len(family))}
        tie = {s: {} for s in range(len(family))}
        superreads = {}
        for s, name in enumerate(family):
            tr = []
            for i in acc_idx:
                # "tie": the solver could not decide one (or both) of the alleles and reports EQUAL_SCORES (allele code 3) - such
                # a site is neither heterozygous nor homozygous after phasing: it links nothing and the writer leaves it unphased
                kind = e.choice("s%d.kind%d" % (s, i), ["het", "hom", "tie"] if mode == "single" else ["het", "hom"])
                h = 1 if kind == "het" else 0
                het[s][i] = h
                tie[s][i] = kind == "tie"
                if kind == "tie":
                    e.cover("site with an undecided allele (EQUAL_SCORES)")
                    tr.append((pos[i], 3, (s + i) % 2) if i % 2 else (pos[i], (s + i) % 2, 3))
                else:
                    # both heterozygous orientations and both homozygous genotypes occur
                    tr.append((pos[i], (s + i) % 2, 1 - (s + i) % 2) if h else (pos[i], i % 2, i % 2))
            superreads[name] = tr
        info = lambda: dict(positions=e.value(pos), incidence=inc, het=het, mode=mode)
        try:
            comps = impl.components(accessible, reads, True, family, genetic, [], superreads)
        except Exception as ex:
            e.check(False, "compute_overall_components raised %s" % type(ex).__name__, info)
        groups = []
        for r in range(nr):
            sid = r % len(family)
            g = [i for i in acc_idx if inc[r][i] and het[sid][i]]
            if any(inc[r][i] and not het[sid][i] for i in acc_idx):
                e.cover("read covers a position that became homozygous")
            groups.append(g)
        homs = [i for i in acc_idx if any(not het[s][i] and not tie[s][i] for s in range(len(family)))]
        if genetic and len(family) > 1:
            groups.append(homs)
        want = closure(n, groups)
        if len(set(want[i] for i in acc_idx)) >= 2:
            e.cover("two components")
        if genetic and len(set(closure(n, groups[:nr])[i] for i in homs)) >= 2:
            e.cover("master block merges components")
        e.check(len(comps) == len(acc_idx), "component map does not cover exactly the accessible positions", info)
        ob = Obligations(e, info)
        got = []
        for i in acc_idx:
            g = lookup(e, comps, pos[i])
            got.append(g)
            ob.add(deq(g, pos[want[i]]), "distrust mode: component id is not the leftmost position of the component linked through heterozygous sites")
        ob.discharge()
        e.out("components", got)


class VcfPS(_Base):
    name = "vcf_ps"
    encoded = Components.encoded + ["whatshap.vcf.PhasedVcfWriter.{write,_set_PS,_set_HP} (as in C04)"]
    assumptions = Components.assumptions + [
        "every variant is a heterozygous SNV (0/1) of the single sample; the super-reads assign alleles (0,1) at every accessible position (what the DP returns for trusted heterozygous sites)",
        "HP runs use concrete positions 10,20,.. (HP ids are formatted into strings); PS runs use symbolic positions",
    ]
    stubs = _Base.stubs + ["pysam: vf/models/pysam_model.py, output files compared with real pysam on every path"]
    required_cover = ["two phase sets in the output", "unphased record between phased ones", "interleaved components"]

    def shapes(self, tier):
        base = [("PS", 4, 3), ("HP", 4, 2), ("PS", 5, 2)] if tier == "quick" else [("PS", 4, 3), ("HP", 4, 3), ("PS", 5, 2), ("HP", 5, 2)]
        return [dict(mode="single", tag=t, n=n, r=r, first=f) for t, n, r in base for f in range(2**n)]

    def bounds(self, tier):
        return "single sample, (tag, variants, reads) in %s, every incidence matrix; PS: symbolic positions, HP: concrete positions" % sorted(set((s["tag"], s["n"], s["r"]) for s in self.shapes(tier)))

    def harness(self, e, shape, impl):
        from vf.models.vcfdoc import deq, Obligations, is_missing

        n, nr, tag = shape["n"], shape["r"], shape["tag"]
        pos, family, inc, reads, covered = self.scenario(e, shape, concrete_positions=(tag == "HP"))
        accessible = [pos[i] for i in covered]
        info = lambda: dict(positions=e.value(pos), incidence=inc, tag=tag)
        try:
            comps = impl.components(accessible, reads, False, family, True, [], None)
        except Exception as ex:
            e.check(False, "compute_overall_components raised %s" % type(ex).__name__, info)
        records = []
        for i in range(n):
            records.append(dict(chrom="chra", pos=pos[i] + 1, id=None, ref="A", alts=("C",), qual=None, filter=[], info={}, format=["GT"], calls=[{"GT": (0, 1), "phased": False}]))
        doc = dict(samples=["s0"], header=[("FORMAT", "GT", "1", "String"), ("contig", "chra")], records=records)
        plan = [("chra", True, {"s0": [(pos[i], 0, 1) for i in covered]}, {"s0": comps})]
        try:
            out = impl.write(doc, dict(tag=tag), plan)
        except Exception as ex:
            e.check(False, "PhasedVcfWriter raised %s" % type(ex).__name__, info)
        e.out("out", out)
        want = closure(n, [[i for i in range(n) if inc[r][i]] for r in range(nr)])
        ob = Obligations(e, info)
        values = {}
        for i, r in enumerate(out["records"]):
            c = r["calls"][0]
            if i in covered:
                if tag == "PS":
                    e.check(bool(c["phased"]) and "PS" in r["format"], "a variant covered by a selected read is not phased in the output", info)
                    values[i] = c["PS"]
                else:
                    e.check("HP" in r["format"] and not is_missing(c["HP"]), "a variant covered by a selected read has no HP value", info)
                    ids = set(int(x.split("-")[0]) for x in c["HP"])
                    e.check(len(ids) == 1, "HP entries of one call name different phase sets", info)
                    values[i] = ids.pop()
                ob.add(deq(values[i], pos[want[i]] + 1), "phase set id is not the 1-based position of the leftmost variant of the read-connected component")
            else:
                e.check(not (len(c["GT"]) >= 2 and c["phased"]) and (tag not in r["format"] or is_missing(c[tag])), "a variant not covered by any selected read carries phase information", info)
        for i in covered:
            for j in covered:
                if i < j:
                    same = deq(values[i], values[j])
                    ob.add(same if want[i] == want[j] else (~same if not isinstance(same, bool) else not same), "two phased variants share a phase set id although no chain of reads links them (or the converse)")
        ob.discharge()
        cls = set(want[i] for i in covered)
        if len(cls) >= 2:
            e.cover("two phase sets in the output")
        if any(i not in covered and any(a < i for a in covered) and any(b > i for b in covered) for i in range(n)):
            e.cover("unphased record between phased ones")
        groups = {}
        for i in covered:
            groups.setdefault(want[i], []).append(i)
        gl = list(groups.values())
        if any(a[0] < b[0] < a[-1] < b[-1] for a in gl for b in gl if len(a) > 1 and len(b) > 1):
            e.cover("interleaved components")


SUBCHECKS = {c.name: c for c in [Components(), Distrust(), VcfPS()]}

if __name__ == "__main__":
    import sys
    from vf import runner

    sys.exit(runner.main("checks.c03", sys.argv[1:]))
