"""C04 - the phased VCF is the input VCF plus phase information and nothing else.

Target: whatshap/vcf.py  PhasedVcfWriter.{__init__,setup_header,write,_remove_existing_phasing,_set_PS,_set_HP},
VcfAugmenter.{__init__,_record_modifier,_iterrecords}, missing_headers, augment_header, genotype_code -
executed symbolically against the pysam model and the core model; every path is replayed with the REAL
PhasedVcfWriter (real pysam, real compiled whatshap.core) on a materialised VCF and the parsed output
file is compared with the model's output.

Sub-checks (all the same harness, different shape families)
  record   one record, two samples (one or both are targets): every record kind x pre-existing phasing x
           genotype class x super-read placement
  dup      two records on one chromosome with solver-chosen equal / increasing positions
  chrom    records on two chromosomes, solver-chosen subset of selected chromosomes, missing contig lines

Reading of the statement (weaker reading where open)
  * "same records, identical CHROM..INFO": compared field by field on the parsed files.
  * "every FORMAT value other than the phase encoding unchanged": the input's FORMAT keys are still there in
    their order; the only keys that may be added are PS/HP; values of keys other than GT/PS/HP are equal.
  * "calls of samples or chromosomes that were not selected are untouched": every value the input had is
    identical (GT order and phased flag included); a key added by the run reads as missing there.
  * "allele multiset preserved unless genotypes are distrusted": asserted where the super-read genotype at
    that position equals the input genotype, or no super-read covers the call.
  * "only heterozygous calls of supported variant types are ever marked phased": a target call that this run
    marks (PS run: phased in the output, every older '|' having been removed by the run itself; HP run: an
    HP value different from the input's) is heterozygous in the output, its record has an ALT, one ALT unless
    multi-allelic variants were enabled, is an SNV under only_snvs, and at most one record per position gets
    marked.
  * header: every contig / INFO / FILTER / FORMAT id of the input header is defined in the output header and
    every other header line except `phasing=` is kept.
"""
from vf.runner import SubCheck
from vf.pysym.loader import SymWorld
from vf.models.vcfdoc import ScratchMixin

PROPERTY = "C04"

KINDS = {
    "snv": dict(ref="A", alts=("C",), gt=True),
    "indel": dict(ref="AT", alts=("A",), gt=True),
    "multi": dict(ref="A", alts=("C", "G"), gt=True),
    "multix": dict(ref="A", alts=("C", "GT"), gt=True),
    "noalt": dict(ref="A", alts=None, gt=True),
    "sym": dict(ref="A", alts=("<DEL>",), gt=True),
    "nogt": dict(ref="A", alts=("C",), gt=False),
}
GT_FULL = [(0, 1), (1, 0), (0, 0), (1, 1), (None, None), (0, None), (None, 1)]
GT_SMALL = [(0, 1), (1, 0), (1, 1), (None, None)]
GT_TINY = [(0, 1), (1, 1)]
GT_MULTI = [(1, 2), (2, 1), (0, 2), (2, 2)]
GT_ODD = [(1,), (0, 1, 1)]
TAG_DEF = {"PS": ("FORMAT", "PS", "1", "Integer"), "HP": ("FORMAT", "HP", ".", "String"), "PQ": ("FORMAT", "PQ", "1", "Float")}
OLD_HP = ("77-1", "77-2")


def is_snv_record(r):
    return len(r["ref"]) == 1 and all(len(a) == 1 for a in (r["alts"] or ()))


def reader_keeps(r, only_snvs, mav):
    """Which records VcfReader turns into variants (documented behaviour of the reader: no ALT, multi-ALT
    unless mav, non-SNV under only_snvs are skipped).  Used ONLY to place super-reads where `whatshap phase`
    can place them."""
    if not r["alts"]:
        return False
    if len(r["alts"]) > 1 and not mav:
        return False
    if only_snvs and not is_snv_record(r):
        return False
    return True


def build(e, shape):
    """Returns (doc, plan, meta).  plan = [(chrom, selected, {sample: [(pos0, a0, a1)]}, {sample: {pos0: comp}})]"""
    tag, only_snvs, mav = shape["tag"], shape.get("only_snvs", 0), shape.get("mav", 0)
    nsamp = shape["nsamp"]
    samples = ["s1", "s2"][:nsamp]
    targets = shape["targets"]
    kinds = shape["kinds"]
    chroms = shape.get("chroms", "a" * len(kinds))
    pres = shape.get("pre", ["none"] * len(kinds))
    symbolic_pos = tag == "PS"
    hv = shape["hv"] if "hv" in shape else e.bit("hv")
    gtset = shape.get("gtset", "full")
    records, groups = [], []  # groups: list of lists of record indices sharing chrom+pos
    used_tags = set()
    prev = None
    for i, kind in enumerate(kinds):
        K = KINDS[kind]
        chrom = "chr" + chroms[i]
        newchrom = i == 0 or chroms[i] != chroms[i - 1]
        dup = 0
        if not newchrom and shape.get("dups", True):
            dup = e.bit("r%d.dup" % i)
        if symbolic_pos:
            pos = e.int("r%d.pos" % i, 1, shape.get("maxpos", 1000000))
            if not newchrom:
                e.assume(pos == prev if dup else pos > prev)
        else:
            pos = shape.get("posbase", 10) if newchrom else (prev if dup else prev + 10)
        prev = pos
        if dup:
            groups[-1].append(i)
            e.cover("two records at one position")
        else:
            groups.append([i])
        pre = pres[i]
        rich = shape["rich"] if "rich" in shape else e.bit("r%d.rich" % i)
        fmt = (["GT"] if K["gt"] else []) + (["DP"] if rich or not K["gt"] else [])
        if pre != "none":
            fmt.append(pre)
            used_tags.add(pre)
            if pre == "PS" and rich:
                fmt.append("PQ")
                used_tags.add("PQ")
        calls = []
        for s in range(nsamp):
            c = {}
            if K["gt"]:
                nal = len(K["alts"] or ())
                if s in targets:
                    opts = list({"full": GT_FULL, "small": GT_SMALL, "tiny": GT_TINY}[gtset])
                    if nal > 1:
                        opts += GT_MULTI if gtset == "full" else GT_MULTI[:1]
                    if shape.get("odd"):
                        opts += GT_ODD
                    # well-formed: allele indices <= number of ALT alleles
                    opts = [g for g in opts if all(a is None or a <= nal for a in g)]
                    c["GT"] = e.choice("r%d.s%d.GT" % (i, s), opts)
                else:
                    # never read by the writer: symbolic alleles, no forks
                    if shape.get("nt_gt") is not None:
                        c["GT"] = tuple(min(a, nal) for a in shape["nt_gt"])
                    else:
                        a1missing = e.bit("r%d.s%d.a1missing" % (i, s)) if shape.get("nt_missing", len(kinds) == 1) else 0
                        c["GT"] = (e.int("r%d.s%d.a0" % (i, s), 0, nal), None if a1missing else e.int("r%d.s%d.a1" % (i, s), 0, nal))
                if len(c["GT"]) < 2:
                    c["phased"] = True
                elif shape.get("unphased_input") or (pre == "HP" and shape.get("one_encoding")):
                    c["phased"] = False  # (C09) a file that carries HP phase information has unphased GTs
                else:
                    c["phased"] = e.bool("r%d.s%d.phased" % (i, s))
            else:
                c["phased"] = False
            if "DP" in fmt:
                c["DP"] = e.int("r%d.s%d.DP" % (i, s), 0, 500)
            if pre != "none":
                has = 1 if shape.get("oldfix") else e.bit("r%d.s%d.oldvalue" % (i, s))
                if pre == "PS":
                    c["PS"] = e.int("r%d.s%d.oldPS" % (i, s), 1, shape.get("maxpos", 1000000)) if has else None
                    if "PQ" in fmt:
                        c["PQ"] = e.int("r%d.s%d.oldPQ" % (i, s), 0, 99) if has else None
                else:
                    c["HP"] = OLD_HP if has else (".",)
                if has:
                    e.cover("pre-existing %s value" % pre)
            calls.append(c)
        r = dict(chrom=chrom, pos=pos, ref=K["ref"], alts=K["alts"], format=fmt, calls=calls)
        if rich:
            r.update(id="rs%d" % i, qual=e.int("r%d.qual" % i, 0, 99), filter=["q10"], info={"DP": e.int("r%d.infoDP" % i, 0, 500)})
        else:
            r.update(id=None, qual=None, filter=[], info={})
        records.append(r)
    header = []
    if hv:
        # other free-form lines before and after `phasing=` (only that one may be dropped)
        header.append(("GENERIC", "source", "x"))
        header.append(("GENERIC", "phasing", "none"))
        header.append(("GENERIC", "reference", "r"))
    header += [("FILTER", "q10"), ("INFO", "DP", "1", "Integer"), ("FORMAT", "GT", "1", "String"), ("FORMAT", "DP", "1", "Integer")]
    for t in ("PS", "HP", "PQ"):
        if t in used_tags or (hv and t != "PQ"):
            d = TAG_DEF[t]
            if t == "HP" and shape.get("badhp") and "HP" not in used_tags:
                d = ("FORMAT", "HP", "1", "String")  # wrong Number: missing_headers() reports it, augment_header() re-defines it
            header.append(d)
    nocontig = shape.get("nocontig", "")
    for c in sorted(set(chroms)):
        if c not in nocontig:
            header.append(("contig", "chr" + c))
    doc = dict(samples=samples, header=header, records=records)

    # ---- the phasing result handed to write(): per chromosome, per target sample ------------------------------
    selected = shape.get("selected")
    plan = []
    order = []
    for c in chroms:
        if c not in order:
            order.append(c)
    sr_at = {}  # (record group index, sample) -> (a0, a1)
    comp_at = {}  # (record group index, sample) -> component id handed to write()
    for c in order:
        sel = (c in selected) if selected is not None else bool(e.bit("chr%s.selected" % c))
        if not sel:
            e.cover("chromosome not selected")
            plan.append(("chr" + c, False, {}, {}))
            continue
        srs = {samples[t]: [] for t in targets}
        comps = {samples[t]: {} for t in targets}
        reps = {samples[t]: [] for t in targets}  # positions that name a component so far
        for gi, g in enumerate(groups):
            if chroms[g[0]] != c:
                continue
            acc = [j for j in g if reader_keeps(records[j], only_snvs, mav)]
            if not acc:
                continue
            R = records[acc[0]]
            if "GT" not in R["format"]:
                continue
            for t in targets:
                gt = R["calls"][t]["GT"]
                if len(gt) != 2 or None in gt:
                    continue
                opts = ["absent", "same", "swap"]
                if shape.get("distrust"):
                    opts += ["d01", "d11", "d00"]
                if shape.get("eq"):
                    opts += ["eq"]
                o = e.choice("g%d.s%d.superread" % (gi, t), opts)
                if o == "absent":
                    continue
                al = {"same": (gt[0], gt[1]), "swap": (gt[1], gt[0]), "d01": (0, 1), "d11": (1, 1), "d00": (0, 0), "eq": (3, 3)}[o]
                pos0 = R["pos"] - 1
                srs[samples[t]].append((pos0, al[0], al[1]))
                # component id = leftmost position of a component: an earlier representative or the position itself
                earlier = reps[samples[t]]
                comp = e.choice("g%d.s%d.component" % (gi, t), list(range(len(earlier) + 1)))
                if comp == len(earlier):
                    earlier.append(pos0)
                comps[samples[t]][pos0] = earlier[comp]
                comp_at[(gi, t)] = earlier[comp]
                sr_at[(gi, t)] = al
        plan.append(("chr" + c, True, srs, comps))
    # Is there a record without an HP key in which write() has something to say (a super-read with decided
    # alleles covers a target call) but no target call ends up heterozygous?  (computed from the inputs only)
    all_unphased = False
    for gi, g in enumerate(groups):
        acc = [j for j in g if reader_keeps(records[j], only_snvs, mav)]
        sr_here = [al for (gj, t), al in sr_at.items() if gj == gi]
        decided = [al for al in sr_here if all(a in (0, 1) or (mav and a != 3) for a in al)]
        if acc and decided and "HP" not in records[acc[0]]["format"]:
            het_after = False
            for t in targets:
                al = sr_at.get((gi, t))
                if al is not None and al in decided:
                    het_after = het_after or al[0] != al[1]
            if not het_after:
                all_unphased = True
    accepted = {}
    for gi, g in enumerate(groups):
        acc = [j for j in g if reader_keeps(records[j], only_snvs, mav)]
        if acc:
            accepted[gi] = acc[0]
    meta = dict(groups=groups, sr_at=sr_at, targets=targets, tag=tag, only_snvs=only_snvs, mav=mav, all_unphased=all_unphased, nsamp=nsamp, accepted=accepted, comp_at=comp_at)
    return doc, plan, meta


# ---------------------------------------------------------------------------------------------------------------
def oracle(e, doc, plan, meta, out, info):
    from vf.models.vcfdoc import deq, multiset_eq, is_missing, Obligations

    tag = meta["tag"]
    ob = Obligations(e, info)
    # header
    ids_in = [(h[0], h[1]) for h in doc["header"] if h[0] != "GENERIC"]
    ids_out = set((h[0], h[1]) for h in out["header"] if h[0] != "GENERIC")
    for x in ids_in:
        e.check(x in ids_out, "header definition %s=%s of the input is no longer defined" % x, info)
    gen_out = [h for h in out["header"] if h[0] == "GENERIC"]
    for h in doc["header"]:
        if h[0] == "GENERIC" and h[1] != "phasing":
            e.check(tuple(h) in [tuple(x) for x in gen_out], "header line ##%s of the input was dropped" % h[1], info)
    e.check(out["samples"] == doc["samples"], "samples changed", info)
    e.check(len(out["records"]) == len(doc["records"]), "number of records changed", info)
    selected = {c: sel for c, sel, _, _ in plan}
    group_of = {}
    for gi, g in enumerate(meta["groups"]):
        for j in g:
            group_of[j] = gi
    marked = {}  # group -> records marked phased by this run
    for i, (r0, r1) in enumerate(zip(doc["records"], out["records"])):
        for f in ("chrom", "pos", "id", "ref", "alts", "qual", "filter", "info"):
            ob.add(deq(r0[f], r1[f]), "record field %s changed" % f)
        k0, k1 = r0["format"], r1["format"]
        e.check([k for k in k1 if k in k0] == k0, "FORMAT keys of the input were removed or reordered", info)
        e.check(all(k == tag for k in k1 if k not in k0), "a FORMAT key other than the phase tag was added", info)
        for s, (c0, c1) in enumerate(zip(r0["calls"], r1["calls"])):
            target = s in meta["targets"] and selected[r0["chrom"]]
            for k in k1:
                if k not in k0:
                    if not target:
                        ob.add(is_missing(c1[k]), "a sample/chromosome that was not selected received a %s value" % k)
                    continue
                if not target:
                    ob.add(deq(c0[k], c1[k]), "FORMAT value %s of a sample/chromosome that was not selected changed" % k)
                elif k not in ("GT", "PS", "HP"):
                    ob.add(deq(c0[k], c1[k]), "FORMAT value %s (not a phase encoding) of a target sample changed" % k)
            if "GT" in k0 and not target:
                ob.add(deq(c0["phased"], c1["phased"]), "phased flag of a sample/chromosome that was not selected changed")
            if "GT" in k0 and target:
                sr = meta["sr_at"].get((group_of[i], s))
                g0 = c0["GT"]
                trusted = sr is None or (len(g0) == 2 and None not in g0 and sorted(sr) == sorted(g0))
                if trusted:
                    ob.add(multiset_eq(c0["GT"], c1["GT"], range(3)), "allele multiset of a genotype changed although genotypes were not distrusted")
                g1 = c1["GT"]
                if tag == "PS":
                    mark = len(g1) >= 2 and c1["phased"]  # every older '|' is removed by the PS run itself
                else:
                    mark = "HP" in k1 and not is_missing(c1["HP"]) and not ("HP" in k0 and tuple(c0["HP"]) == tuple(c1["HP"]))
                if mark is not False:
                    # `mark` may be symbolic only through a phased flag that survived: decide it
                    if bool(mark):
                        e.cover("target call marked phased")
                        het = None not in g1 and len(set(g1)) > 1
                        e.check(het, "a call that is not heterozygous was marked phased", info)
                        e.check(bool(r0["alts"]), "a call of a record without ALT was marked phased", info)
                        e.check(len(r0["alts"]) == 1 or meta["mav"], "a call of a multi-ALT record was marked phased", info)
                        e.check(not meta["only_snvs"] or (len(r0["ref"]) == 1 and len(r0["alts"][0]) == 1), "a non-SNV call was marked phased under only_snvs", info)
                        marked.setdefault(group_of[i], set()).add(i)
    for gi, recs in marked.items():
        e.check(len(recs) <= 1, "two records at the same position were marked phased (duplicate position not skipped)", info)
    ob.discharge()


def cover_tags(e, doc, plan, meta, out):
    from vf.models.vcfdoc import is_missing

    tag = meta["tag"]
    for i, (r0, r1) in enumerate(zip(doc["records"], out["records"])):
        if not r0["alts"]:
            e.cover("record without ALT")
        for s, (c0, c1) in enumerate(zip(r0["calls"], r1["calls"])):
            if s in meta["targets"]:
                if "GT" in c0 and len(c0["GT"]) == 2 and None not in c0["GT"] and tuple(c1["GT"]) != tuple(c0["GT"]) and sorted(c1["GT"]) == sorted(c0["GT"]):
                    e.cover("GT order changed")
                if tag in r1["format"] and tag not in r0["format"] and is_missing(c1[tag]):
                    e.cover("unphased target call next to a phased one gets a missing tag")
            else:
                if tag in r1["format"] and tag not in r0["format"]:
                    e.cover("non-target sample in a record that gained the tag")
    if any(len(g) > 1 for g in meta["groups"]) and meta["sr_at"]:
        e.cover("super-read at a duplicated position")
    for (gi, s), al in meta["sr_at"].items():
        if al == (3, 3):
            e.cover("super-read with an undecided allele")
        if al[0] == al[1] and al[0] in (0, 1):
            e.cover("homozygous super-read")


class SymPhase:
    def __init__(self, owner):
        self.o = owner

    def _readset(self, sid, triples):
        cm = self.o.core_model
        rs = cm.ReadSet()
        reads = [cm.Read("superread_%d_%d" % (h, sid), -1, 0, sid) for h in (0, 1)]
        for pos0, a0, a1 in triples:
            reads[0].add_variant(pos0, a0, 0)
            reads[1].add_variant(pos0, a1, 0)
        for r in reads:
            rs.add(r)
        return rs

    def phase(self, doc, shape, plan):
        pm = self.o.pm
        pm.FS.clear()
        pm.FS["in.vcf"] = doc
        sink = pm.MemFile()
        V = self.o.sym_vcf
        w = V.PhasedVcfWriter("in.vcf", command_line=None, out_file=sink, tag=shape["tag"], only_snvs=bool(shape.get("only_snvs")), mav=bool(shape.get("mav")))
        try:
            for chrom, sel, srs, comps in plan:
                w.write(chrom, {s: self._readset(i, t) for i, (s, t) in enumerate(srs.items())}, comps)
        finally:
            w.close()
        if sink.doc.get("corrupt"):
            raise pm.CorruptOutput("NUL bytes in the written VCF")
        return sink.doc


class RealPhase:
    def __init__(self, owner):
        self.o = owner

    def _readset(self, sid, triples):
        from whatshap.core import Read, ReadSet

        rs = ReadSet()
        reads = [Read("superread_%d_%d" % (h, sid), -1, 0, sid) for h in (0, 1)]
        for pos0, a0, a1 in triples:
            reads[0].add_variant(pos0, a0, 0)
            reads[1].add_variant(pos0, a1, 0)
        for r in reads:
            rs.add(r)
        return rs

    def phase(self, doc, shape, plan):
        from vf.models import materialise

        path = materialise.write_vcf(doc, self.o.spath("in.vcf"))
        out = self.o.spath("out.vcf")
        V = self.o.real_vcf
        with open(out, "w") as fo:
            w = V.PhasedVcfWriter(path, command_line=None, out_file=fo, tag=shape["tag"], only_snvs=bool(shape.get("only_snvs")), mav=bool(shape.get("mav")))
            try:
                for chrom, sel, srs, comps in plan:
                    w.write(chrom, {s: self._readset(i, t) for i, (s, t) in enumerate(srs.items())}, comps)
            finally:
                w.close()
        return materialise.read_vcf(out)


class _Base(ScratchMixin, SubCheck):
    encoded = [
        "whatshap.vcf.PhasedVcfWriter.{__init__,setup_header,write,_remove_existing_phasing,_set_PS,_set_HP}",
        "whatshap.vcf.VcfAugmenter.{__init__,_record_modifier,_iterrecords,close}",
        "whatshap.vcf.missing_headers",
        "whatshap.vcf.augment_header",
        "whatshap.vcf.genotype_code",
    ]
    sources = ["whatshap/vcf.py"]
    assumptions = [
        "well-formed input VCF: FORMAT/INFO/FILTER keys used by records are defined in the header, GT first in FORMAT, records of one chromosome contiguous and sorted by position",
        "the phasing result handed to write() is one that `whatshap phase` can produce: for a target sample, super-reads/components only cover positions whose first record kept by VcfReader (has ALT, single ALT unless multi-allelic mode, SNV under only_snvs) carries a fully called diploid GT for that sample; component ids are positions of the same sample's component map; both super-reads of a sample cover the same positions",
        "trusted mode: the super-read genotype equals the input genotype (the shapes with distrust=1 lift this and the allele-multiset clause is then not asserted for changed genotypes)",
        "multi-allelic mode (mav) only without only_snvs (the two are never combined by `whatshap phase`, which never enables mav)",
        "no haploid phase sets (HS; polyphase only), command_line=None",
    ]
    stubs = [
        "pysam VariantFile/VariantHeader/VariantRecord/VariantRecordSample: vf/models/pysam_model.py, validated on every path against real pysam (output files parsed and compared)",
        "whatshap.core Read/ReadSet/Genotype: vf/models/core_model.py, validated on every path against the compiled module rebuilt from the working tree",
    ]
    replay_every = 1

    def setup(self):
        from vf.models import pysam_model as pm, core_model, vcfdoc

        self.pm, self.core_model = pm, core_model
        self.world = SymWorld(overrides={"pysam": pm, "pysam.libcbcf": pm, "whatshap.core": core_model, "whatshap.cli": vcfdoc.cli_stub()})
        self.sym_vcf = self.world.load("whatshap.vcf")
        import logging

        self.sym_vcf.logger.setLevel(logging.CRITICAL)
        vcfdoc.ensure_real()
        import whatshap.vcf as rv

        rv.logger.setLevel(logging.CRITICAL)
        self.real_vcf = rv

    def sym_impl(self):
        return SymPhase(self)

    def real_impl(self):
        return RealPhase(self)

    def harness(self, e, shape, impl):
        doc, plan, meta = build(e, shape)
        info = lambda: dict(input=e.value(doc), plan=e.value([list(p) for p in plan]), params={k: shape.get(k) for k in ("tag", "only_snvs", "mav", "targets")})
        try:
            out = impl.phase(doc, shape, plan)
        except Exception as ex:
            kind = "the written VCF cannot be parsed (NUL bytes)" if type(ex).__name__ in ("CorruptOutput", "OSError") else "PhasedVcfWriter raised %s" % type(ex).__name__
            trig = "a record without HP key whose target calls are all left unphased although a super-read covers them" if meta["all_unphased"] else "none identified"
            e.check(False, "%s; tag=%s; samples=%d; trigger: %s" % (kind, shape["tag"], meta["nsamp"], trig), info)
        e.out("out", out)
        cover_tags(e, doc, plan, meta, out)
        oracle(e, doc, plan, meta, out, info)

    def classify(self, shape, v):
        return "%s:%s" % (self.name, v["msg"])

    def bounds(self, tier):
        return "%d shapes; see shapes(): %s" % (len(self.shapes(tier)), self.__doc__.strip().split("\n")[0])


class Record(_Base):
    """one record x two samples: record kind, pre-existing phasing, target set, tag, only_snvs/mav enumerated; genotype class of target calls (7-11 classes), super-read placement (absent/same/swapped order [+distrusted genotypes, undecided allele]), component id, old tag values present or not, opaque fields, header variant solver-chosen; non-target alleles/phased flags/opaque numbers symbolic"""

    name = "record"
    required_cover = [
        "target call marked phased",
        "GT order changed",
        "record without ALT",
        "pre-existing PS value",
        "pre-existing HP value",
        "unphased target call next to a phased one gets a missing tag",
        "non-target sample in a record that gained the tag",
        "homozygous super-read",
        "super-read with an undecided allele",
    ]

    def shapes(self, tier):
        from vf.models import vcfdoc

        vcfdoc.prebuild()
        out = []
        modes = [(k, 0, 0) for k in ("snv", "indel", "multi", "noalt", "nogt")] + [("snv", 1, 0), ("indel", 1, 0), ("multi", 0, 1)]
        if tier != "quick":
            modes += [("sym", 0, 0), ("sym", 1, 0), ("multix", 0, 1), ("multi", 1, 0)]
        for tag in ("PS", "HP"):
            for kind, osnv, mav in modes:
                for pre in ("none", "PS", "HP"):
                    for targets in ([0], [1]):
                        out.append(dict(tag=tag, nsamp=2, targets=targets, kinds=[kind], pre=[pre], only_snvs=osnv, mav=mav, gtset="full", eq=1 if kind == "snv" else 0, odd=1 if tier != "quick" else 0))
                    if kind in ("snv", "multi") or tier != "quick":
                        out.append(dict(tag=tag, nsamp=2, targets=[0, 1], kinds=[kind], pre=[pre], only_snvs=osnv, mav=mav, gtset="small" if tier == "quick" else "full", rich=1, hv=1))
            # distrusted genotypes, a wrongly typed HP definition, single-sample files
            for pre in ("none", "PS", "HP"):
                out.append(dict(tag=tag, nsamp=2, targets=[0], kinds=["snv"], pre=[pre], distrust=1, gtset="small", rich=0))
                out.append(dict(tag=tag, nsamp=1, targets=[0], kinds=["snv"], pre=[pre], gtset="full", eq=1))
            out.append(dict(tag=tag, nsamp=2, targets=[1], kinds=["snv"], pre=["PS"], badhp=1, hv=1, gtset="small"))
        if tier == "quick":
            # opaque fields / header variant: enumerated round-robin over the shapes instead of solver-chosen
            for i, sh in enumerate(out):
                sh.setdefault("rich", i % 2)
                sh.setdefault("hv", (i // 2 + i // 7) % 2)
        return out


class Dup(_Base):
    """two (thorough: three) records on one chromosome, positions solver-chosen equal or increasing (symbolic for PS, concrete 10/20/30 for HP because HP ids are formatted), one target sample (+ one non-target), record kinds enumerated pairwise"""

    name = "dup"
    required_cover = ["two records at one position", "super-read at a duplicated position", "target call marked phased"]

    def shapes(self, tier):
        kinds = ["snv", "multi", "nogt", "indel", "noalt"]
        out = []
        for tag in ("PS", "HP"):
            for a in kinds:
                for b in kinds:
                    osnvs = [0, 1] if "indel" in (a, b) else [0]
                    for osnv in osnvs:
                        out.append(dict(tag=tag, nsamp=2, targets=[0], kinds=[a, b], pre=["none", "none"], only_snvs=osnv, gtset="small", rich=0, hv=0))
            out.append(dict(tag=tag, nsamp=1, targets=[0], kinds=["snv", "snv"], pre=[tag, tag], gtset="small", rich=0, hv=1))
            out.append(dict(tag=tag, nsamp=1, targets=[0], kinds=["snv", "snv"], pre=["PS", "HP"], gtset="small", rich=0, hv=1))
            out.append(dict(tag=tag, nsamp=2, targets=[0, 1], kinds=["snv", "snv"], pre=["none", "none"], gtset="tiny" if tier == "quick" else "small", rich=0, hv=0))
            if tier != "quick":
                for a in ("snv", "multi"):
                    for b in ("snv", "nogt"):
                        for c in ("snv", "indel"):
                            out.append(dict(tag=tag, nsamp=1, targets=[0], kinds=[a, b, c], pre=["none"] * 3, gtset="small", rich=0, hv=0))
        return out


class Chrom(_Base):
    """records on two chromosomes (layouts ab, aab, abb), every subset of selected chromosomes solver-chosen, contig lines present or missing from the header, one or two target samples"""

    name = "chrom"
    required_cover = ["chromosome not selected", "target call marked phased"]

    def shapes(self, tier):
        out = []
        for tag in ("PS", "HP"):
            for layout in ("ab", "aab", "abb"):
                for nocontig in ("", "b", "ab"):
                    out.append(dict(tag=tag, nsamp=2, targets=[0], kinds=["snv"] * len(layout), chroms=layout, pre=["none"] * len(layout), nocontig=nocontig, gtset="small" if len(layout) == 2 else "tiny", rich=0, hv=0, dups=False))
            out.append(dict(tag=tag, nsamp=2, targets=[0, 1], kinds=["snv", "snv"], chroms="ab", pre=[tag, tag], gtset="tiny" if tier == "quick" else "small", rich=1, hv=1, dups=False, oldfix=1))
        return out


SUBCHECKS = {c.name: c for c in [Record(), Dup(), Chrom()]}

if __name__ == "__main__":
    import sys
    from vf import runner

    sys.exit(runner.main("checks.c04", sys.argv[1:]))


# =====================================================================================================================
# run: run_whatshap as a whole over one VCF (real VcfReader -> ... -> real PhasedVcfWriter), see checks/phase_run.py
# =====================================================================================================================
from checks import phase_run as _pr


class Run(_pr.PhaseRun):
    """C04 on the whole command: every input record arrives in the output, in order, with its fixed fields; calls of
    samples / chromosomes that were not selected are untouched; FORMAT values other than the phase encoding are unchanged;
    genotypes keep their alleles unless distrusted; only heterozygous calls of usable variants are phased."""

    def filter_shapes(self, shapes):
        return [s for s in shapes if not s.get("ped")]

    def unreadable(self, e, sc, shape, info):
        e.check(False, "the written VCF cannot be parsed (NUL bytes); tag=HP; samples=2; whole run", info)

    def judge(self, e, sc, shape, out, lists, info):
        inp = sc.doc
        e.check(len(out["records"]) == len(inp["records"]), "the output VCF does not have the records of the input (%d in, %d out)" % (len(inp["records"]), len(out["records"])), info)
        targets, processed = self.targets(sc), self.processed(sc)
        for ri, ro in zip(inp["records"], out["records"]):
            for f in ("chrom", "pos", "id", "ref", "qual"):
                e.check(ri[f] == ro[f], "record field %s changed" % f, info)
            e.check(tuple(ri["alts"] or ()) == tuple(ro["alts"] or ()), "ALT changed", info)
            e.check(dict(ri["info"]) == dict(ro["info"]), "INFO changed", info)
            for si, s in enumerate(_pr.SAMPLES):
                ci, co = ri["calls"][si], ro["calls"][si]
                if s not in targets or ri["chrom"] not in processed:
                    same = all(self._v(ci.get(k)) == self._v(co.get(k)) for k in set(ci) | set(co))
                    e.check(same, "a call of a sample / chromosome that was not selected changed", lambda: dict(info(), record=(ri["chrom"], ri["pos"]), sample=s))
                    continue
                e.check(ci.get("DP") == co.get("DP"), "a FORMAT value other than the phase encoding changed", info)
                if not sc.distrust:
                    e.check(sorted(ci["GT"]) == sorted(co["GT"]), "genotype alleles changed although genotypes are trusted", lambda: dict(info(), record=(ri["chrom"], ri["pos"]), sample=s))
                if co.get("phased") and len(co["GT"]) > 1:
                    e.check(len(set(co["GT"])) > 1, "a homozygous call is marked phased", info)
                    e.check(sc.usable(ri), "a call of an unsupported variant (multi-ALT, or non-SNV under --only-snvs) is marked phased", lambda: dict(info(), record=(ri["chrom"], ri["pos"]), sample=s))

    @staticmethod
    def _v(v):
        if isinstance(v, list):
            v = tuple(v)
        if isinstance(v, tuple) and all(x in (None, ".") for x in v):
            return None
        return v


SUBCHECKS["run"] = Run()
