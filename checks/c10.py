"""C10 - haplotag conserves every alignment and tags it with the best-agreeing haplotype.

Sub-checks
  decide   prepare_haplotag_information -> attempt_add_phase_information executed symbolically (get_variant_information
           included): per read an independent computation of the per-phase-set score vectors decides what the tag has
           to be; plus the haplotype-swap symmetry (second run of the same code on the swapped table)
  linked   the same with two reads that may share a BX barcode (pooled clouds, distance cut-off, BX fall-back of
           attempt_add_phase_information)
  loop     run_haplotag's main loop under an AlignmentFile / VcfReader / PhasedInputReader stand-in: every fetched
           alignment is written exactly once, in input order, unchanged except HP/PS/PC; ignored and untagged records lose
           stale HP/PS/PC; ignore_read / --tag-supplementary; unmapped tail; --regions

Readings (DESIGN 3 rule 2)
  * "the haplotype whose phased alleles agree best (by summed allele quality) ... within the reported phase set":
    score[ps][h] = sum of the qualities of the read's variants of phase set ps whose observed allele equals the phased
    allele of haplotype h.  A tagged read must carry HP = 1 + the STRICT arg-max of score[PS].
  * which phase set is reported is not fixed by the statement; DESIGN 4 fixes it as "the one with the largest maximum".
    Asserted in that form, any phase set attaining the largest maximum being accepted (the code's tie order between
    phase sets is not part of the claim).
  * "ties and reads without phased heterozygous variants stay untagged" is read as an equivalence: a read is untagged
    iff it has no phased heterozygous variant or the top two scores of (one of) the best phase set(s) are equal.
  * symmetry is asserted for diploid tables: swapping the two haplotypes of phase set P maps HP 1<->2 for reads tagged
    with PS = P and leaves every other read's tags as they were.
  * conservation under --regions: the weaker reading "every alignment that overlaps at least one requested region is
    written exactly once, in input order" (alignments outside the regions are dropped by design of the option).
  * PC (the score difference) is reported through e.out and compared on replay, not asserted: the statement does not
    define it.
Outside the claim: real BAM/CRAM I/O (htslib), --output-threads, allele detection (C06), the PG header line.
"""
import contextlib
import io
import itertools
import os

from vf.runner import SubCheck
from vf.pysym.loader import SymWorld
from vf.decy.shims import sym_max

PROPERTY = "C10"

SAMPLE = "s"
CHROM = "chr1"
BLOCK_IDS = [11, 5]  # phase-set names (PS values); deliberately not in position order


class _Impl:
    def __init__(self, core, vcf, haplotag, make_aln, symbolic):
        self.core, self.vcf, self.haplotag, self.make_aln, self.symbolic = core, vcf, haplotag, make_aln, symbolic


def _load_impls(sub):
    from vf.models import core_model, haplotag_model as hm
    from vf import build

    sub.hm = hm
    sub.world = SymWorld(overrides={"whatshap.core": core_model, "whatshap.cli": hm.cli_stub()}, transformer=hm.strip_logging)
    ht = sub.world.load("whatshap.cli.haplotag")
    vcf = sub.world.load("whatshap.vcf")
    sub.sym = _Impl(core_model, vcf, ht, hm.make_sym_aln, True)
    import fcntl

    os.makedirs(build.CACHE, exist_ok=True)
    with open(os.path.join(build.CACHE, ".lock-c10"), "w") as lock:
        fcntl.flock(lock, fcntl.LOCK_EX)
        real = build.load_real(["core", "align", "_variants"])
        fcntl.flock(lock, fcntl.LOCK_UN)
    import whatshap.vcf
    import whatshap.cli.haplotag

    sub.real = _Impl(real["core"], whatshap.vcf, whatshap.cli.haplotag, hm.make_real_aln, False)


def _table(impl, positions, kinds, psidx, phases, ploidy):
    """VariantTable of one sample.  kinds[i]: 'het' (phased het), 'unph' (het, no phase), 'hom' (homozygous, unphased),
    'homph' (homozygous but carrying a phase entry, as HP-style VCFs can)."""
    vt = impl.vcf.VariantTable(CHROM, [SAMPLE])
    for i, pos in enumerate(positions):
        var = impl.vcf.BiallelicVcfVariant(pos, "A", "C")
        if kinds[i] in ("het", "unph"):
            gt = impl.core.Genotype(sorted(phases[i]))
        else:
            gt = impl.core.Genotype([1] * ploidy)
        ph = None
        if kinds[i] == "het":
            ph = impl.vcf.VariantCallPhase(block_id=BLOCK_IDS[psidx[i]], phase=tuple(phases[i]), quality=None)
        elif kinds[i] == "homph":
            ph = impl.vcf.VariantCallPhase(block_id=BLOCK_IDS[psidx[i]], phase=tuple([1] * ploidy), quality=None)
        vt.add_variant(var, [gt], [ph], [None], [None])
    return vt


def _het_triples(ploidy):
    return [t for t in itertools.product((0, 1), repeat=ploidy) if len(set(t)) > 1]


def _scores(read_vars, pos_info, ploidy):
    """independent oracle: {block_id: [score per haplotype]} over the read's phased heterozygous variants"""
    sc = {}
    for pos, allele, q in read_vars:
        if pos not in pos_info:
            continue
        ps, phase = pos_info[pos]
        vec = sc.setdefault(ps, [0] * ploidy)
        for h in range(ploidy):
            if phase[h] == allele:
                vec[h] = vec[h] + q
    return sc


def _judge(e, sc, got, ctx, who):
    """got: None (untagged) or (haplotype index, phase set)"""
    import z3
    from vf.pysym.engine import to_int_expr, SymBool

    def B(x):
        return x.e if isinstance(x, SymBool) else z3.BoolVal(bool(x))

    M = {ps: sym_max(vec) for ps, vec in sc.items()}
    if got is None:
        if not sc:
            e.cover("read without phased heterozygous variant stays untagged")
            return
        # untagged <=> some best phase set has its two top scores equal
        alts = []
        for ps, vec in sc.items():
            best = z3.And([B(M[ps] >= M[o]) for o in sc])
            ntop = sum((vec[h] == M[ps]) + 0 for h in range(len(vec)))
            alts.append(z3.And(best, B(ntop >= 2)))
        cond = z3.simplify(z3.Or(alts))
        e.check(SymBool(cond) if not z3.is_true(cond) and not z3.is_false(cond) else z3.is_true(cond),
                "%s: read left untagged although one haplotype agrees strictly best in its best phase set" % who, ctx)
        e.cover("tie stays untagged")
        return
    ht, ps = got
    e.check(bool(sc), "%s: read without any phased heterozygous variant was tagged" % who, ctx)
    e.check(ps in sc, "%s: reported phase set contains none of the read's variants" % who, ctx)
    vec = sc[ps]
    e.check(0 <= ht < len(vec), "%s: haplotype index out of range" % who, ctx)
    for h in range(len(vec)):
        if h != ht:
            e.check(vec[ht] > vec[h], "%s: tagged haplotype is not the strict best of the reported phase set" % who, ctx)
    for o in sc:
        e.check(M[ps] >= M[o], "%s: reported phase set is not one with the largest maximum score" % who, ctx)
    if len(sc) > 1:
        e.cover("read spans two phase sets")


class Decide(SubCheck):
    name = "decide"
    encoded = ["whatshap.cli.haplotag.prepare_haplotag_information", "get_variant_information", "attempt_add_phase_information", "whatshap.vcf.VariantTable (pure Python)"]
    sources = ["whatshap/cli/haplotag.py", "whatshap/vcf.py"]
    assumptions = [
        "the read set handed out by PhasedInputReader.read() holds, per read, alleles 0/1 at (a subset of) exactly the variants it was asked for (contract of ReadSetReader; allele detection itself is C06)",
        "allele qualities are integers >= 0",
    ]
    stubs = ["logger.debug/info/warning statements are removed from the symbolic encoding (their eager str.format would concretise symbolic qualities); the replay runs them", "vf/models/haplotag_model.py Reader (PhasedInputReader) and Aln (pysam.AlignedSegment; the replay uses real pysam.AlignedSegment objects)", "vf/models/core_model.py in place of compiled whatshap.core (replay uses the compiled classes)"]
    required_cover = [
        "tagged H1", "tagged H2", "tie stays untagged", "read without phased heterozygous variant stays untagged", "read spans two phase sets",
        "stale-free alignment gets HP/PS/PC", "swap changes HP", "swap leaves other phase set alone", "ploidy 3 tagged H3",
    ]
    max_decisions = 20000

    def shapes(self, tier):
        out = []
        vmax2 = 3 if tier == "quick" else 4
        for V in range(1, vmax2 + 1):
            for psidx in itertools.product((0, 1), repeat=V):
                if psidx[0] != 0:
                    continue
                for cover in itertools.product((0, 1), repeat=V):
                    if V >= 2 and sum(cover) == 0:
                        continue
                    out.append(dict(ploidy=2, V=V, psidx=list(psidx), cover=list(cover)))
        vmax3 = 2 if tier == "quick" else 3
        for V in range(1, vmax3 + 1):
            for psidx in itertools.product((0, 1), repeat=V):
                if psidx[0] != 0:
                    continue
                out.append(dict(ploidy=3, V=V, psidx=list(psidx), cover=[1] * V))
        return out

    def bounds(self, tier):
        return ("one read over V <= %d variants (ploidy 2) / V <= %d (ploidy 3) in <= 2 phase sets (every assignment of variants to phase sets, every covered subset); "
                "symbolic: phased alleles of every haplotype, observed allele and quality (0..4) of every covered variant, one variant (any for V <= 3, the middle one for V = 4) optionally unphased / homozygous / homozygous-with-phase-entry, "
                "which phase set is swapped" % ((3, 2) if tier == "quick" else (4, 3)))

    def setup(self):
        _load_impls(self)

    def sym_impl(self):
        return self.sym

    def real_impl(self):
        return self.real

    def _prepare(self, impl, vt, reads, ploidy, ignore_linked=True, cutoff=50000):
        rd = self.hm.Reader(impl.core, {SAMPLE: reads})
        bx, r2h, nmult = impl.haplotag.prepare_haplotag_information(vt, [SAMPLE], rd, [(0, None)], ignore_linked, cutoff, ploidy)
        return bx, r2h, nmult

    def harness(self, e, shape, impl):
        ploidy, V, psidx, cover = shape["ploidy"], shape["V"], shape["psidx"], shape["cover"]
        positions = [100 * (i + 1) for i in range(V)]
        triples = _het_triples(ploidy)
        phases = [list(e.choice("phase%d" % i, triples)) for i in range(V)]
        odd_at = range(V) if V <= 3 else [V // 2]
        odd = e.choice("odd", [None] + [(i, k) for i in odd_at for k in ("unph", "hom", "homph")])
        kinds = ["het"] * V
        if odd is not None:
            kinds[odd[0]] = odd[1]
        rvars = []
        for i in range(V):
            if cover[i]:
                rvars.append((positions[i], e.bit("a%d" % i), e.int("q%d" % i, 0, 4)))
        reads = [dict(name="r0", start=50, vars=rvars)]
        vt = _table(impl, positions, kinds, psidx, phases, ploidy)
        _, r2h, nmult = self._prepare(impl, vt, reads, ploidy)
        got = r2h.get("r0")
        e.out("assignment", None if got is None else [got[0], got[1], got[2]])
        e.out("n_multiple_phase_sets", nmult)
        # the reader only reports alleles at phased heterozygous variants
        pos_info = {positions[i]: (BLOCK_IDS[psidx[i]], phases[i]) for i in range(V) if kinds[i] == "het"}
        sc = _scores(rvars, pos_info, ploidy)
        ctx = lambda: dict(positions=positions, kinds=kinds, phase_set_of_variant=[BLOCK_IDS[p] for p in psidx], phases=phases,
                           read=[(p, a, e.value(q)) for p, a, q in rvars], assignment=None if got is None else [got[0], e.value(got[1]), got[2]])
        _judge(e, sc, None if got is None else (got[0], got[2]), ctx, "prepare_haplotag_information")
        if got is not None:
            e.cover({0: "tagged H1", 1: "tagged H2", 2: "ploidy 3 tagged H3"}[got[0]])

        # the alignment of that read: tags written by attempt_add_phase_information
        aln = impl.make_aln("r0", 0, 50, 10, {})
        is_tagged, hname, psname = impl.haplotag.attempt_add_phase_information(aln, r2h, {}, 50000, True)
        tags = dict(aln.get_tags())
        e.out("tags", sorted(tags.items()))
        e.out("names", [is_tagged, hname, psname])
        if got is None:
            e.check(is_tagged == 0 and not tags and hname == "none" and psname == "none", "untagged read: attempt_add_phase_information wrote tags", ctx)
        else:
            e.cover("stale-free alignment gets HP/PS/PC")
            e.check(is_tagged == 1 and tags.get("HP") == got[0] + 1, "HP tag is not haplotype index + 1", ctx)
            e.check(tags.get("PS") == got[2], "PS tag is not the phase set of the decision", ctx)
            e.check(hname == "H%d" % (got[0] + 1) and psname == got[2], "haplotag-list fields disagree with the tags", ctx)

        # symmetry (diploid): swap the haplotypes of one phase set
        if ploidy == 2:
            P = e.choice("swap", sorted(set(psidx)))
            phases2 = [list(reversed(phases[i])) if psidx[i] == P else phases[i] for i in range(V)]
            vt2 = _table(impl, positions, kinds, psidx, phases2, ploidy)
            _, r2h2, _ = self._prepare(impl, vt2, reads, ploidy)
            got2 = r2h2.get("r0")
            e.out("assignment_swapped", None if got2 is None else [got2[0], got2[1], got2[2]])
            ctx2 = lambda: dict(ctx(), swapped_phase_set=BLOCK_IDS[P], assignment_after_swap=None if got2 is None else [got2[0], e.value(got2[1]), got2[2]])
            if got is None:
                e.check(got2 is None, "swapping the haplotypes of a phase set tags a read that was untagged", ctx2)
            else:
                e.check(got2 is not None, "swapping the haplotypes of a phase set untags a read", ctx2)
                e.check(got2[2] == got[2], "swapping the haplotypes of a phase set moves a read to another phase set", ctx2)
                if got[2] == BLOCK_IDS[P]:
                    e.cover("swap changes HP")
                    e.check(got2[0] == 1 - got[0], "swapping the haplotypes of its phase set does not exchange HP 1 and 2", ctx2)
                else:
                    e.cover("swap leaves other phase set alone")
                    e.check(got2[0] == got[0], "swapping the haplotypes of another phase set changes HP", ctx2)

    def classify(self, shape, v):
        return "%s:%s" % (self.name, v["msg"])


class Linked(SubCheck):
    name = "linked"
    encoded = Decide.encoded
    sources = Decide.sources
    assumptions = Decide.assumptions + [
        "when the pooled reads of one barcode cloud touch two phase sets, the two maximum scores differ (with equal maxima the code's choice follows the "
        "iteration order of a Python set of Read objects, i.e. object addresses - a C16 matter, not asserted here)",
    ]
    stubs = Decide.stubs
    required_cover = ["cloud pooled", "same barcode but too far apart", "linked reads ignored", "pooled cloud of two informative reads tagged", "BX fall-back tags an alignment", "BX fall-back out of range"]
    max_decisions = 20000

    def shapes(self, tier):
        out = []
        for V in ((2,) if tier == "quick" else (2, 3)):
            for psidx in itertools.product((0, 1), repeat=V):
                if psidx[0] != 0:
                    continue
                subs = [c for c in itertools.product((0, 1), repeat=V) if sum(c) >= 1]
                for c0 in subs:
                    for c1 in subs:
                        if sum(c0) + sum(c1) > (4 if V == 2 else 3 if tier == "quick" else 4):
                            continue
                        out.append(dict(V=V, psidx=list(psidx), cover=[list(c0), list(c1)]))
        return out

    def bounds(self, tier):
        return ("two reads + one variant-free alignment, V %s diploid variants in <= 2 phase sets, every covered subset per read with at most %d covered variants in total; phased alleles 0|1; symbolic: observed alleles, qualities 0..3, "
                "barcodes (same / different / second read without / same with --ignore-linked-read), reference starts and the distance cut-off (0..6), order of the two reads" % (("= 2", 4) if tier == "quick" else ("<= 3", 4)))

    setup = Decide.setup
    sym_impl = Decide.sym_impl
    real_impl = Decide.real_impl
    _prepare = Decide._prepare

    def harness(self, e, shape, impl):
        V, psidx, cover = shape["V"], shape["psidx"], shape["cover"]
        positions = [100 * (i + 1) for i in range(V)]
        # the phased alleles are fixed here (0|1 everywhere): only agreement with the observed alleles matters and
        # `decide` varies them; what this sub-check varies is the cloud structure
        phases = [[0, 1] for i in range(V)]
        bxmode, ignore_linked = e.choice("mode", [("same", False), ("different", False), ("second none", False), ("same", True)])
        bxs = ["B1", {"same": "B1", "different": "B2", "second none": ""}[bxmode]]
        cutoff = e.int("cutoff", 0, 6)
        starts = [e.int("start%d" % r, 0, 6) for r in range(2)]
        rv = []
        for r in range(2):
            rv.append([(positions[i], e.bit("a%d_%d" % (r, i)), e.int("q%d_%d" % (r, i), 0, 3)) for i in range(V) if cover[r][i]])
        order = [0, 1] if not e.bit("second_first") else [1, 0]
        reads = [dict(name="r%d" % r, start=starts[r], bx=bxs[r], vars=rv[r]) for r in order]
        vt = _table(impl, positions, ["het"] * V, psidx, phases, 2)
        pos_info = {positions[i]: (BLOCK_IDS[psidx[i]], phases[i]) for i in range(V)}
        sc = [_scores(rv[r], pos_info, 2) for r in range(2)]
        d = starts[0] - starts[1]
        near = (d <= cutoff) & (-d <= cutoff)
        pooled = (not ignore_linked) and bxmode == "same" and bool(near)
        if pooled:
            both = {}
            for r in range(2):
                for ps, vec in sc[r].items():
                    cur = both.setdefault(ps, [0, 0])
                    both[ps] = [cur[0] + vec[0], cur[1] + vec[1]]
            if len(both) == 2:
                m = [sym_max(v) for v in both.values()]
                e.assume(m[0] != m[1])
            e.cover("cloud pooled")
        elif ignore_linked:
            e.cover("linked reads ignored")
        elif bxmode == "same":
            e.cover("same barcode but too far apart")
        bx, r2h, nmult = self._prepare(impl, vt, reads, 2, ignore_linked, cutoff)
        got = [r2h.get("r%d" % r) for r in range(2)]
        e.out("assignment", [None if g is None else [g[0], g[1], g[2]] for g in got])
        e.out("clouds", sorted((k, [list(x) for x in v]) for k, v in bx.items() if len(v)))
        ctx = lambda: dict(positions=positions, phase_set_of_variant=[BLOCK_IDS[p] for p in psidx], phases=phases, barcodes=bxs, starts=e.value(starts), cutoff=e.value(cutoff),
                           ignore_linked_read=ignore_linked, reads=[[(p, a, e.value(q)) for p, a, q in rv[r]] for r in range(2)], order=order,
                           assignment=[None if g is None else [g[0], e.value(g[1]), g[2]] for g in got])
        for r in range(2):
            _judge(e, both if pooled else sc[r], None if got[r] is None else (got[r][0], got[r][2]), ctx, "read r%d (%s)" % (r, "pooled barcode cloud" if pooled else "alone"))
        if pooled:
            e.check((got[0] is None) == (got[1] is None) and (got[0] is None or (got[0][0], got[0][2]) == (got[1][0], got[1][2])), "reads of one barcode cloud received different tags", ctx)
            if got[0] is not None and sc[0] and sc[1]:
                e.cover("pooled cloud of two informative reads tagged")
        # clouds recorded for the BX fall-back: every entry belongs to a tagged read with that barcode
        for tag, entries in bx.items():
            for st, ht, ps in entries:
                ok = False
                for r in range(2):
                    if bxs[r] == tag and got[r] is not None and got[r][0] == ht and got[r][2] == ps and bool(starts[r] == st):
                        ok = True
                e.check(ok and not ignore_linked, "barcode cloud entry does not belong to a tagged read of that barcode", ctx)
        # a variant-free alignment (not in the read set) carrying barcode B1 and stale tags
        xs = e.int("xstart", 0, 6)
        aln = impl.make_aln("x", 0, xs, 10, {"BX": "B1", "PC": 7})
        is_tagged, hname, psname = impl.haplotag.attempt_add_phase_information(aln, r2h, bx, cutoff, ignore_linked)
        tags = dict(aln.get_tags())
        e.out("fallback", [is_tagged, hname, psname, sorted(tags.items())])
        exp = None
        if not ignore_linked:
            for st, ht, ps in bx.get("B1", []):
                dd = st - xs
                if bool((dd <= cutoff) & (-dd <= cutoff)):
                    exp = (ht, ps)
                    break
        if exp is None:
            e.check(is_tagged == 0 and "HP" not in tags and "PS" not in tags, "alignment without own decision and without a barcode cloud in range was tagged", ctx)
            if not ignore_linked and bx.get("B1"):
                e.cover("BX fall-back out of range")
        else:
            e.cover("BX fall-back tags an alignment")
            e.check(is_tagged == 1 and tags.get("HP") == exp[0] + 1 and tags.get("PS") == exp[1], "BX fall-back: tags differ from the barcode cloud in range", ctx)
            e.check("PC" not in tags, "BX fall-back: stale PC tag kept", ctx)
            e.check(hname == "H%d" % (exp[0] + 1) and psname == exp[1], "BX fall-back: haplotag-list fields disagree with the tags", ctx)

    def classify(self, shape, v):
        return "%s:%s" % (self.name, v["msg"])


STALE = {"HP": 9, "PS": 99, "PC": 77}
ROLES = {  # role -> (read name, flag without the pairing bits)
    "P": ("rA", 0), "M": ("rA", 129), "S": ("rA", 2048), "X": ("rA", 256),
    "Q": ("rB", 16), "D": ("rD", 1024), "U": ("u", 4),
}


def _overlaps(span, region):
    s, e = span
    lo, hi = region
    return e > lo and (hi is None or s < hi)


class Loop(SubCheck):
    name = "loop"
    encoded = ["whatshap.cli.haplotag.run_haplotag", "ignore_read", "attempt_add_phase_information", "prepare_haplotag_information", "normalize_user_regions", "compute_shared_samples",
               "compute_variant_file_samples_to_use", "open_output_alignment_file", "open_haplotag_writer", "contigs_with_alignments", "load_chromosome_variants", "whatshap.utils.Region.parse"]
    sources = ["whatshap/cli/haplotag.py", "whatshap/utils.py", "whatshap/vcf.py"]
    assumptions = Decide.assumptions + ["one contig, one sample with a read group, records in coordinate order followed by the unplaced unmapped records (a sorted, indexed BAM)"]
    stubs = Decide.stubs + ["vf/models/haplotag_model.py BamIn/BamOut (pysam.AlignmentFile: fetch by region overlap, fetch('*'), write), VcfIn (VcfReader.fetch_regions), TextOut (xopen); md5_of is replaced by a constant. "
                            "The replay runs the real module's run_haplotag on real pysam.AlignedSegment records and compiled whatshap.core objects under the same file stand-ins; real BAM/VCF file I/O is outside"]
    required_cover = ["supplementary tagged like its primary", "supplementary left untagged", "secondary untagged", "placed unmapped untagged", "stale tags removed from an untagged record",
                      "tagged record", "regions given", "unmapped tail copied", "mates share the tag", "duplicate-flagged record tagged",
                      "contig holding only a placed unmapped record", "record starting on the first base of a later region"]
    max_decisions = 20000

    def shapes(self, tier):
        out = []
        others = "MSXQDU"
        two = ["chr1:1-125", "chr1:126-400"]
        # adjacent windows whose boundary falls on the first base of a record (records start at 100, 110, 120, ... 0-based)
        edge = ["chr1:1-120", "chr1:121-400"]
        plan = [(3, [None, ["chr1:1-125"], two, edge])] if tier == "quick" else [(3, [None, ["chr1:1-125"], two, edge, ["chr1:120-400", "chr1:1-130"], ["chr1:1-110", "chr1:111-120", "chr1:121-400"]]), (4, [None, two, edge])]
        for n, regs in plan:
            for ppos in range(n):
                for rest in itertools.product(others, repeat=n - 1):
                    roles = list(rest[:ppos]) + ["P"] + list(rest[ppos:])
                    for r in regs:
                        out.append(dict(roles="".join(roles), regions=r))
        # a second contig (listed in the BAM and VCF headers, no variant on it) that holds nothing but a placed unmapped
        # record - what the index statistics of a BAM count as "unmapped", not "mapped"
        for roles in (["PMS", "QPU", "XSP", "PUU"] if tier == "quick" else ["".join(r) for r in itertools.product("PMSXQU", repeat=3) if "P" in r]):
            out.append(dict(roles=roles, regions=None, chr2="V"))
        return out

    def bounds(self, tier):
        sh = self.shapes(tier)
        return ("%d scenarios: up to %d placed records (one primary of read rA at every index, the others out of second mate / supplementary / secondary of rA, primary of read rB, duplicate-flagged primary, placed unmapped) "
                "followed by one unplaced unmapped record; regions %s; symbolic: --tag-supplementary, stale HP/PS/PC on all records or none, observed alleles and qualities (0..3) of rA (2 variants) and rB (1 variant)"
                % (len(sh), max(len(s["roles"]) for s in sh), sorted(set(str(s["regions"]) for s in sh))))

    setup = Decide.setup
    sym_impl = Decide.sym_impl
    real_impl = Decide.real_impl

    def harness(self, e, shape, impl):
        hm = self.hm
        mod = impl.haplotag
        roles, regions = shape["roles"], shape["regions"]
        tag_supp = bool(e.bit("tag_supplementary"))
        stale = bool(e.bit("stale"))
        positions = [120, 130]
        phases = [[0, 1], [1, 0]]
        vt = _table(impl, positions, ["het", "het"], [0, 0], phases, 2)
        pos_info = {positions[i]: (BLOCK_IDS[0], phases[i]) for i in range(2)}
        rvars = {"rA": [(120, e.bit("aA0"), e.int("qA0", 0, 3)), (130, e.bit("aA1"), e.int("qA1", 0, 3))]}
        if "Q" in roles:
            rvars["rB"] = [(120, e.bit("aB0"), e.int("qB0", 0, 3))]
        if "D" in roles:
            rvars["rD"] = [(130, 0, 5)]
        reads = [dict(name=nm, start=100, vars=v) for nm, v in rvars.items()]
        # records: placed ones 10 apart, 20 long (the first ends before the region boundary at 125, the others span it), then the tail
        recs, spans = [], {}
        for i, role in enumerate(roles):
            nm, flag = ROLES[role]
            if role == "P" and "M" in roles:
                flag = 65
            tags = dict(XX="keep%d" % i)
            if stale:
                tags.update(STALE)
            a = impl.make_aln(nm, flag, 100 + 10 * i, 20, tags)
            recs.append(a)
            spans[id(a)] = (100 + 10 * i, 120 + 10 * i) if not flag & 4 else (100 + 10 * i, 101 + 10 * i)
        more_tables = []
        if shape.get("chr2"):
            e.cover("contig holding only a placed unmapped record")
            tags = dict(XX="onchr2")
            if stale:
                tags.update(STALE)
            v = impl.make_aln("v", 4, 50, 20, tags, 1)
            recs.append(v)
            spans[id(v)] = ("chr2", 50, 51)
            more_tables.append(impl.vcf.VariantTable("chr2", [SAMPLE]))
        tags = dict(XX="tail")
        if stale:
            tags.update(STALE)
        tail = impl.make_aln("t", 4, -1, 20, tags)
        recs.append(tail)
        spans[id(tail)] = None
        before = [hm.snap(a) for a in recs]
        header = {"HD": {"VN": "1.6", "SO": "coordinate"}, "SQ": [{"SN": CHROM, "LN": 100000}] + ([{"SN": "chr2", "LN": 100000}] if shape.get("chr2") else []), "RG": [{"ID": "g", "SM": SAMPLE}]}
        bam_in = hm.BamIn(recs, header, lambda a: spans[id(a)])
        bam_out, text_out = hm.BamOut(), hm.TextOut()

        class _Pysam:
            class AlignmentHeader:
                from_dict = staticmethod(lambda d: d)

            @staticmethod
            def AlignmentFile(path, *a, **kw):
                return bam_out if ("header" in kw or str(kw.get("mode", "r")).startswith("w")) else bam_in

        mod.pysam = _Pysam
        mod.VcfReader = lambda *a, **k: hm.VcfIn([SAMPLE], vt, mod.VcfInvalidChromosome, more_tables)
        mod.PhasedInputReader = lambda *a, **k: hm.Reader(impl.core, {SAMPLE: reads})
        mod.md5_of = lambda path: "0" * 32
        mod.xopen = lambda path, mode="wt": text_out
        with contextlib.redirect_stdout(io.StringIO()):
            mod.run_haplotag(variant_file="in.vcf.gz", alignment_file="in.bam", output="out.bam", reference=False, regions=regions,
                             ignore_linked_read=True, haplotag_list="list.tsv", tag_supplementary=tag_supp)
        written = bam_out.written
        e.out("written", written)
        e.out("list", text_out.lines)
        ctx = lambda: dict(roles=roles, regions=regions, tag_supplementary=tag_supp, stale_tags=stale, input=[b[:3] for b in before], written=e.value(written),
                           reads={k: [(p, a, e.value(q)) for p, a, q in v] for k, v in rvars.items()})
        if regions is not None:
            e.cover("regions given")
            starts0 = [int(r.split(":")[1].split("-")[0]) - 1 for r in regions]
            if any(spans[id(a)] is not None and len(spans[id(a)]) == 2 and spans[id(a)][0] in starts0[1:] for a in recs):
                e.cover("record starting on the first base of a later region")
        key = lambda rec: (rec[0], rec[1], rec[2])
        by_key = {key(b): b for b in before}
        strip = lambda tags: [(k, v) for k, v in tags if k not in ("HP", "PS", "PC")]
        sc = {nm: _scores(v, pos_info, 2) for nm, v in rvars.items()}
        tail_key = key(before[-1])
        # 1. every written record is an input record, identical except HP/PS/PC, and carries the right tags
        for w in written:
            e.check(key(w) in by_key, "output contains a record that is not in the input", ctx)
            b = by_key[key(w)]
            e.check(strip(w[3]) == strip(b[3]), "a tag other than HP/PS/PC was changed", ctx)
            if key(w) == tail_key:
                continue
            t = dict(w[3])
            flag = w[1]
            taggable = not (flag & 4) and not (flag & 256) and (not (flag & 2048) or tag_supp)
            e.check(("HP" in t) == ("PS" in t), "HP and PS tags not set together", ctx)
            if not taggable:
                e.check("HP" not in t and "PS" not in t and "PC" not in t,
                        "%s record carries HP/PS/PC in the output" % ("unmapped" if flag & 4 else "secondary" if flag & 256 else "supplementary (without --tag-supplementary)"), ctx)
                e.cover("placed unmapped untagged" if flag & 4 else "secondary untagged" if flag & 256 else "supplementary left untagged")
                if stale:
                    e.cover("stale tags removed from an untagged record")
                continue
            got = (t["HP"] - 1, t["PS"]) if "HP" in t else None
            _judge(e, sc[w[0]], got, ctx, "record %s flag %d" % (w[0], flag))
            if got is None:
                e.check("PC" not in t, "untagged record keeps a stale PC tag", ctx)
                if stale:
                    e.cover("stale tags removed from an untagged record")
            else:
                e.cover("tagged record")
                if flag & 2048:
                    e.cover("supplementary tagged like its primary")
                if flag & 1024:
                    e.cover("duplicate-flagged record tagged")
                if flag & 128:
                    e.cover("mates share the tag")
        # records of one read name that are tagged at all carry the same tag
        for nm in rvars:
            tg = set((dict(w[3])["HP"], dict(w[3])["PS"]) for w in written if w[0] == nm and "HP" in dict(w[3]))
            e.check(len(tg) <= 1, "records of one read carry different haplotype tags", ctx)
        # 2. conservation: exactly once, in input order
        if regions is None:
            expect = [key(b) for b in before]
        else:
            rr = []
            for spec in regions:
                lo, hi = spec.split(":")[1].split("-")
                rr.append((int(lo) - 1, int(hi)))
            expect = [key(b) for b, a in zip(before, recs) if spans[id(a)] is not None and any(_overlaps(spans[id(a)], r) for r in rr)]
        got_keys = [key(w) for w in written]
        dup = sorted(set(k for k in got_keys if got_keys.count(k) > 1))
        e.check(not dup, "an alignment is written more than once", lambda: dict(ctx(), duplicated=dup, regions_overlapping_it=[r for r in (regions or [])]))
        missing = [k for k in expect if k not in got_keys]
        e.check(not missing, "an input alignment is missing from the output", lambda: dict(ctx(), missing=missing))
        e.check(got_keys == expect, "output order differs from input order (or records outside the requested regions were written)", ctx)
        # 3. the unplaced unmapped tail
        if regions is None:
            e.cover("unmapped tail copied")
            for w in written:
                if key(w) == tail_key:
                    t = dict(w[3])
                    e.check("HP" not in t and "PS" not in t and "PC" not in t, "unplaced unmapped record keeps stale HP/PS/PC in the output", ctx)
        # 4. haplotag list: one line per primary record of the main loop, agreeing with the tags
        lines = [l.split("\t") for l in text_out.lines]
        e.check(lines and lines[0] == ["#readname", "haplotype", "phaseset", "chromosome"], "haplotag list header missing", ctx)
        prim = [w for w in written if key(w) != tail_key and not (w[1] & 256) and not (w[1] & 2048)]
        e.check(len(lines) - 1 == len(prim), "haplotag list does not have one line per written primary record", ctx)
        for l, w in zip(lines[1:], prim):
            t = dict(w[3])
            want = [w[0], "H%d" % t["HP"] if "HP" in t else "none", str(t["PS"]) if "PS" in t else "none", "chr2" if w[0] == "v" else CHROM]
            e.check(l == want, "haplotag list line disagrees with the tags written to the BAM", lambda: dict(ctx(), line=l, expected=want))

    def classify(self, shape, v):
        info = v.get("info") or {}
        msg = v["msg"]
        if msg.startswith("an alignment is written more than once"):
            n = len(shape["regions"] or [])
            return "loop:written more than once:regions=%d" % n
        return "loop:%s" % msg


SUBCHECKS = {c.name: c for c in [Decide(), Linked(), Loop()]}

if __name__ == "__main__":
    import sys
    from vf import runner

    sys.exit(runner.main("checks.c10", sys.argv[1:]))
