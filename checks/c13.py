"""C13 - `whatshap unphase` accepts every VCF, removes all phase information and nothing else.

Sub-checks
  unphase      run_unphase()/unphase_header() executed symbolically against the pysam model,
               applied twice (idempotence); every path replayed through the REAL
               whatshap.cli.unphase.run_unphase on a materialised VCF with real pysam.
  after_phase  unphase(phase(x)) has the same records as unphase(x), with phase() = the real
               PhasedVcfWriter.write of whatshap/vcf.py (both tags) on solver-chosen phasings.

Reading of the statement (weaker reading where open):
  * "no phased genotype": no GT of ploidy >= 2 written with '|'.  A haploid GT has no separator
    at all (pysam nevertheless reports call.phased == True for it), so it does not count.
  * "no HP, PS or PQ value": no call carries a non-missing value under these keys.
  * "records, other fields unchanged": CHROM..INFO, the FORMAT keys other than HP/PS/PQ in their
    order, every other FORMAT value; for GT only the allele multiset (the statement says so).
  * header definitions are not part of the statement; they are only compared model-vs-real.
"""
from vf.runner import SubCheck
from vf.pysym.loader import SymWorld
from vf.models.vcfdoc import ScratchMixin

PROPERTY = "C13"
TAGS = ("HP", "PS", "PQ")
TAG_OPTS = [(), ("PS",), ("HP", "PQ"), ("PS", "HP", "PQ")]
TAG_DEF = {"PS": ("FORMAT", "PS", "1", "Integer"), "HP": ("FORMAT", "HP", ".", "String"), "PQ": ("FORMAT", "PQ", "1", "Float")}
NALT = 2
WIDE_ALLELES = [1, 15, 16, 17]
WIDE_ALTS = tuple("C" + "ACGT"[k % 4] * (1 + k // 4) for k in range(17))  # 17 distinct ALT alleles


def build_doc(e, shape):
    """The input VCF: structure by e.choice/e.bit, numbers symbolic."""
    recs = shape["records"]  # per record: None (no GT in FORMAT) or [ploidy per sample]
    nsamp = shape["nsamp"]
    samples = ["s1", "s2"][:nsamp]
    hv = shape["hv"] if "hv" in shape else e.bit("hv")
    used = set()
    records = []
    prev = None
    for i, pl in enumerate(recs):
        tags = TAG_OPTS[shape["tags"][i]] if "tags" in shape else e.choice("r%d.tags" % i, TAG_OPTS)
        rich = shape["rich"] if "rich" in shape else e.choice("r%d.rich" % i, [0, 1, 2])
        used.update(tags)
        pos = e.int("r%d.pos" % i, 1, 100000)
        if prev is not None:
            e.assume(pos >= prev)
        prev = pos
        fmt = []
        if pl is not None:
            fmt.append("GT")
        if rich == 1:
            fmt.append("DP")
        fmt += list(tags)
        if rich == 2:
            fmt.append("DP")
        calls = []
        for s in range(nsamp):
            c = {}
            if pl is not None:
                p = pl[s]
                gt = []
                if shape.get("wide"):
                    # genotypes at the limits of whatshap.core.Genotype (allele index 16, ploidy 15 raise there): unphase must
                    # not depend on them - a VCF may list any number of ALT alleles and any ploidy
                    big = e.choice("r%d.s%d.big" % (i, s), WIDE_ALLELES)
                    gt = [big] + [0] * (p - 1) if e.bit("r%d.s%d.bigfirst" % (i, s)) else [0] * (p - 1) + [big]
                    e.cover("allele index >= 16" if big >= 16 else "allele index 15")
                    if p >= 15:
                        e.cover("ploidy >= 15")
                else:
                    for j in range(p):
                        if e.bit("r%d.s%d.a%d.missing" % (i, s, j)):
                            gt.append(None)
                        else:
                            gt.append(e.int("r%d.s%d.a%d" % (i, s, j), 0, NALT))
                c["GT"] = tuple(gt)
                c["phased"] = bool(e.bit("r%d.s%d.phased" % (i, s))) if p >= 2 else True
                if p == 1:
                    e.cover("haploid call")
                if p >= 3:
                    e.cover("polyploid call")
                if None in gt and any(a is not None for a in gt):
                    e.cover("partially missing GT")
                if all(a is None for a in gt):
                    e.cover("missing GT")
                if p >= 2 and c["phased"]:
                    e.cover("phased input call")
            else:
                c["phased"] = False
                e.cover("record without GT")
            if rich:
                c["DP"] = e.int("r%d.s%d.DP" % (i, s), 0, 500)
            if tags:
                novalue = e.bit("r%d.s%d.notagvalue" % (i, s))
                for t in tags:
                    if t == "PS":
                        c["PS"] = None if novalue else e.int("r%d.s%d.PS" % (i, s), 1, 2**31 - 2)
                    elif t == "HP":
                        c["HP"] = (".",) if novalue else ("7-1", "7-2")
                    elif t == "PQ":
                        c["PQ"] = None if novalue else e.int("r%d.s%d.PQ" % (i, s), 0, 99)
                if not novalue:
                    e.cover("HP/PS/PQ value present")
            calls.append(c)
        if pl is not None and nsamp == 2 and pl[0] != pl[1]:
            e.cover("two samples with different ploidy")
        r = dict(chrom="chr1", pos=pos, ref="A", alts=WIDE_ALTS if shape.get("wide") else ("C", "G"), format=fmt, calls=calls)
        if rich:
            r.update(id="rs%d" % i, qual=e.int("r%d.qual" % i, 0, 99), filter=["q10"] if rich == 1 else ["PASS"], info={"DP": e.int("r%d.infoDP" % i, 0, 500)})
        else:
            r.update(id=None, qual=None, filter=[], info={})
        records.append(r)
    header = []
    if hv:
        header.append(("GENERIC", "phasing", "partial"))
    header += [("FILTER", "q10"), ("INFO", "DP", "1", "Integer"), ("FORMAT", "GT", "1", "String"), ("FORMAT", "DP", "1", "Integer")]
    for t in ("PS", "HP", "PQ"):
        if hv or t in used:
            header.append(TAG_DEF[t])
    header.append(("contig", "chr1"))
    if hv:
        header.append(("GENERIC", "source", "x"))
    return dict(samples=samples, header=header, records=records)


def first_special_call(doc):
    """The first call (file order) outside the shape `diploid-or-longer GT with no missing
    allele after two called ones` - computed from the input only."""
    for i, r in enumerate(doc["records"]):
        if "GT" not in r["format"]:
            return "record without GT in FORMAT"
        for c in r["calls"]:
            gt = c["GT"]
            if len(gt) == 1 and gt[0] is not None:
                return "haploid GT with a called allele"
            if len(gt) >= 3 and gt[0] is not None and gt[1] is not None and None in gt[2:]:
                return "ploidy>=3 GT starting with two called alleles and a missing one later"
    return "no unusual call"


def oracle(e, doc, out1, out2, info):
    from vf.models.vcfdoc import deq, multiset_eq, is_missing, Obligations

    ob = Obligations(e, info)
    e.check(len(out1["records"]) == len(doc["records"]), "number of records changed", info)
    e.check(out1["samples"] == doc["samples"], "samples changed", info)
    for r0, r1 in zip(doc["records"], out1["records"]):
        for f in ("chrom", "pos", "id", "ref", "alts", "qual", "filter", "info"):
            ob.add(deq(r0[f], r1[f]), "record field %s changed" % f)
        keep = [k for k in r0["format"] if k not in TAGS]
        e.check([k for k in r1["format"] if k not in TAGS] == keep, "FORMAT keys other than HP/PS/PQ changed", info)
        for c0, c1 in zip(r0["calls"], r1["calls"]):
            for t in TAGS:
                if t in r1["format"]:
                    ob.add(is_missing(c1[t]), "output still carries a %s value" % t)
            if "GT" in r1["format"]:
                ob.add(not (len(c1["GT"]) >= 2 and c1["phased"]), "output still has a phased genotype")
            for k in keep:
                if k == "GT":
                    ob.add(multiset_eq(c0["GT"], c1["GT"], sorted(set(range(NALT + 1)) | set(WIDE_ALLELES))), "allele multiset of a genotype changed")
                else:
                    ob.add(deq(c0[k], c1[k]), "FORMAT value %s changed" % k)
    ob.add(deq(out2, out1), "second application changes the file (not idempotent)")
    ob.discharge()


class _Worlds:
    """symbolic and real implementation objects shared by the sub-checks"""

    def setup_worlds(self, need_vcf=False):
        from vf.models import pysam_model as pm, core_model, vcfdoc

        self.pm, self.core_model = pm, core_model
        self.world = SymWorld(overrides={"pysam": pm, "pysam.libcbcf": pm, "whatshap.core": core_model, "whatshap.cli": vcfdoc.cli_stub()})
        self.sym_unphase = self.world.load("whatshap.cli.unphase")
        self.sym_vcf = self.world.load("whatshap.vcf") if need_vcf else None
        vcfdoc.ensure_real()
        import whatshap.cli.unphase as ru

        self.real_unphase = ru
        if need_vcf:
            import logging
            import whatshap.vcf as rv

            self.real_vcf = rv
            rv.logger.setLevel(logging.CRITICAL)
            self.sym_vcf.logger.setLevel(logging.CRITICAL)


class SymUnphase:
    def __init__(self, owner):
        self.o = owner

    def unphase_chain(self, doc, n):
        pm = self.o.pm
        outs = []
        cur = doc
        for i in range(n):
            pm.FS.clear()
            pm.FS["in.vcf"] = cur
            sink = pm.MemFile()
            self.o.sym_unphase.run_unphase("in.vcf", sink)
            cur = sink.doc
            outs.append(cur)
        return outs


class RealUnphase:
    def __init__(self, owner):
        self.o = owner

    def unphase_chain(self, doc, n):
        from vf.models import materialise

        return self.unphase_path_chain(materialise.write_vcf(doc, self.o.spath("in.vcf")), n)

    def unphase_path_chain(self, cur, n, prefix="out"):
        from vf.models import materialise

        outs = []
        for i in range(n):
            out = self.o.spath("%s%d.vcf" % (prefix, i))
            with open(out, "w") as fo:
                self.o.real_unphase.run_unphase(cur, fo)
            outs.append(materialise.read_vcf(out))
            cur = out
        return outs


class Unphase(_Worlds, ScratchMixin, SubCheck):
    name = "unphase"
    encoded = ["whatshap.cli.unphase.run_unphase", "whatshap.cli.unphase.unphase_header"]
    sources = ["whatshap/cli/unphase.py"]
    assumptions = [
        "well-formed input: every FORMAT/INFO/FILTER key used by a record is defined in the header, GT (when present) is the first FORMAT key, allele indices <= number of ALT alleles",
        "every GT uses one separator throughout (all '/' or all '|')",
        "records sorted by position on one contig (not needed by unphase, conventional)",
    ]
    stubs = [
        "pysam.VariantFile/VariantHeader/VariantRecord/VariantRecordSample replaced by vf/models/pysam_model.py (behaviour of pysam 0.24.1 observed by probe); validated on every path by running the real run_unphase with real pysam on the materialised VCF and comparing the parsed output files (both applications)",
        "whatshap.cli package __init__ replaced by an empty stub (BAM/FASTA readers are not reached by unphase)",
    ]
    required_cover = [
        "allele index >= 16", "ploidy >= 15",
        "haploid call",
        "polyploid call",
        "partially missing GT",
        "missing GT",
        "record without GT",
        "phased input call",
        "HP/PS/PQ value present",
        "two samples with different ploidy",
        "second application compared",
        "GT re-ordered by unphase",
    ]
    replay_every = 1

    def shapes(self, tier):
        from vf.models import vcfdoc

        vcfdoc.prebuild()
        out = []
        # A: one record, one sample, every ploidy 0(no GT)..4, free tags / header variant / opaque fields
        for p in (None, 1, 2, 3, 4):
            out.append(dict(fam="A", nsamp=1, records=[None if p is None else [p]]))
        # B: one record, two samples, every pair of ploidies; tag layout enumerated in the shape
        maxp = 3 if tier == "quick" else 4
        for p in range(1, maxp + 1):
            for q in range(1, maxp + 1):
                if tier == "quick":
                    tagopts = (3,)
                elif p == 4 and q == 4:
                    continue  # ~25k GT paths alone; (4,x) and (x,4) pairs cover tetraploid calls next to every other ploidy
                elif 4 in (p, q):
                    tagopts = (0,)
                else:
                    tagopts = (0, 1, 2, 3)
                for t in tagopts:
                    out.append(dict(fam="B", nsamp=2, records=[[p, q]], tags=[t], rich=1, hv=1))
        if tier == "quick":
            out += [dict(fam="B", nsamp=2, records=[[4, 2]], tags=[3], rich=1, hv=1), dict(fam="B", nsamp=2, records=[[2, 4]], tags=[0], rich=0, hv=0)]
        out.append(dict(fam="B", nsamp=2, records=[None], rich=2))
        # W: genotypes beyond the limits of the phasing core (allele index >= 16, ploidy >= 15)
        for p in (2, 3, 14, 15, 16):
            out.append(dict(fam="W", nsamp=1, records=[[p]], wide=True, tags=[3], rich=0, hv=0))
        # C: two records, one sample (record-to-record independence, records without GT next to records with GT)
        for a in (None, 2):
            for b in (None, 2, 3):
                tagpairs = [(3, 0)] if (tier == "quick" and not (a == 2 and b == 2)) else [(3, 0), (0, 3), (1, 2)]
                for tp in tagpairs:
                    out.append(dict(fam="C", nsamp=1, records=[None if a is None else [a], None if b is None else [b]], tags=list(tp), rich=0, hv=1))
        if tier != "quick":
            for pa in ([2, 2], [1, 3]):
                for pb in ([2, 2], None, [2, 1]):
                    for t in (0, 3):
                        out.append(dict(fam="D", nsamp=2, records=[pa, pb], tags=[t, 3 - t], rich=1, hv=1))
            out.append(dict(fam="E", nsamp=1, records=[[2], [2], [2]], tags=[3, 0, 1], rich=0, hv=1))
        return out

    def bounds(self, tier):
        return (
            "%d shapes: <= %d records x <= 2 samples; per call GT absent from FORMAT or ploidy 1..4 with each allele missing or a symbolic int in [0,2], phased flag; "
            "per record a solver-chosen subset of {PS},{HP,PQ},{PS,HP,PQ} with/without values per call, optional opaque ID/QUAL/FILTER/INFO/FORMAT DP (symbolic ints); "
            "header with exactly the used tags or all three tags + a phasing= line; run_unphase applied twice"
            % (len(self.shapes(tier)), 2 if tier == "quick" else 3)
        )

    def setup(self):
        self.setup_worlds()

    def sym_impl(self):
        return SymUnphase(self)

    def real_impl(self):
        return RealUnphase(self)

    def harness(self, e, shape, impl):
        doc = build_doc(e, shape)
        special = first_special_call(doc)
        info = lambda: dict(input=e.value(doc), first_special_call=special)
        try:
            out1, out2 = impl.unphase_chain(doc, 2)
        except Exception as ex:
            e.check(False, "run_unphase raised %s; first unusual call of the input: %s" % (type(ex).__name__, special), info)
        e.out("out1", out1)
        e.out("out2", out2)
        e.cover("second application compared")
        for r0, r1 in zip(doc["records"], out1["records"]):
            for c0, c1 in zip(r0["calls"], r1["calls"]):
                if "GT" in c0 and len(c0["GT"]) >= 2 and None not in c0["GT"]:
                    # identity, not ==: the same proxy objects travel through the code (no fork for a cover tag)
                    if any(x is not y for x, y in zip(c0["GT"], c1["GT"])):
                        e.cover("GT re-ordered by unphase")
        oracle(e, doc, out1, out2, info)

    def classify(self, shape, v):
        return "unphase:%s" % v["msg"]


class SymAfter:
    def __init__(self, owner):
        from checks import c04

        self.ph, self.un = c04.SymPhase(owner), SymUnphase(owner)

    def both(self, doc, shape, plan):
        phased = self.ph.phase(doc, shape, plan)
        return self.un.unphase_chain(phased, 1)[0], self.un.unphase_chain(doc, 1)[0]


class RealAfter:
    def __init__(self, owner):
        from checks import c04

        self.o = owner
        self.ph, self.un = c04.RealPhase(owner), RealUnphase(owner)

    def both(self, doc, shape, plan):
        self.ph.phase(doc, shape, plan)  # writes <scratch>/out.vcf
        a = self.un.unphase_path_chain(self.o.spath("out.vcf"), 1, prefix="unphased_phased")[0]
        return a, self.un.unphase_chain(doc, 1)[0]


class AfterPhase(_Worlds, ScratchMixin, SubCheck):
    """unphase(phase(x)) has the same records as unphase(x); phase() = PhasedVcfWriter.write of whatshap/vcf.py on
    the scenarios of the C04 check (record kinds, pre-existing phasing, both tags, one or two target samples,
    duplicate positions), genotypes trusted."""

    name = "after_phase"
    encoded = Unphase.encoded + ["whatshap.vcf.PhasedVcfWriter.write (+ helpers, as in C04)"]
    sources = ["whatshap/cli/unphase.py", "whatshap/vcf.py"]
    assumptions = Unphase.assumptions + [
        "phase() is the writer of whatshap/vcf.py fed with a phasing result `whatshap phase` can produce, genotypes trusted (super-read genotype = input genotype); see C04 for the exact precondition",
        "inputs on which run_unphase itself fails (haploid / polyploid-with-missing / no GT: findings of sub-check `unphase`) and phasings whose HP output is not parseable (finding of C04) are excluded",
    ]
    stubs = Unphase.stubs + ["whatshap.core Read/ReadSet/Genotype: vf/models/core_model.py (replayed on the compiled module)"]
    required_cover = ["phase run changed the file", "GT order changed by phasing"]

    def shapes(self, tier):
        from vf.models import vcfdoc

        vcfdoc.prebuild()
        out = []
        for tag in ("PS", "HP"):
            for kind, mav in (("snv", 0), ("indel", 0), ("multi", 1)):
                for pre in ("none", "PS", "HP"):
                    out.append(dict(tag=tag, nsamp=2, targets=[0], kinds=[kind], pre=[pre], mav=mav, gtset="full", rich=1, hv=1))
            out.append(dict(tag=tag, nsamp=2, targets=[0, 1], kinds=["snv"], pre=["none"], gtset="small", rich=0, hv=0))
            out.append(dict(tag=tag, nsamp=1, targets=[0], kinds=["snv", "snv"], pre=["none", tag], gtset="small", rich=0, hv=0))
            if tier != "quick":
                out.append(dict(tag=tag, nsamp=2, targets=[0, 1], kinds=["snv", "multi"], pre=["PS", "HP"], mav=1, gtset="small", rich=0, hv=1, oldfix=1))
                out.append(dict(tag=tag, nsamp=1, targets=[0], kinds=["snv", "indel", "snv"], pre=["none"] * 3, gtset="small", rich=0, hv=0))
        return out

    def bounds(self, tier):
        return "%d shapes of the C04 scenario generator (1-2 records x 1-2 samples, tags PS/HP, pre-existing PS/HP, genotype classes incl. missing/partial, super-read placement and order solver-chosen)" % len(self.shapes(tier))

    def setup(self):
        self.setup_worlds(need_vcf=True)

    def sym_impl(self):
        return SymAfter(self)

    def real_impl(self):
        return RealAfter(self)

    def harness(self, e, shape, impl):
        from checks import c04
        from vf.models.vcfdoc import deq, Obligations

        doc, plan, meta = c04.build(e, shape)
        e.assume(not (shape["tag"] == "HP" and meta["all_unphased"] and meta["nsamp"] >= 2))
        info = lambda: dict(input=e.value(doc), plan=e.value([list(p) for p in plan]), tag=shape["tag"])
        try:
            a, b = impl.both(doc, shape, plan)
        except Exception as ex:
            e.check(False, "phase/unphase raised %s" % type(ex).__name__, info)
        e.out("unphase(phase(x))", a)
        e.out("unphase(x)", b)
        if meta["sr_at"]:
            e.cover("phase run changed the file")
        if any(al[0] != al[1] for al in meta["sr_at"].values()):
            e.cover("GT order changed by phasing")
        ob = Obligations(e, info)
        e.check(len(a["records"]) == len(b["records"]), "unphase(phase(x)) has a different number of records than unphase(x)", info)
        for i, (ra, rb) in enumerate(zip(a["records"], b["records"])):
            ob.add(deq(ra, rb), "record %d of unphase(phase(x)) differs from unphase(x)" % i)
        ob.discharge()

    def classify(self, shape, v):
        return "after_phase:%s" % v["msg"]


SUBCHECKS = {c.name: c for c in [Unphase(), AfterPhase()]}

if __name__ == "__main__":
    import sys
    from vf import runner

    sys.exit(runner.main("checks.c13", sys.argv[1:]))
