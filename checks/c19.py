"""C19 - genotype indexing is a bijection; edit distance is true Levenshtein distance.

This file holds part (b) (edit distance); the genotype-index sub-checks of
part (a) are added to SUBCHECKS by their own section.

Sub-checks (b)
  ed_full    align.edit_distance(s, t) / (s, t, -1) == Levenshtein distance
  ed_banded  align.edit_distance(s, t, e): exact distance if it is <= e, a value > e otherwise

The function is the DeCy translation of whatshap/align.pyx run under PySym; the
characters of both strings are symbolic.  The oracle is the textbook
full-matrix recurrence evaluated in the harness on the same symbolic
characters (no trimming, no single row, no band - nothing shared with the code
under test).  Every explored path is replayed on the compiled extension built
from the working tree with real bytes / str objects.
"""
import os

from vf.runner import SubCheck
from vf.pysym.loader import SymWorld

PROPERTY = "C19"

BASE = 65  # 'A'


def levenshtein(s, t, smin):
    """Textbook (m+1) x (n+1) matrix; s, t sequences of (symbolic) codes."""
    m, n = len(s), len(t)
    D = [[0] * (n + 1) for _ in range(m + 1)]
    for i in range(m + 1):
        D[i][0] = i
    for j in range(n + 1):
        D[0][j] = j
    for i in range(1, m + 1):
        for j in range(1, n + 1):
            same = s[i - 1] == t[j - 1]
            D[i][j] = smin(D[i - 1][j] + 1, D[i][j - 1] + 1, D[i - 1][j - 1] + 1 - same)
    return D[m][n]


class _SymImpl:
    """Calls the translated function with symbolic byte strings."""

    def __init__(self, mod):
        self.mod = mod
        from vf.decy import shims

        self.shims = shims

        class SymStr(str):
            """A str (so that the `.encode()` branch of edit_distance is taken)
            whose characters are symbolic codes."""

            def __new__(cls, codes):
                o = str.__new__(cls, "")
                o.codes = list(codes)
                return o

            def __len__(self):
                return len(self.codes)

            def encode(self, *a):
                return shims.SymBytes(self.codes)

        self.SymStr = SymStr

    def ed(self, kind, s, t, *maxdiff):
        mk = self.shims.SymBytes if kind == "bytes" else self.SymStr
        return self.mod.edit_distance(mk(s), mk(t), *maxdiff)


class _RealImpl:
    def __init__(self, mod):
        self.mod = mod

    def ed(self, kind, s, t, *maxdiff):
        if kind == "bytes":
            return self.mod.edit_distance(bytes(s), bytes(t), *maxdiff)
        return self.mod.edit_distance("".join(map(chr, s)), "".join(map(chr, t)), *maxdiff)


class _EDBase(SubCheck):
    sources = ["whatshap/align.pyx"]
    encoded = ["whatshap.align.edit_distance"]
    stubs = [
        "DeCy shims CharPtr/SymBytes/cvarray/sym_min (vf/decy/shims.py); translation validated on every run by the repo's tests/test_align.py (edit-distance tests) and by per-path replay on the compiled extension rebuilt from the working tree",
        "cdef int arithmetic is executed on unbounded integers (all values here are <= the string length)",
    ]
    assumptions = [
        "characters range over an alphabet of |s|+|t| distinct byte values (the function only tests characters for equality, so every equality pattern - hence every string pair of these lengths over any alphabet - is represented)",
    ]

    def setup(self):
        from vf import build

        self.realmod = build.load_real(["align"])["align"]
        self.world = SymWorld(decy=["whatshap.align"])
        self.symmod = self.world.load("whatshap.align")
        self._selftest()
        self._sym = _SymImpl(self.symmod)
        self._real = _RealImpl(self.realmod)
        self._oob = []

    def _selftest(self):
        """Validation of the translation: the repo's own edit-distance tests
        (tests/test_align.py) are run with a function that evaluates every call
        on the translation AND on the compiled module and demands equal
        results.  Whether the tests' own assertions hold is not the self-test's
        business (that is what the sub-checks decide), so an AssertionError of
        a test only ends that test."""
        from vf.runner import REPO
        from vf.decy.shims import OutOfBounds

        w = SymWorld(decy=["whatshap.align"], shadows={"int": int, "float": float, "bool": bool})
        mod = w.load("whatshap.align")
        real = self.realmod
        calls = [0]

        def ed(s, t, maxdiff=-1):
            b = real.edit_distance(s, t, maxdiff)
            try:
                a = mod.edit_distance(s, t, maxdiff)
            except OutOfBounds:
                return b  # undefined behaviour in the compiled module: nothing to compare; the sub-checks report it
            calls[0] += 1
            if a != b:
                raise RuntimeError("DeCy self-test: translation of align.edit_distance returns %r, compiled module %r for %r" % (a, b, (s, t, maxdiff)))
            return b

        src = open(os.path.join(REPO, "tests", "test_align.py")).read()
        src = src.replace("from whatshap.align import edit_distance as ed\n", "").replace("from whatshap.align import edit_distance_affine_gap as ed_aff\n", "")
        ns = {"__name__": "decy_selftest", "ed": ed, "ed_aff": None}
        exec(compile(src, "test_align.py", "exec"), ns)
        n = 0
        for k in ("test_edit_distance", "test_edit_distance_bytes", "test_edit_distance_banded"):
            f = ns.get(k)
            if callable(f):
                try:
                    f()
                except AssertionError:
                    pass
                n += 1
        if n < 3 or calls[0] < 6:
            raise RuntimeError("DeCy self-test: edit-distance tests of tests/test_align.py not found")

    def sym_impl(self):
        return self._sym

    def real_impl(self):
        return self._real

    def run(self, shape, tier, seed):
        self._oob = []
        r = super().run(shape, tier, seed)
        for msg in sorted(set(self._oob))[:3]:
            # cannot be confirmed on the compiled module without a sanitizer: reported on its own, never as a pass
            r["errors"].append("POTENTIAL-OUT-OF-BOUNDS (char*/vector shim, boundscheck(False) in the .pyx): %s" % msg)
        return r

    def _strings(self, e, m, n):
        k = max(m + n, 1)
        s = [e.int("s%d" % i, BASE, BASE + k - 1) for i in range(m)]
        t = [e.int("t%d" % j, BASE, BASE + k - 1) for j in range(n)]
        return s, t

    def _call(self, e, impl, kind, s, t, *maxdiff):
        from vf.decy.shims import OutOfBounds

        try:
            return impl.ed(kind, s, t, *maxdiff)
        except OutOfBounds as ex:
            self._oob.append("%s for |s|=%d |t|=%d maxdiff=%r witness=%r" % (ex, len(s), len(t), maxdiff, e.witness()))
            # the compiled module does not raise here (boundscheck(False)): it reads foreign memory.  The
            # witness is replayed on the real build, where the oracle below judges what it returned.
            e.check(False, "out-of-range read in edit_distance (undefined behaviour in the compiled module)", dict(shim=str(ex), s=e.value(s), t=e.value(t), maxdiff=list(maxdiff)))

    def _trim_cover(self, e, s, t):
        # evaluated after the call: the same conditions were decided inside the function (no additional paths)
        if s and t:
            if s[0] == t[0]:
                e.cover("identical prefix trimmed")
                if len(s) > 1 and len(t) > 1 and s[-1] == t[-1]:
                    e.cover("identical suffix trimmed")
            elif s[-1] == t[-1]:
                e.cover("identical suffix trimmed")

    def classify(self, shape, violation):
        return "%s:%s:%s" % (self.name, violation["msg"], ",".join("%s=%s" % kv for kv in sorted(shape.items())))


class EDFull(_EDBase):
    name = "ed_full"
    required_cover = ["identical prefix trimmed", "identical suffix trimmed", "distance below max(|s|,|t|)", "distance equals max(|s|,|t|)"]

    def shapes(self, tier):
        L = 5 if tier == "quick" else 6
        out = [dict(m=m, n=n, kind="bytes", md=md) for m in range(L + 1) for n in range(L + 1) for md in ("default", "-1") if md == "default" or m + n <= 6]
        out += [dict(m=m, n=n, kind="str", md="default") for m in range(4) for n in range(4)]
        return out

    def bounds(self, tier):
        L = 5 if tier == "quick" else 6
        return "all pairs of byte strings with |s|, |t| <= %d (characters symbolic; alphabet of |s|+|t| values), maxdiff omitted and maxdiff=-1 (the latter for |s|+|t| <= 6); str arguments for |s|, |t| <= 3" % L

    def harness(self, e, shape, impl):
        from vf.decy.shims import sym_min

        m, n = shape["m"], shape["n"]
        s, t = self._strings(e, m, n)
        args = () if shape["md"] == "default" else (-1,)
        r = self._call(e, impl, shape["kind"], s, t, *args)
        e.out("ed", r)
        self._trim_cover(e, s, t)
        d = levenshtein(s, t, sym_min)
        ctx = lambda: dict(s=e.value(s), t=e.value(t), returned=e.value(r), levenshtein=e.value(d))
        e.check(r == d, "edit_distance differs from the Levenshtein distance", ctx)
        if max(m, n) > 0:
            if d < max(m, n):
                e.cover("distance below max(|s|,|t|)")
            else:
                e.cover("distance equals max(|s|,|t|)")


class EDBanded(_EDBase):
    name = "ed_banded"
    required_cover = [
        "identical prefix trimmed",
        "identical suffix trimmed",
        "true distance within the band",
        "true distance beyond the band",
        "length difference exceeds the band",
        "band narrower than the matrix, distance within the band",
    ]

    def shapes(self, tier):
        L = 5 if tier == "quick" else 6
        out = []
        for m in range(L + 1):
            for n in range(L + 1):
                # bands wider than max(m, n) cover the whole matrix; one of them is kept
                for band in range(0, max(m, n) + 2):
                    out.append(dict(m=m, n=n, band=band))
        return out

    def bounds(self, tier):
        L = 5 if tier == "quick" else 6
        return "all pairs of byte strings with |s|, |t| <= %d (characters symbolic; alphabet of |s|+|t| values), every band width maxdiff in 0 .. max(|s|,|t|)+1 (wider bands cover the whole matrix like the widest one here)" % L

    def harness(self, e, shape, impl):
        from vf.decy.shims import sym_min

        m, n, band = shape["m"], shape["n"], shape["band"]
        s, t = self._strings(e, m, n)
        r = self._call(e, impl, "bytes", s, t, band)
        e.out("ed", r)
        self._trim_cover(e, s, t)
        if abs(m - n) > band:
            e.cover("length difference exceeds the band")
        d = levenshtein(s, t, sym_min)
        ctx = lambda: dict(s=e.value(s), t=e.value(t), maxdiff=band, returned=e.value(r), levenshtein=e.value(d))
        if d <= band:
            e.cover("true distance within the band")
            if band < max(m, n):
                e.cover("band narrower than the matrix, distance within the band")
            e.check(r == d, "banded edit_distance is not the exact distance although the distance is within the band", ctx)
        else:
            e.cover("true distance beyond the band")
            e.check(r > band, "banded edit_distance returns a value <= maxdiff although the true distance exceeds maxdiff", ctx)


SUBCHECKS = {c.name: c for c in [EDFull(), EDBanded()]}

if __name__ == "__main__":
    import sys
    from vf import runner

    sys.exit(runner.main("checks.c19", sys.argv[1:]))

# part (a): genotype indexing (LLSym) lives in its own module
from checks.c19_geno import SUBCHECKS as _GENO_SUBCHECKS

SUBCHECKS.update(_GENO_SUBCHECKS)
