"""C06 - allele detection never assigns the wrong allele to an error-free read.

The real ReadSetReader.read() of whatshap/variants.py is executed symbolically
(PySym) on top of the DeCy translations of whatshap/_variants.pyx and
whatshap/align.pyx, with whatshap.core replaced by the pure-Python model.  The
BAM side is a duck-typed reader that yields alignment objects; on the replay the
same scenario is fed to the *real* variants.py / compiled _variants, align and
core through real pysam.AlignedSegment objects.

Scenario (DESIGN 4, C06)
  K (enumerated)  reference length, variant kinds / lengths / VCF padding, variant
                  positions, read start and end, CIGAR decoration (soft / hard
                  clips, = and X operators, an N skip, base qualities), a second
                  variant (listed, or an unrelated difference of the haplotype),
                  mate pairs and their orientations, overhang, which allele the
                  read's haplotype carries
  S (symbolic)    every reference base, every inserted / substituted base
                  (characters over ACGT, REF != ALT), soft-clipped bases
  derived         the read's bases and its canonical CIGAR are computed in the
                  harness from (reference, variants, carried alleles): matches as
                  M (or =), substitutions as M (or X), insertions / deletions as
                  I / D exactly at the variant's normalised position

Oracle (exactly the statement, weaker reading where it is open):
  (A) a variant the read fully covers is recorded with the carried allele or not at all
  (B) a variant the read does not overlap is not recorded
  (C) with a reference the carried allele IS recorded (SNV, insertion, deletion, MNP) when
      the re-alignment window [pos-overhang, pos+len(REF)+overhang) contains no other
      difference between the read's haplotype and the reference and no reference skip
  (D) without a reference the carried allele IS recorded for SNVs and unshiftable
      insertions / deletions - also with soft clips, unrelated indels, N skips, mates

Sub-checks
  one     one listed variant, one alignment: all positions, all read intervals, decorations,
          padded / right-anchored / multi-allelic records, overhang 0..3
  two     two variants in one read over the whole reference: all kinds and distances
  skip    one variant and a reference skip (N) at every place
  paired  two mates (FR / RF / FF / RR) over two variants, merged by read name

Seven genuine defects are rediscovered on the unchanged tree (known_findings.jsonl).
"""
import itertools

from vf.runner import SubCheck
from vf.pysym.loader import SymWorld

PROPERTY = "C06"

OP_M, OP_I, OP_D, OP_N, OP_S, OP_H, OP_EQ, OP_X = 0, 1, 2, 3, 4, 5, 7, 8
OPCH = {0: "M", 1: "I", 2: "D", 3: "N", 4: "S", 5: "H", 7: "=", 8: "X"}


# ---------------------------------------------------------------------------
# the two worlds
# ---------------------------------------------------------------------------
class _DuckAln:
    """What variants.py / _variants.pyx touch of a pysam.AlignedSegment.  The
    facts encoded here (query_sequence holds soft-clipped but not hard-clipped
    bases, reference_end = start + M/D/N/=/X lengths) are re-validated on every
    replay, which builds a real AlignedSegment from the same fields."""

    def __init__(self, name, flag, start, cigar, seq, quals):
        self.query_name = name
        self.flag = flag
        self.reference_start = start
        self.cigartuples = list(cigar)
        self.query_sequence = seq
        self.query_qualities = quals
        self.mapping_quality = self.mapq = 60
        self.is_reverse = bool(flag & 16)
        self.is_secondary = bool(flag & 256)
        self.is_unmapped = bool(flag & 4)
        self.is_duplicate = bool(flag & 1024)
        self.is_supplementary = bool(flag & 2048)
        self.reference_end = start + sum(l for op, l in cigar if op in (0, 2, 3, 7, 8))
        # the part of the read that is aligned (pysam: query_alignment_*): without the soft-clipped ends
        ops = [(op, l) for op, l in cigar if op != 5]
        lead = ops[0][1] if ops and ops[0][0] == 4 else 0
        trail = ops[-1][1] if len(ops) > 1 and ops[-1][0] == 4 else 0
        self.query_alignment_start = lead
        self.query_alignment_end = len(seq) - trail
        self.query_alignment_sequence = seq[lead : len(seq) - trail]
        self.query_alignment_qualities = None if quals is None else quals[lead : len(quals) - trail]
        self.query_length = len(seq)

    def has_tag(self, tag):
        return False

    def get_tag(self, tag):
        raise KeyError(tag)


class _World:
    """Common driver of ReadSetReader.read() for both worlds."""

    def run(self, overhang, variants, reference, alignments, with_source=False):
        """variants: [(pos, ref codes, [alt codes, ...])]; reference: codes or None;
        alignments: [(name, flag, start, cigar, seq codes, quals[, source id = index of the input file])].
        Returns [(read name, [(position, allele, quality), ...]), ...] (with_source: (name, source id, [...]))."""
        vs = []
        for pos, ref, alts in variants:
            if len(alts) == 1:
                vs.append(self.vcf.BiallelicVcfVariant(pos, self.mkstr(ref), self.mkstr(alts[0])))
            else:
                vs.append(self.vcf.MultiallelicVcfVariant(pos, self.mkstr(ref), [self.mkstr(a) for a in alts]))
        alns = [self.bam.AlignmentWithSourceID(a[6] if len(a) > 6 else 0, self.mkaln(*a[:6])) for a in alignments]

        class Reader:
            def fetch(self, reference=None, sample=None, start=0, end=None):
                return iter(alns)

            def close(self):
                pass

        # the real constructor; no paths -> an empty MultiBamReader, replaced by the in-memory reader
        rsr = self.variants.ReadSetReader([], None, self.core.NumericSampleIds(), overhang=overhang)
        rsr._reader = Reader()
        readset = rsr.read("chr1", vs, None, None if reference is None else self.mkstr(reference))
        if with_source:
            return [(r.name, r.source_id, [(v.position, v.allele, v.quality) for v in r]) for r in readset]
        return [(r.name, [(v.position, v.allele, v.quality) for v in r]) for r in readset]


class _SymWorldImpl(_World):
    def __init__(self):
        from vf.models import core_model, symstr

        self.world = SymWorld(overrides={"whatshap.core": core_model}, decy=["whatshap.align", "whatshap._variants"])
        self.variants = self.world.load("whatshap.variants")
        self.vcf = self.world.load("whatshap.vcf")
        self.bam = self.world.load("whatshap.bam")
        self.core = core_model
        self.symstr = symstr

    def mkstr(self, codes):
        return self.symstr.SymStr(codes)

    def mkaln(self, name, flag, start, cigar, seq, quals):
        return _DuckAln(name, flag, start, cigar, self.mkstr(seq), quals)


class _RealWorldImpl(_World):
    def __init__(self):
        from vf import build

        build.load_real(["core", "align", "_variants"])
        import whatshap.variants, whatshap.vcf, whatshap.bam, whatshap.core

        self.variants, self.vcf, self.bam, self.core = whatshap.variants, whatshap.vcf, whatshap.bam, whatshap.core

    def mkstr(self, codes):
        return "".join(map(chr, codes))

    def mkaln(self, name, flag, start, cigar, seq, quals):
        import pysam

        a = pysam.AlignedSegment()
        a.query_name = name
        a.flag = flag
        a.reference_id = 0
        a.reference_start = start
        a.mapping_quality = 60
        a.cigartuples = list(cigar)
        a.query_sequence = self.mkstr(seq)
        if quals is not None:
            a.query_qualities = pysam.qualitystring_to_array("".join(chr(q + 33) for q in quals))
        return a


# ---------------------------------------------------------------------------
# harness-side genetics (independent of the code under test)
# ---------------------------------------------------------------------------
def _not(b):
    return (not b) if isinstance(b, bool) else ~b


def _or(a, b):
    if a is True or b is True:
        return True
    if a is False:
        return b
    if b is False:
        return a
    return a | b


_BASE_COND = {}


def _base(e, name):
    """A base over ACGT.  The z3 constraint is built once per process and name
    (term construction through the Python API dominates the run time otherwise)."""
    x = e.int(name)
    if isinstance(x, int):
        e.assume(x in (65, 67, 71, 84))
        return x
    hit = _BASE_COND.get(name)
    if hit is None:
        hit = _BASE_COND[name] = (x, (x == 65) | (x == 67) | (x == 71) | (x == 84))
    e.assume(hit[1])
    return hit[0]


def _txt(e, codes):
    return "".join(chr(c) for c in e.value(list(codes)))


class _Var:
    """One variant of the scenario: VCF record + its normalised form."""

    def __init__(self, e, R, tag, kind, p, k=1, lpad=0, rpad=0, nalt=1):
        from vf.models.symstr import char_eq, codes_eq

        L = len(R)
        self.kind, self.tag = kind, tag
        if kind in ("snv", "mnp"):
            k = 1 if kind == "snv" else k
            core_ref = R[p : p + k]
            core_alts = [[_base(e, "%s.a%d.%d" % (tag, j, i)) for i in range(k)] for j in range(nalt)]
        elif kind == "ins":
            core_ref = []
            core_alts = [[_base(e, "%s.a%d.%d" % (tag, j, i)) for i in range(k)] for j in range(nalt)]
        elif kind == "del":
            core_ref = R[p : p + k]
            core_alts = [[]]
        else:
            raise ValueError(kind)
        end = p + len(core_ref)
        self.ok = p - lpad >= 0 and end + rpad <= L and len(core_ref) == (0 if kind == "ins" else k)
        if not self.ok:
            return
        self.pos = p - lpad
        self.ref = R[p - lpad : p] + core_ref + R[end : end + rpad]
        self.alts = [R[p - lpad : p] + a + R[end : end + rpad] for a in core_alts]
        if not self.ref or not all(self.alts):
            self.ok = False  # VCF has no empty alleles
            return
        for a in self.alts:
            e.assume(_not(codes_eq(self.ref, a)))  # REF != ALT
        for a, b in itertools.combinations(self.alts, 2):
            e.assume(_not(codes_eq(a, b)))
        # the variant's normalised form: the longest suffix common to REF and all ALTs removed, then the
        # longest common prefix (the position moves with the prefix); one footprint (pos, ref, alt) per ALT
        pos, ref, alts = self.pos, list(self.ref), [list(a) for a in self.alts]
        while ref and all(alts) and all(char_eq(ref[-1], a[-1]) for a in alts):
            ref.pop()
            for a in alts:
                a.pop()
        while ref and all(alts) and all(char_eq(ref[0], a[0]) for a in alts):
            ref.pop(0)
            for a in alts:
                a.pop(0)
            pos += 1
        self.norm = [None] + [(pos, ref, a) for a in alts]

    def nkind(self, h):
        pos, ref, alt = self.norm[h]
        if not ref:
            return "ins"
        if not alt:
            return "del"
        if len(ref) == len(alt) == 1:
            return "snv"
        if len(ref) == len(alt):
            return "mnp"
        return "complex"

    def shiftable(self, R, h):
        """The normalised insertion / deletion can be moved by one base without changing the haplotype."""
        from vf.models.symstr import char_eq

        pos, ref, alt = self.norm[h]
        L = len(R)
        if not ref:
            left = pos > 0 and char_eq(alt[-1], R[pos - 1])
            right = pos < L and char_eq(alt[0], R[pos])
        else:
            k = len(ref)
            left = pos > 0 and char_eq(R[pos - 1], R[pos + k - 1])
            right = pos + k < L and char_eq(R[pos], R[pos + k])
        return _or(left, right)

    def describe(self, e, h=None):
        d = dict(pos=self.pos, ref=_txt(e, self.ref), alts=[_txt(e, a) for a in self.alts])
        d["normalised"] = [(n[0], _txt(e, n[1]), _txt(e, n[2])) for n in self.norm[1:]]
        if h is not None:
            d["carried"] = h
        return d


def _derive_alignment(e, R, carried, rs, re, deco, tag):
    """Bases and canonical CIGAR of a read that copies the haplotype over the
    reference interval [rs, re).  carried: normalised (pos, ref, alt) of the
    variants whose ALT the haplotype has.  None if no canonical alignment
    exists (a carried variant is cut by the read end, an indel sits at the read
    end or directly at a reference skip, two indels have no aligned base
    between them)."""
    eqx = deco.get("eqx", False)
    skip = deco.get("skip")
    ops, seq = [], []

    def emit(op, n):
        if n <= 0:
            return
        if ops and ops[-1][0] == op:
            ops[-1] = (op, ops[-1][1] + n)
        else:
            ops.append((op, n))

    events = []
    for pos, ref, alt in carried:
        if pos + len(ref) <= rs or pos >= re:
            continue  # outside this read (an insertion point at the read's edge is outside, too)
        events.append((pos, len(ref), "var", ref, alt))
    if skip is not None:
        if not (rs < skip[0] < skip[1] < re):
            return None
        events.append((skip[0], skip[1] - skip[0], "skip", None, None))
    events.sort(key=lambda t: (t[0], t[1]))
    cur = rs
    last_gap_end = None  # end of the last I / D / N
    for pos, rlen, what, ref, alt in events:
        if pos < cur or pos + rlen > re:
            return None
        gap = what == "skip" or len(ref) != len(alt)
        if gap and (pos <= rs or pos + rlen >= re):
            return None  # an aligned base is needed on both sides
        if gap and last_gap_end is not None and pos <= last_gap_end:
            return None
        emit(OP_EQ if eqx else OP_M, pos - cur)
        seq.extend(R[cur:pos])
        if what == "skip":
            emit(OP_N, rlen)
        else:
            common = min(len(ref), len(alt))
            if common:
                emit(OP_X if (eqx and len(ref) == len(alt) == 1) else OP_M, common)
                seq.extend(alt[:common])
            if len(alt) > common:
                emit(OP_I, len(alt) - common)
                seq.extend(alt[common:])
            if len(ref) > common:
                emit(OP_D, len(ref) - common)
        cur = pos + rlen
        if gap:
            last_gap_end = cur
    emit(OP_EQ if eqx else OP_M, re - cur)
    seq.extend(R[cur:re])
    if not ops or ops[0][0] not in (OP_M, OP_EQ, OP_X) or ops[-1][0] not in (OP_M, OP_EQ, OP_X):
        return None
    sl, sr = deco.get("sl", 0), deco.get("sr", 0)
    if sl:
        seq[0:0] = [_base(e, "%s.sl%d" % (tag, i)) for i in range(sl)]
        ops.insert(0, (OP_S, sl))
    if sr:
        seq.extend([_base(e, "%s.sr%d" % (tag, i)) for i in range(sr)])
        ops.append((OP_S, sr))
    if deco.get("hl", 0):
        ops.insert(0, (OP_H, deco["hl"]))
    if deco.get("hr", 0):
        ops.append((OP_H, deco["hr"]))
    return ops, seq


def _coverage(v, rs, re, skip):
    """'none' / 'full' / 'partial' for a listed variant and one alignment over [rs, re)."""
    vpos, vend = v.pos, v.pos + len(v.ref)
    norms = v.norm[1:]
    if vend <= rs or vpos >= re:
        # weaker reading of "does not overlap": the VCF record interval lies outside the aligned
        # interval and no normalised insertion point touches it
        if all(n[1] or not (rs <= n[0] <= re) for n in norms):
            return "none"
        return "partial"
    full = rs <= vpos and vend <= re
    for pos, ref, alt in norms:
        if len(ref) != len(alt):
            full = full and rs < pos and pos + len(ref) < re  # an aligned base on either side of an indel
    if skip is not None:
        a, b = skip
        lo = min([vpos] + [n[0] for n in norms])
        hi = max([vend] + [n[0] + len(n[1]) for n in norms])
        if a <= lo and hi <= b and all(len(ref) == len(alt) for _, ref, alt in norms):
            # a substitution whose bases all lie inside the reference skip: the read has no base there, it does not overlap it
            return "none"
        if lo < b and a < hi:
            return "partial"
        for pos, ref, alt in norms:
            if len(ref) != len(alt) and (a <= pos - 1 < b or a <= pos + len(ref) < b):
                return "partial"
    return "full" if full else "partial"


def _well_defined(v, others):
    """The haplotype carries one of v's alleles: no OTHER carried difference
    (normalised (pos, ref, alt)) overlaps v's record / normalised footprint, lies
    strictly inside it, or - indel against indel - touches it."""
    norms = v.norm[1:]
    lo = min([v.pos] + [n[0] for n in norms])
    hi = max([v.pos + len(v.ref)] + [n[0] + len(n[1]) for n in norms])
    for pj, rj, aj in others:
        ej = pj + len(rj)
        if rj and pj < hi and ej > lo:
            return False
        if not rj and lo < pj < hi:
            return False
        if len(rj) != len(aj):
            for qi, ri, ai in norms:
                if len(ri) != len(ai) and pj <= qi + len(ri) and ej >= qi:
                    return False
    return True


def _hap_seq(R, norms):
    """Haplotype over the whole reference for the carried normalised differences; None if they collide."""
    out, cur = [], 0
    for pos, ref, alt in sorted(norms, key=lambda c: (c[0], len(c[1]))):
        if pos < cur:
            return None
        out += R[cur:pos] + alt
        cur = pos + len(ref)
    return out + R[cur:]


def _identifiable(R, variants, carried, i):
    """No assignment of alleles with a different allele at variant i yields the same haplotype sequence.
    (Symbolic: the comparison of equally long sequences forks on the bases.)"""
    from vf.models.symstr import codes_eq

    H = _hap_seq(R, [v.norm[h] for v, h in zip(variants, carried) if h > 0])
    others = [j for j in range(len(variants)) if j != i]
    for a in range(len(variants[i].alts) + 1):
        if a == carried[i]:
            continue
        for combo in itertools.product(*[range(len(variants[j].alts) + 1) for j in others]):
            assign = dict(zip(others, combo))
            assign[i] = a
            G = _hap_seq(R, [variants[j].norm[assign[j]] for j in range(len(variants)) if assign[j] > 0])
            if G is None or len(G) != len(H):
                continue
            if codes_eq(G, H):
                return False
    return True


class _C06Base(SubCheck):
    sources = ["whatshap/variants.py", "whatshap/_variants.pyx", "whatshap/align.pyx", "whatshap/vcf.py", "whatshap/bam.py"]
    encoded = [
        "whatshap.variants.ReadSetReader.{__init__,read,_usable_alignments,_alignments_to_reads,_group_reads,create_read_from_group,_make_readset_from_grouped_reads,detect_non_overlapping_variants,build_var_progress,split_cigar_left,split_cigar_right,cigar_prefix_length,realign,detect_alleles_by_alignment}",
        "whatshap.variants.{VariantProgress,AlleleProgress,AlignedRead,merge_reads,merge_two_reads}",
        "whatshap._variants.{_iterate_cigar,_detect_alleles,_detect_alleles_match,_detect_alleles_insertion,_detect_alleles_deletion} (DeCy)",
        "whatshap.align.edit_distance (DeCy)",
        "whatshap.vcf.{BiallelicVcfVariant,MultiallelicVcfVariant}.{normalized,get_allele,get_alt_allele_list}",
    ]
    stubs = [
        "pysam.AlignedSegment -> duck-typed alignment (_DuckAln: reference_start/_end, cigartuples, query_sequence, query_qualities, flags, no tags); every path is replayed through a real pysam.AlignedSegment built from the same fields",
        "BAM reader -> in-memory reader object handed to the real ReadSetReader (constructed by its real __init__ with no paths)",
        "whatshap.core -> vf/models/core_model.py (Read, ReadSet, NumericSampleIds); replay uses the compiled core",
        "str -> vf/models/symstr.SymStr for reference, alleles and read bases (slicing, +, ==, len, indexing, startswith)",
        "DeCy translations of _variants.pyx and align.pyx (cdef int arithmetic on unbounded ints; all values are tiny)",
    ]
    assumptions = [
        "bases range over ACGT; REF != ALT; ALT alleles of a multi-allelic record pairwise different",
        "the read's bases and CIGAR are derived from (reference, variants, carried alleles): substitutions as M/X, insertions/deletions as I/D exactly at the variant's normalised position (longest common suffix of REF/ALT removed, then longest common prefix); first and last CIGAR operation other than clips is a match, indels have an aligned base on both sides",
        "'fully covers': the VCF record interval [POS, POS+len(REF)) lies inside the aligned interval, insertions/deletions additionally have an aligned base on both sides of their normalised position, no reference skip touches the variant",
        "'does not overlap' (weaker reading): the VCF record interval lies outside [reference_start, reference_end) and the normalised insertion point does not touch it either",
        "listed variants have distinct VCF positions (asserted by ReadSetReader.read)",
        "'the allele that haplotype carries' is claimed only where it is defined: no other difference of the haplotype overlaps the variant's record (or, indel against indel, touches it), and the haplotype's bases are not also an exact copy of a haplotype with another allele of that variant (equivalent indels in a repeat, differences that cancel each other)",
        "with two alignments of one read name the statement is applied to the merged read; 'fully covers' = at least one mate covers fully and none partially",
        "(C) is asserted when no other difference between haplotype and reference and no reference skip lies inside or next to the re-alignment window (weaker reading: 'regardless of ...' is read as belonging to the sentence about detection without a reference)",
        "(D) is asserted for variants whose normalised form is an SNV or an insertion/deletion that cannot be shifted by one base, and that do not share their normalised position / overlap with another listed variant (whatshap discards such variants by design: detect_non_overlapping_variants)",
    ]
    max_decisions = 20000

    def setup(self):
        self._real = _RealWorldImpl()  # first: registers the rebuilt extensions before anything imports whatshap
        self._sym = _SymWorldImpl()
        self._selftest()

    def _selftest(self):
        """DeCy validation beyond the per-path replay: a handful of fixed
        alignments run through translation and compiled module must agree."""
        cases = [
            ([(2, "G", ["C"]), (3, "T", ["TA"])], "ACGTACGT", [("r", 0, 1, [(0, 3), (1, 1), (0, 3)], "CGTAACG", None)]),
            ([(1, "CG", ["C"]), (5, "C", ["T"])], "ACGTACGT", [("r", 0, 0, [(4, 1), (0, 2), (2, 1), (0, 5), (5, 2)], "TACTACGT", [30] * 8)]),
            ([(4, "AC", ["GT"])], "ACGTACGT", [("r", 16, 2, [(7, 2), (8, 2), (3, 1), (7, 1)], "GTGTT", None)]),
        ]
        for variants, ref, alns in cases:
            vs = [(p, [ord(c) for c in r], [[ord(c) for c in a] for a in alts]) for p, r, alts in variants]
            al = [(n, f, s, c, [ord(ch) for ch in q], ql) for n, f, s, c, q, ql in alns]
            for reference in (None, [ord(c) for c in ref]):
                for ov in (0, 2):
                    # whether the result is *right* is the sub-checks' business; here only: do both worlds agree
                    def outcome(world):
                        try:
                            return world.run(ov, vs, reference, al)
                        except Exception as ex:  # noqa
                            return "raised " + type(ex).__name__

                    a, b = outcome(self._sym), outcome(self._real)
                    if a != b:
                        raise RuntimeError("self-test: symbolic world and real build disagree on %r: %r vs %r" % ((variants, reference, alns, ov), a, b))

    def sym_impl(self):
        return self._sym

    def real_impl(self):
        return self._real

    # -- the scenario runner + oracle ---------------------------------------------
    def scenario(self, e, impl, *, mode, ov, R, variants, carried, listed, reads):
        """variants: [_Var]; carried[i]: allele index the haplotype has at variant i;
        listed[i]: variant i is in the VCF handed to whatshap; reads: {name: [alignment dict(rs, re, flag, deco)]}."""
        hap = [v.norm[h] for v, h in zip(variants, carried) if h > 0]
        # carried variants must not collide on the haplotype
        hs = sorted(hap, key=lambda c: (c[0], len(c[1])))
        for x, y in zip(hs, hs[1:]):
            if x[0] + len(x[1]) > y[0] or (x[0] == y[0] and not x[1] and not y[1]):
                e.assume(False)
        alns = []
        for name, als in reads.items():
            for k, a in enumerate(als):
                d = _derive_alignment(e, R, hap, a["rs"], a["re"], a.get("deco", {}), "%s.%d" % (name, k))
                if d is None:
                    e.assume(False)
                ops, seq = d
                quals = a.get("quals")
                if quals is not None:
                    quals = [quals[i % len(quals)] for i in range(len(seq))]
                alns.append((name, a.get("flag", 0), a["rs"], ops, seq, quals))
        alns.sort(key=lambda t: t[2])  # coordinate-sorted like a BAM
        vlist = sorted([v for v, l in zip(variants, listed) if l], key=lambda v: v.pos)
        for x, y in zip(vlist, vlist[1:]):
            if x.pos == y.pos:
                e.assume(False)
        ctx = lambda: dict(
            mode=mode,
            overhang=ov,
            reference=_txt(e, R),
            variants=[v.describe(e, h) for v, h in zip(variants, carried)],
            listed=listed,
            alignments=[dict(name=n, flag=f, start=s, cigar="".join("%d%s" % (l, OPCH[op]) for op, l in c), seq=_txt(e, q)) for n, f, s, c, q, ql in alns],
        )
        try:
            got = impl.run(ov, [(v.pos, v.ref, v.alts) for v in vlist], R if mode == "realign" else None, alns)
        except Exception as ex:  # noqa - engine control flow derives from BaseException
            flat = [a for als in reads.values() for a in als]
            v0 = vlist[0] if len(vlist) == 1 else None
            h0 = carried[variants.index(v0)] if v0 is not None else 0
            e.check(False, "allele detection raised %s" % type(ex).__name__, lambda: dict(ctx(), error=str(ex)[:200], features=_features(e, mode, ov, R, v0, h0, flat, alns)))
        e.out("readset", sorted(got))
        names = [n for n, _ in got]
        e.check(len(set(names)) == len(names), "two reads with the same name in the ReadSet", ctx)
        for name, als in reads.items():
            rec = {}
            for n, vs in got:
                if n == name:
                    for p, a, q in vs:
                        e.check(p not in rec, "variant recorded twice in one read", ctx)
                        rec[p] = a
            for p in rec:
                e.check(any(p == v.pos for v in vlist), "allele recorded at a position that is not in the variant list", ctx)
            for i, v in enumerate(variants):
                if not listed[i]:
                    continue
                h = carried[i]
                cov = [_coverage(v, a["rs"], a["re"], a.get("deco", {}).get("skip")) for a in als]
                info = lambda: dict(ctx(), read=name, variant=v.describe(e, h), recorded=rec.get(v.pos), coverage=cov, features=_features(e, mode, ov, R, v, h, als, [a for a in alns if a[0] == name], [w.norm[hw] for j, (w, hw) in enumerate(zip(variants, carried)) if j != i and hw > 0]))
                if all(c == "none" for c in cov):
                    e.cover("variant outside the read")
                    e.check(v.pos not in rec, "(B) allele recorded for a variant the read does not overlap", info)
                    continue
                if "partial" in cov or "full" not in cov:
                    # C06 states nothing about a variant the read covers only in part.  C02 (checks/c02.py: ef_detect) does:
                    # an error-free read must never vote for the allele its haplotype does not carry.
                    if getattr(self, "partial_claim", False) and _well_defined(v, [w.norm[hw] for j, (w, hw) in enumerate(zip(variants, carried)) if j != i and hw > 0]) and _identifiable(R, variants, carried, i):
                        r = rec.get(v.pos)
                        e.cover("partially covered %s carried=%s" % (v.kind, "ref" if h == 0 else "alt"))
                        if r is not None:
                            e.cover("allele recorded for a partially covered variant")
                        e.check(r is None or r == h, "(P) wrong allele recorded for a partially covered variant of an error-free read", info)
                    continue
                if not _well_defined(v, [w.norm[hw] for j, (w, hw) in enumerate(zip(variants, carried)) if j != i and hw > 0]):
                    # another difference of the haplotype sits on this variant's site: the haplotype has
                    # neither allele of this record there, "the allele that haplotype carries" is undefined
                    e.cover("variant site hit by another difference (no claim)")
                    continue
                if not _identifiable(R, variants, carried, i):
                    # the same bases are also an exact copy of a haplotype with another allele of this
                    # variant (equivalent indels in a repeat, differences that cancel): nothing to claim
                    e.cover("bases also explained by the other allele (no claim)")
                    continue
                # colliding carried variants make the true allele ill-defined: none here (assumed above)
                r = rec.get(v.pos)
                e.cover("fully covered %s carried=%s" % (v.kind, "ref" if h == 0 else "alt"))
                e.check(r is None or r == h, "(A) wrong allele recorded for a fully covered variant", info)
                must = self.must_find(e, mode, ov, R, variants, carried, listed, i, als)
                if must:
                    e.cover("detection required (%s)" % mode)
                    e.check(r is not None, "(%s) allele of a fully covered variant not detected" % ("C" if mode == "realign" else "D"), info)
                    if r is not None:
                        e.cover("carried allele detected")
                elif r is None:
                    e.cover("no allele recorded where the statement allows it")
        return got

    def must_find(self, e, mode, ov, R, variants, carried, listed, i, als):
        v, h = variants[i], carried[i]
        others = [(w, carried[j], listed[j]) for j, w in enumerate(variants) if j != i]
        if mode == "realign":
            lo, hi = v.pos - ov, v.pos + len(v.ref) + ov
            for w, hw, lw in others:
                if hw > 0:
                    pos, ref, alt = w.norm[hw]
                    if not (pos + len(ref) < lo or pos > hi):
                        return False
            for a in als:
                skip = a.get("deco", {}).get("skip")
                if skip is not None and not (skip[1] < lo or skip[0] > hi):
                    return False
            return True
        # without reference: SNVs and unshiftable insertions / deletions
        for hh in range(1, len(v.alts) + 1):
            nk = v.nkind(hh)
            if nk in ("mnp", "complex"):
                return False
            if nk in ("ins", "del") and v.shiftable(R, hh):  # forks on the symbolic bases
                return False
        # whatshap drops variants that collide after normalisation
        for w, hw, lw in others:
            if not lw:
                continue
            for n1 in v.norm[1:]:
                for n2 in w.norm[1:]:
                    a0, a1 = n1[0], n1[0] + len(n1[1])
                    b0, b1 = n2[0], n2[0] + len(n2[1])
                    if a0 == b0 or (a0 < b1 and b0 < a1) or (not n1[1] and b0 < a0 < b1) or (not n2[1] and a0 < b0 < a1):
                        return False
        return True

    def classify(self, shape, violation):
        """sub-check : message : features of the variant / alignment the violation is about."""
        info = violation.get("info") or {}
        return "%s:%s:%s" % (self.name, violation["msg"], info.get("features", "mode=%s;ov=%s" % (shape.get("mode"), shape.get("ov"))))


def _features(e, mode, ov, R, v, h, als, alns, others=()):
    """Signature features of a violation: what kind of variant, which allele,
    where relative to the read, which CIGAR operators."""
    f = ["mode=%s" % mode]
    if mode == "realign":
        f.append("overhang=%s" % ("0" if ov == 0 else ">0"))
    if v is not None:
        nk = sorted(set(v.nkind(a) for a in range(1, len(v.alts) + 1)))
        f.append("variant=%s" % "+".join(nk))
        n = v.norm[max(h, 1)]
        f.append("len=%d" % max(len(n[1]), len(n[2])))
        f.append("carried=%s" % ("ref" if h == 0 else "alt"))
        if len(v.alts) > 1:
            f.append("multiallelic")
        ref = e.value(list(n[1]))
        if len(ref) >= 2 and len(set(ref)) > 1:
            f.append("ref_allele_bases_differ")
        if any(a["rs"] == v.pos for a in als):
            f.append("at_first_aligned_base")
        if any(a["re"] == v.pos + len(v.ref) for a in als):
            f.append("at_last_aligned_base")
    ops = sorted(set(OPCH[op] for a in alns for op, l in a[3]))
    if v is not None:
        # does any alignment contain a base at which the carried haplotype can differ from the others (the normalised footprint)?
        def touches(a, n):
            return (a["rs"] < n[0] + len(n[1]) and n[0] < a["re"]) if n[1] else a["rs"] < n[0] < a["re"]

        if not any(touches(a, n) for a in als for n in v.norm[1:]):
            f.append("no_differing_base_inside_the_read")
    if v is not None and mode == "realign":
        for a in als:
            sk = a.get("deco", {}).get("skip")
            if sk is not None and sk[0] <= v.pos + len(v.ref) + ov and sk[1] >= v.pos - ov:
                f.append("reference_skip_in_or_next_to_window")
                break
    if v is not None and others:
        lo, hi = v.pos - ov - 1, v.pos + len(v.ref) + ov + 1
        if mode == "realign" and any(pos <= hi and pos + len(ref) >= lo for pos, ref, alt in others):
            f.append("other_carried_difference_in_or_next_to_window")
        q = v.norm[max(h, 1)][0]
        if mode == "cigar" and any(not ref and pos < q < pos + len(alt) for pos, ref, alt in others):
            f.append("insertion_variant_within_k_bases_after_a_k_base_insertion" if not v.norm[max(h, 1)][1] else "variant_within_k_bases_after_a_k_base_insertion")
    f.append("cigar_ops=%s" % "".join(ops))
    if len(alns) > 1:
        f.append("alignments=%d" % len(alns))
        f.append("orientations=%s" % "".join("R" if a[1] & 16 else "F" for a in alns))
        if v is not None:
            cov = [k for k, a in enumerate(als) if _coverage(v, a["rs"], a["re"], a.get("deco", {}).get("skip")) == "full"]
            f.append("covering_mates=%s" % "".join(map(str, cov)))
            last = als[-1].get("flag", 0) & 16
            if cov and all((als[k].get("flag", 0) & 16) != last for k in cov):
                f.append("covering_mates_have_other_orientation_than_last_mate")
    return ";".join(f)


SUBCHECKS = {}


# ---------------------------------------------------------------------------
# sub-checks
# ---------------------------------------------------------------------------
KINDS = {
    # name: (kind, k, lpad, rpad)
    "snv": ("snv", 1, 0, 0),
    "snv_padded": ("snv", 1, 1, 1),
    "mnp2": ("mnp", 2, 0, 0),
    "ins1": ("ins", 1, 1, 0),
    "ins2": ("ins", 2, 1, 0),
    "ins1_ranchor": ("ins", 1, 0, 1),
    "ins1_padded": ("ins", 1, 1, 1),
    "del1": ("del", 1, 1, 0),
    "del2": ("del", 2, 1, 0),
    "del1_padded": ("del", 1, 1, 1),
    "del2_ranchor": ("del", 2, 0, 1),
    "snv_multi": ("snv", 1, 0, 0, 2),
    "ins1_multi": ("ins", 1, 1, 0, 2),
}
DECOS = {
    "plain": {},
    "quals": {"quals": [20, 35, 7]},
    "clips": {"hl": 1, "sl": 2, "sr": 1, "hr": 2},
    "eqx": {"eqx": True},
}


def _mk_var(e, R, tag, kname, p):
    kind, k, lpad, rpad = KINDS[kname][:4]
    nalt = KINDS[kname][4] if len(KINDS[kname]) > 4 else 1
    return _Var(e, R, tag, kind, p, k, lpad, rpad, nalt)


class One(_C06Base):
    """One listed variant, one alignment: every variant position, every read
    interval (covering, touching, missing the variant), each decoration."""

    name = "one"
    required_cover = [
        "variant outside the read",
        "fully covered snv carried=ref",
        "fully covered snv carried=alt",
        "fully covered ins carried=alt",
        "fully covered del carried=alt",
        "fully covered mnp carried=alt",
        "detection required (realign)",
        "detection required (cigar)",
        "carried allele detected",
    ]

    def shapes(self, tier):
        out = []
        ovs = [0, 1, 2] if tier == "quick" else [0, 1, 2, 3]
        modes = [("cigar", 0)] + [("realign", ov) for ov in ovs]
        for mode, ov in modes:
            for kname in KINDS:
                nalt = KINDS[kname][4] if len(KINDS[kname]) > 4 else 1
                for h in range(nalt + 1):
                    for deco in DECOS:
                        L = self._L(tier, deco)
                        if deco != "plain" and (ov == 0 and mode == "realign"):
                            continue
                        if tier == "quick" and deco != "plain" and (kname not in ("snv", "ins1", "del2", "mnp2") or ov == 1):
                            continue
                        if tier == "quick" and kname.endswith(("_padded", "_ranchor")) and ov == 1:
                            continue
                        out.append(dict(mode=mode, ov=ov, kind=kname, h=h, deco=deco, L=L))
        return out

    @staticmethod
    def _L(tier, deco):
        if tier == "quick":
            return 7 if deco == "plain" else 6
        return 10 if deco == "plain" else 8

    def bounds(self, tier):
        L = "%d (plain CIGAR) / %d (decorated)" % (self._L(tier, "plain"), self._L(tier, "eqx"))
        return "reference of %s symbolic bases; one variant of each kind in %s at every position; one read over every interval [rs, re) of the reference; decorations %s; every carried allele (ref/alt, second alt of the two multi-allelic kinds); without reference and with reference for overhang %s (overhang 0 without decorations; the default overhang 10 exceeds the reference length and is outside the bound)" % (L, sorted(KINDS), sorted(DECOS), "0..2" if tier == "quick" else "0..3")

    def harness(self, e, shape, impl):
        L = shape["L"]
        R = [_base(e, "r%d" % i) for i in range(L)]
        p = e.choice("p", range(L + 1))
        v = _mk_var(e, R, "v", shape["kind"], p)
        if not v.ok:
            e.assume(False)
        spans = [(a, b) for a in range(L) for b in range(a + 1, L + 1)]
        rs, re = e.choice("span", spans)
        deco = dict(DECOS[shape["deco"]])
        quals = deco.pop("quals", None)
        reads = {"r": [dict(rs=rs, re=re, flag=0, deco=deco, quals=quals)]}
        self.scenario(e, impl, mode=shape["mode"], ov=shape["ov"], R=R, variants=[v], carried=[shape["h"]], listed=[True], reads=reads)


CORE_KINDS = ["snv", "mnp2", "ins1", "ins2", "del1", "del2"]


class Two(_C06Base):
    """Two variants inside one read that spans the whole reference: every pair
    of kinds, every pair of positions (adjacent, one base apart, overlapping
    records), both listed or the second one an unrelated (unlisted) difference
    of the haplotype."""

    name = "two"
    required_cover = [
        "fully covered snv carried=alt",
        "fully covered ins carried=alt",
        "fully covered del carried=alt",
        "detection required (realign)",
        "detection required (cigar)",
        "carried allele detected",
        "unrelated indel next to the variant",
        "two listed variants one base apart or closer",
    ]

    def shapes(self, tier):
        out = []
        L = 6 if tier == "quick" else 9
        ovs = [1, 2] if tier == "quick" else [1, 2, 3]
        modes = [("cigar", 0)] + [("realign", ov) for ov in ovs]
        for mode, ov in modes:
            for k1 in CORE_KINDS:
                for k2 in CORE_KINDS:
                    for listed, hs in (((True, True), [(0, 0), (0, 1), (1, 0), (1, 1)]), ((True, False), [(0, 1), (1, 1)]), ((False, True), [(1, 0), (1, 1)])):
                        if tier == "quick" and ov == 2 and not all(listed):
                            continue
                        for h in hs:
                            out.append(dict(mode=mode, ov=ov, kinds=[k1, k2], listed=list(listed), h=list(h), L=L))
        return out

    def bounds(self, tier):
        L = 6 if tier == "quick" else 9
        return "reference of %d symbolic bases, read over the whole reference; ordered pairs of variant kinds from %s at all positions p1 <= p2; both listed / one of them an unlisted difference carried by the haplotype; all carried-allele combinations; without reference and with reference for overhang %s" % (L, CORE_KINDS, "1,2" if tier == "quick" else "1..3")

    def harness(self, e, shape, impl):
        L = shape["L"]
        R = [_base(e, "r%d" % i) for i in range(L)]
        pairs = [(a, b) for a in range(L + 1) for b in range(a, L + 1)]
        p1, p2 = e.choice("pp", pairs)
        v1 = _mk_var(e, R, "v", shape["kinds"][0], p1)
        v2 = _mk_var(e, R, "w", shape["kinds"][1], p2)
        if not (v1.ok and v2.ok):
            e.assume(False)
        listed, h = shape["listed"], shape["h"]
        n1, n2 = v1.norm[1], v2.norm[1]
        gap = n2[0] - (n1[0] + len(n1[1]))
        if not all(listed) and -1 <= gap <= 1:
            e.cover("unrelated indel next to the variant")
        if all(listed) and gap <= 1:
            e.cover("two listed variants one base apart or closer")
        self.scenario(e, impl, mode=shape["mode"], ov=shape["ov"], R=R, variants=[v1, v2], carried=h, listed=listed, reads={"r": [dict(rs=0, re=L, flag=0)]})


class Skip(_C06Base):
    """One variant and a read with a reference skip (N) at every place."""

    name = "skip"
    required_cover = ["fully covered snv carried=alt", "fully covered ins carried=alt", "fully covered del carried=ref", "variant right after the skip", "variant right before the skip", "carried allele detected", "substitution inside the skipped bases"]

    def shapes(self, tier):
        L = 7 if tier == "quick" else 10
        ovs = [1, 2] if tier == "quick" else [1, 2, 3]
        return [dict(mode=m, ov=ov, kind=k, h=h, L=L) for m, ov in [("cigar", 0)] + [("realign", o) for o in ovs] for k in CORE_KINDS for h in (0, 1)]

    def bounds(self, tier):
        L = 7 if tier == "quick" else 10
        return "reference of %d symbolic bases, read over the whole reference with one reference skip [a, b) of 1-2 bases at every place, one variant of each kind in %s at every position" % (L, CORE_KINDS)

    def harness(self, e, shape, impl):
        L = shape["L"]
        R = [_base(e, "r%d" % i) for i in range(L)]
        p = e.choice("p", range(L + 1))
        v = _mk_var(e, R, "v", shape["kind"], p)
        if not v.ok:
            e.assume(False)
        skips = [(a, a + n) for n in (1, 2) for a in range(1, L - n)]
        skip = e.choice("skip", skips)
        if skip[0] <= v.pos and v.pos + len(v.ref) <= skip[1] and v.kind in ("snv", "mnp"):
            e.cover("substitution inside the skipped bases")
        if v.pos == skip[1]:
            e.cover("variant right after the skip")
        if v.pos + len(v.ref) == skip[0]:
            e.cover("variant right before the skip")
        self.scenario(e, impl, mode=shape["mode"], ov=shape["ov"], R=R, variants=[v], carried=[shape["h"]], listed=[True], reads={"r": [dict(rs=0, re=L, flag=0, deco={"skip": skip})]})


ORIENT = {
    # (flag of the left mate, flag of the right mate)
    "FR": (99, 147),  # proper pair: left mate forward (first in pair), right mate reverse
    "RF": (83, 163),
    "FF": (67, 131),
    "RR": (115, 179),
}


class Paired(_C06Base):
    """A mate pair (two alignments with one name) over two variants: each mate
    covers one of them or both."""

    name = "paired"
    required_cover = ["fully covered snv carried=alt", "variant covered by the left mate only", "variant covered by the right mate only", "variant covered by both mates", "carried allele detected"]

    def shapes(self, tier):
        L = 7 if tier == "quick" else 9
        kinds = ["snv", "ins1", "del2"] if tier == "quick" else CORE_KINDS
        out = []
        for m, ov in [("cigar", 0), ("realign", 1)] + ([] if tier == "quick" else [("realign", 2)]):
            for o in ORIENT:
                for k in kinds:
                    for h in ((0, 0), (0, 1), (1, 0), (1, 1)):
                        out.append(dict(mode=m, ov=ov, orient=o, kinds=["snv", k], h=list(h), L=L))
        return out

    def bounds(self, tier):
        L = 7 if tier == "quick" else 9
        return "reference of %d symbolic bases; an SNV followed by a second variant; two mates [0, m1) and [m2, %d) in four layouts (apart, touching, overlapping, both over the whole reference); orientations %s; all carried-allele combinations" % (L, L, sorted(ORIENT))

    def harness(self, e, shape, impl):
        L = shape["L"]
        R = [_base(e, "r%d" % i) for i in range(L)]
        pairs = [(a, b) for a in range(L + 1) for b in range(a + 1, L + 1)]
        p1, p2 = e.choice("pp", pairs)
        v1 = _mk_var(e, R, "v", shape["kinds"][0], p1)
        v2 = _mk_var(e, R, "w", shape["kinds"][1], p2)
        if not (v1.ok and v2.ok):
            e.assume(False)
        # mates [0, m1) and [m2, L): apart, touching, overlapping, both over everything
        m1, m2 = e.choice("mates", [(L // 2, L // 2 + 1), (L // 2 + 1, L // 2 + 1), (L // 2 + 2, L // 2 - 1), (L, 0)])
        fl, fr = ORIENT[shape["orient"]]
        reads = {"p": [dict(rs=0, re=m1, flag=fl), dict(rs=m2, re=L, flag=fr)]}
        for v in (v1, v2):
            c = [_coverage(v, 0, m1, None), _coverage(v, m2, L, None)]
            if c == ["full", "none"]:
                e.cover("variant covered by the left mate only")
            if c == ["none", "full"]:
                e.cover("variant covered by the right mate only")
            if c == ["full", "full"]:
                e.cover("variant covered by both mates")
        self.scenario(e, impl, mode=shape["mode"], ov=shape["ov"], R=R, variants=[v1, v2], carried=shape["h"], listed=[True, True], reads=reads)


SUBCHECKS.update({c.name: c for c in [One(), Two(), Skip(), Paired()]})

if __name__ == "__main__":
    import sys
    from vf import runner

    sys.exit(runner.main("checks.c06", sys.argv[1:]))
