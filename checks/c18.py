"""C18 - priority queue and component finder match their abstract models.

Sub-checks
  cf_hist   ComponentFinder: bounded merge histories over symbolic, distinct values
  cf_step   ComponentFinder: one merge from an arbitrary valid forest (inductive step)
  pq_hist   PriorityQueue (DeCy translation of priorityqueue.pyx): bounded histories
  pq_step   PriorityQueue: one operation from an arbitrary valid heap (inductive step)
"""
import itertools

from vf.runner import SubCheck
from vf.pysym.loader import SymWorld

PROPERTY = "C18"


def _closure(n, merges):
    comp = list(range(n))
    for a, b in merges:
        ca, cb = comp[a], comp[b]
        if ca != cb:
            comp = [ca if c == cb else c for c in comp]
    return comp


class CFHist(SubCheck):
    name = "cf_hist"
    encoded = ["whatshap.graph.ComponentFinder.__init__", "ComponentFinder.merge", "ComponentFinder._find_node", "ComponentFinder.find"]
    sources = ["whatshap/graph.py"]
    assumptions = ["values pairwise distinct (dict keys)", "merge(x, y) called with x != y (asserted precondition of merge)"]
    required_cover = ["merge joins two classes", "merge inside one class", "path compression over >=2 links"]

    def shapes(self, tier):
        nm = [(2, 1), (3, 3), (4, 3)] if tier == "quick" else [(2, 1), (3, 4), (4, 4), (5, 4)]
        out = []
        for n, m in nm:
            if n <= 3:
                out.append(dict(n=n, m=m))
            else:  # first merge enumerated here so that one (n, m) spreads over the cores
                out += [dict(n=n, m=m, first=[a, b]) for a in range(n) for b in range(n) if a != b]
        return out

    def bounds(self, tier):
        return "n values (symbolic integers, pairwise distinct, any order), m merges with solver-chosen operands, find() of every value after every merge; shapes %s" % self.shapes(tier)

    def setup(self):
        self.world = SymWorld()
        self.sym = self.world.load("whatshap.graph")

    def sym_impl(self):
        return self.sym

    def real_impl(self):
        import whatshap.graph

        return whatshap.graph

    def harness(self, e, shape, impl):
        n, m = shape["n"], shape["m"]
        vals = [e.int("v%d" % i, -8, 8) for i in range(n)]
        for i in range(n):
            for j in range(i):
                e.assume(vals[i] != vals[j])
        cf = impl.ComponentFinder(vals)
        merges = []
        for k in range(m):
            if k == 0 and "first" in shape:
                a, b = shape["first"]
            else:
                a = e.choice("a%d" % k, range(n))
                b = e.choice("b%d" % k, range(n - 1))
                if b >= a:
                    b += 1
            comp_before = _closure(n, merges)
            if comp_before[a] == comp_before[b]:
                e.cover("merge inside one class")
            else:
                e.cover("merge joins two classes")
            depth = 0
            node = cf.nodes[vals[a]]
            while node.parent is not None:
                node = node.parent
                depth += 1
            if depth >= 2:
                e.cover("path compression over >=2 links")
            cf.merge(vals[a], vals[b])
            merges.append((a, b))
            comp = _closure(n, merges)
            for i in range(n):
                depth = 0
                node = cf.nodes[vals[i]]
                while node.parent is not None:
                    node = node.parent
                    depth += 1
                if depth >= 2:
                    e.cover("path compression over >=2 links")
                r = cf.find(vals[i])
                cls = [vals[j] for j in range(n) if comp[j] == comp[i]]
                is_member = False
                for c in cls:
                    e.check(r <= c, "find() is not the minimum of the connected component", lambda: dict(step=k, merges=merges, element=i))
                    if r == c:
                        is_member = True
                e.check(is_member, "find() returns a value outside the component", lambda: dict(step=k, merges=merges, element=i))
                e.out("find", r)


class CFStep(SubCheck):
    """One inductive step: an arbitrary forest over n values whose roots are the
    minima of their trees (the representation invariant every history
    establishes), one merge, assert invariant + closure again."""

    name = "cf_step"
    encoded = CFHist.encoded
    sources = ["whatshap/graph.py"]
    assumptions = ["pre-state: parent pointers form a forest in which every node's value is greater than its root's value (representation invariant; established by __init__ and preserved by merge - the latter is what this step proves)"]
    required_cover = ["merge joins two classes", "merge inside one class"]

    def shapes(self, tier):
        ns = [3, 4] if tier == "quick" else [3, 4, 5]
        return [dict(n=n) for n in ns]

    def bounds(self, tier):
        return "arbitrary valid forest over n in %s symbolic distinct values, one merge with solver-chosen operands" % [s["n"] for s in self.shapes(tier)]

    setup = CFHist.setup
    sym_impl = CFHist.sym_impl
    real_impl = CFHist.real_impl

    def harness(self, e, shape, impl):
        n = shape["n"]
        vals = [e.int("v%d" % i, -8, 8) for i in range(n)]
        for i in range(n):
            for j in range(i):
                e.assume(vals[i] != vals[j])
        cf = impl.ComponentFinder(vals)
        # arbitrary forest: parent index in {-1 (root), 0..n-1}; acyclic by ranking on a solver-chosen order
        parent = [e.choice("p%d" % i, [-1] + [j for j in range(n) if j != i]) for i in range(n)]
        # reject cycles
        for i in range(n):
            seen, j = set(), i
            while j != -1:
                if j in seen:
                    e.assume(False)
                seen.add(j)
                j = parent[j]

        def root(i):
            while parent[i] != -1:
                i = parent[i]
            return i

        for i in range(n):
            if parent[i] != -1:
                e.assume(vals[root(i)] < vals[i])
                cf.nodes[vals[i]].parent = cf.nodes[vals[parent[i]]]
        a = e.choice("a", range(n))
        b = e.choice("b", range(n - 1))
        if b >= a:
            b += 1
        same = root(a) == root(b)
        e.cover("merge inside one class" if same else "merge joins two classes")
        cf.merge(vals[a], vals[b])
        comp = [root(i) for i in range(n)]
        ra, rb = root(a), root(b)
        comp = [ra if c == rb else c for c in comp]
        for i in range(n):
            r = cf.find(vals[i])
            member = False
            for j in range(n):
                if comp[j] == comp[i]:
                    e.check(r <= vals[j], "after one merge from a valid forest: representative is not the class minimum", lambda: dict(parent=parent, a=a, b=b, element=i))
                    if r == vals[j]:
                        member = True
            e.check(member, "after one merge from a valid forest: representative outside the class", lambda: dict(parent=parent, a=a, b=b, element=i))
            e.out("find", r)
        # invariant re-established: every node's root is smaller than the node
        for i in range(n):
            node = cf.nodes[vals[i]]
            if node.parent is not None:
                rt = node
                while rt.parent is not None:
                    rt = rt.parent
                e.check(rt.value < node.value, "representation invariant broken by merge", lambda: dict(parent=parent, a=a, b=b, element=i))


SUBCHECKS = {c.name: c for c in [CFHist(), CFStep()]}

if __name__ == "__main__":
    import sys
    from vf import runner

    sys.exit(runner.main("checks.c18", sys.argv[1:]))
