"""C18 - priority queue and component finder match their abstract models.

Sub-checks
  cf_hist   ComponentFinder: bounded merge histories over symbolic, distinct values
  cf_step   ComponentFinder: one merge from an arbitrary valid forest (inductive step)
  pq_hist   PriorityQueue (DeCy translation of priorityqueue.pyx): bounded histories
  pq_step   PriorityQueue: one operation from an arbitrary valid heap (inductive step)
"""
import itertools

from vf.runner import SubCheck
from vf.pysym.loader import SymWorld

PROPERTY = "C18"


def _closure(n, merges):
    comp = list(range(n))
    for a, b in merges:
        ca, cb = comp[a], comp[b]
        if ca != cb:
            comp = [ca if c == cb else c for c in comp]
    return comp


class CFHist(SubCheck):
    name = "cf_hist"
    encoded = ["whatshap.graph.ComponentFinder.__init__", "ComponentFinder.merge", "ComponentFinder._find_node", "ComponentFinder.find"]
    sources = ["whatshap/graph.py"]
    assumptions = ["values pairwise distinct (dict keys)", "merge(x, y) called with x != y (asserted precondition of merge)"]
    required_cover = ["merge joins two classes", "merge inside one class", "path compression over >=2 links"]

    def shapes(self, tier):
        nm = [(2, 1), (3, 3), (4, 3)] if tier == "quick" else [(2, 1), (3, 4), (4, 4), (5, 4)]
        out = []
        for n, m in nm:
            if n <= 3:
                out.append(dict(n=n, m=m))
            else:  # first merge enumerated here so that one (n, m) spreads over the cores
                out += [dict(n=n, m=m, first=[a, b]) for a in range(n) for b in range(n) if a != b]
        return out

    def bounds(self, tier):
        return "n values (symbolic integers, pairwise distinct, any order), m merges with solver-chosen operands, find() of every value after every merge; shapes %s" % self.shapes(tier)

    def setup(self):
        self.world = SymWorld()
        self.sym = self.world.load("whatshap.graph")

    def sym_impl(self):
        return self.sym

    def real_impl(self):
        import whatshap.graph

        return whatshap.graph

    def harness(self, e, shape, impl):
        n, m = shape["n"], shape["m"]
        vals = [e.int("v%d" % i, -8, 8) for i in range(n)]
        for i in range(n):
            for j in range(i):
                e.assume(vals[i] != vals[j])
        cf = impl.ComponentFinder(vals)
        merges = []
        for k in range(m):
            if k == 0 and "first" in shape:
                a, b = shape["first"]
            else:
                a = e.choice("a%d" % k, range(n))
                b = e.choice("b%d" % k, range(n - 1))
                if b >= a:
                    b += 1
            comp_before = _closure(n, merges)
            if comp_before[a] == comp_before[b]:
                e.cover("merge inside one class")
            else:
                e.cover("merge joins two classes")
            depth = 0
            node = cf.nodes[vals[a]]
            while node.parent is not None:
                node = node.parent
                depth += 1
            if depth >= 2:
                e.cover("path compression over >=2 links")
            cf.merge(vals[a], vals[b])
            merges.append((a, b))
            comp = _closure(n, merges)
            for i in range(n):
                depth = 0
                node = cf.nodes[vals[i]]
                while node.parent is not None:
                    node = node.parent
                    depth += 1
                if depth >= 2:
                    e.cover("path compression over >=2 links")
                r = cf.find(vals[i])
                cls = [vals[j] for j in range(n) if comp[j] == comp[i]]
                is_member = False
                for c in cls:
                    e.check(r <= c, "find() is not the minimum of the connected component", lambda: dict(step=k, merges=merges, element=i))
                    if r == c:
                        is_member = True
                e.check(is_member, "find() returns a value outside the component", lambda: dict(step=k, merges=merges, element=i))
                e.out("find", r)


class CFStep(SubCheck):
    """One inductive step: an arbitrary forest over n values whose roots are the
    minima of their trees (the representation invariant every history
    establishes), one merge, assert invariant + closure again."""

    name = "cf_step"
    encoded = CFHist.encoded
    sources = ["whatshap/graph.py"]
    assumptions = ["pre-state: parent pointers form a forest in which every node's value is greater than its root's value (representation invariant; established by __init__ and preserved by merge - the latter is what this step proves)"]
    required_cover = ["merge joins two classes", "merge inside one class"]

    def shapes(self, tier):
        ns = [3, 4] if tier == "quick" else [3, 4, 5]
        return [dict(n=n) for n in ns]

    def bounds(self, tier):
        return "arbitrary valid forest over n in %s symbolic distinct values, one merge with solver-chosen operands" % [s["n"] for s in self.shapes(tier)]

    setup = CFHist.setup
    sym_impl = CFHist.sym_impl
    real_impl = CFHist.real_impl

    def harness(self, e, shape, impl):
        n = shape["n"]
        vals = [e.int("v%d" % i, -8, 8) for i in range(n)]
        for i in range(n):
            for j in range(i):
                e.assume(vals[i] != vals[j])
        cf = impl.ComponentFinder(vals)
        # arbitrary forest: parent index in {-1 (root), 0..n-1}; acyclic by ranking on a solver-chosen order
        parent = [e.choice("p%d" % i, [-1] + [j for j in range(n) if j != i]) for i in range(n)]
        # reject cycles
        for i in range(n):
            seen, j = set(), i
            while j != -1:
                if j in seen:
                    e.assume(False)
                seen.add(j)
                j = parent[j]

        def root(i):
            while parent[i] != -1:
                i = parent[i]
            return i

        for i in range(n):
            if parent[i] != -1:
                e.assume(vals[root(i)] < vals[i])
                cf.nodes[vals[i]].parent = cf.nodes[vals[parent[i]]]
        a = e.choice("a", range(n))
        b = e.choice("b", range(n - 1))
        if b >= a:
            b += 1
        same = root(a) == root(b)
        e.cover("merge inside one class" if same else "merge joins two classes")
        cf.merge(vals[a], vals[b])
        comp = [root(i) for i in range(n)]
        ra, rb = root(a), root(b)
        comp = [ra if c == rb else c for c in comp]
        for i in range(n):
            r = cf.find(vals[i])
            member = False
            for j in range(n):
                if comp[j] == comp[i]:
                    e.check(r <= vals[j], "after one merge from a valid forest: representative is not the class minimum", lambda: dict(parent=parent, a=a, b=b, element=i))
                    if r == vals[j]:
                        member = True
            e.check(member, "after one merge from a valid forest: representative outside the class", lambda: dict(parent=parent, a=a, b=b, element=i))
            e.out("find", r)
        # invariant re-established: every node's root is smaller than the node
        for i in range(n):
            node = cf.nodes[vals[i]]
            if node.parent is not None:
                rt = node
                while rt.parent is not None:
                    rt = rt.parent
                if not (rt.value < node.value):
                    # find() answered correctly above, but the forest no longer has the shape this step argument starts
                    # from: the induction does not go through for this implementation (it may use another representation).
                    # Not a violation of the property - the bounded histories of cf_hist are what judges it then.
                    e.inconclusive("induction hypothesis (every root is the minimum of its tree) not re-established by merge: parent=%r a=%d b=%d element=%d" % (parent, a, b, i))


SUBCHECKS = {c.name: c for c in [CFHist(), CFStep()]}



# ---------------------------------------------------------------------------
# PriorityQueue (Cython) through DeCy
# ---------------------------------------------------------------------------
def _lex_ge(a, b):
    """a >= b for scalar or equal-length tuple scores (symbolic-friendly, non-forking)."""
    import z3
    from vf.pysym.engine import SymBool, to_int_expr

    if not isinstance(a, tuple):
        a, b = (a,), (b,)
    # lexicographic: a > b or a == b
    n = min(len(a), len(b))
    res = z3.BoolVal(len(a) >= len(b))
    for i in reversed(range(n)):
        ai, bi = to_int_expr(a[i]), to_int_expr(b[i])
        res = z3.Or(ai > bi, z3.And(ai == bi, res))
    res = z3.simplify(res)
    if z3.is_true(res):
        return True
    if z3.is_false(res):
        return False
    return SymBool(res)


def _eq(a, b):
    if isinstance(a, tuple) != isinstance(b, tuple):
        return False
    if isinstance(a, tuple):
        if len(a) != len(b):
            return False
        r = True
        for x, y in zip(a, b):
            r = r & (x == y) if r is not True else (x == y)
        return r
    return a == b


class _PQBase(SubCheck):
    sources = ["whatshap/priorityqueue.pyx", "whatshap/priorityqueue.pxd"]
    encoded = ["priorityqueue.PriorityQueue.{push,c_push,pop,c_pop,change_score,c_change_score,get_score_by_item,c_get_score_by_item,__len__,is_empty,_swap,_score_lower,_sift_up,_sift_down}", "_vector_score_lower", "_pyscore_to_vector", "_parent/_left_child/_right_child"]
    stubs = ["DeCy shims: vector/unordered_map/pair/pointer (vf/decy/shims.py), validated by the repo's tests/test_priorityqueue.py on the translation and by per-path replay on the compiled extension rebuilt from the working tree"]

    def setup(self):
        self.world = SymWorld(decy=["whatshap.priorityqueue"])
        self.sym = self.world.load("whatshap.priorityqueue")
        self._selftest()
        from vf import build

        self.real = build.load_real(["priorityqueue"])["priorityqueue"]

    def _selftest(self):
        # the repo's own unit tests, run against the translation (concrete)
        import importlib.util, sys, inspect, os
        from vf.runner import REPO

        w = SymWorld(decy=["whatshap.priorityqueue"], shadows={"int": int, "float": float, "bool": bool})
        mod = w.load("whatshap.priorityqueue")
        src = open(os.path.join(REPO, "tests", "test_priorityqueue.py")).read()
        ns = {"__name__": "decy_selftest"}
        src = src.replace("from whatshap.priorityqueue import PriorityQueue", "")
        ns["PriorityQueue"] = mod.PriorityQueue
        exec(compile(src, "test_priorityqueue.py", "exec"), ns)
        n = 0
        for k, f in list(ns.items()):
            if k.startswith("test_") and callable(f):
                f()
                n += 1
        if n < 5:
            raise RuntimeError("DeCy self-test: repo tests for priorityqueue not found")

    def sym_impl(self):
        return self.sym

    def real_impl(self):
        return self.real

    def _score(self, e, name, arity):
        if arity == 1:
            return e.int(name, -4, 4)
        return tuple(e.int("%s.%d" % (name, i), -3, 3) for i in range(arity))

    def _drain(self, e, pq, model, ctx):
        """Pop everything: items come out in non-increasing score order with the
        scores last assigned; exactly the queued items come out."""
        e.check(len(pq) == len(model), "len() disagrees with the number of queued items", ctx)
        e.check(pq.is_empty() == (len(model) == 0), "is_empty() disagrees", ctx)
        for it, sc in list(model.items()):
            got = pq.get_score_by_item(it)
            e.check(got is not None, "get_score_by_item() reports a queued item as absent", ctx)
            e.check(_eq(got, sc), "get_score_by_item() returns a stale score", ctx)
        prev = None
        left = dict(model)
        while left:
            score, item = pq.pop()
            e.out("pop_item", item)
            e.out("pop_score", score)
            e.check(item in left, "pop() returned an item that is not queued (or twice)", ctx)
            e.check(_eq(score, left[item]), "pop() returned an item with a score other than the last assigned", ctx)
            for it2, sc2 in left.items():
                e.check(_lex_ge(score, sc2), "pop() did not return a maximum-score item", ctx)
            del left[item]
        e.check(len(pq) == 0 and pq.is_empty(), "queue not empty after popping all queued items", ctx)
        try:
            pq.pop()
            e.check(False, "pop() on an empty queue did not raise IndexError", ctx)
        except IndexError:
            pass


class PQHist(_PQBase):
    name = "pq_hist"
    assumptions = ["an item id is pushed at most once while queued (ids are read indices)", "change_score only on queued items"]
    required_cover = ["pop after change_score", "change_score raises score of non-root", "change_score lowers score of root", "equal scores"]

    def shapes(self, tier):
        m = 4 if tier == "quick" else 5
        out = []
        for arity in (1, 2):
            mm = m if arity == 1 else m - 1
            for seq in itertools.product("PpCg", repeat=mm):
                # P push, p pop, C change_score, g get_score of an arbitrary item
                size, ok = 0, True
                for o in seq:
                    if o == "P":
                        size += 1
                    elif o == "p":
                        if size == 0:
                            ok = False
                        size -= 1
                    elif o == "C":
                        if size == 0:
                            ok = False
                if ok and seq[0] == "P" and seq.count("g") <= 1:
                    out.append(dict(ops="".join(seq), arity=arity))
        return out

    def bounds(self, tier):
        sh = self.shapes(tier)
        return "%d operation sequences of length <= %d over {push,pop,change_score,get_score}, items solver-chosen among the queued/unqueued ids, scalar scores in [-4,4] and 2-tuples in [-3,3]^2 symbolic; every sequence is followed by draining the queue" % (len(sh), max(len(s["ops"]) for s in sh))

    def harness(self, e, shape, impl):
        arity = shape["arity"]
        pq = impl.PriorityQueue()
        model = {}
        nxt = 0
        changed = False
        hist = []
        ctx = lambda: dict(ops=shape["ops"], history=[str(h) for h in hist])
        for k, o in enumerate(shape["ops"]):
            if o == "P":
                sc = self._score(e, "s%d" % k, arity)
                pq.push(sc, nxt)
                model[nxt] = sc
                hist.append(("push", nxt))
                nxt += 1
            elif o == "p":
                items = sorted(model)
                score, item = pq.pop()
                e.out("pop_item", item)
                e.out("pop_score", score)
                hist.append(("pop", item))
                e.check(item in model, "pop() returned an item that is not queued", ctx)
                e.check(_eq(score, model[item]), "pop() returned an item with a score other than the last assigned", ctx)
                for it2, sc2 in model.items():
                    e.check(_lex_ge(score, sc2), "pop() did not return a maximum-score item", ctx)
                    if it2 != item and _eq(score, sc2):
                        e.cover("equal scores")
                del model[item]
                if changed:
                    e.cover("pop after change_score")
            elif o == "C":
                items = sorted(model)
                it = e.choice("c%d" % k, items)
                sc = self._score(e, "s%d" % k, arity)
                old = model[it]
                is_root = all(bool(_lex_ge(old, s2)) for s2 in model.values())
                if _lex_ge(sc, old) and not _eq(sc, old) and not is_root:
                    e.cover("change_score raises score of non-root")
                if is_root and not _lex_ge(sc, old):
                    e.cover("change_score lowers score of root")
                pq.change_score(it, sc)
                model[it] = sc
                changed = True
                hist.append(("change", it))
            elif o == "g":
                it = e.choice("g%d" % k, range(max(nxt, 1) + 1))
                got = pq.get_score_by_item(it)
                hist.append(("get", it))
                if it in model:
                    e.check(got is not None and _eq(got, model[it]), "get_score_by_item() wrong for a queued item", ctx)
                else:
                    e.check(got is None, "get_score_by_item() reports an absent item as queued", ctx)
        self._drain(e, pq, model, ctx)


class PQStep(_PQBase):
    """Inductive step: an arbitrary valid heap of n entries (scores symbolic,
    constrained only by heap order - exactly the states any history of pushes
    reaches, array order included), then ONE arbitrary operation, then the
    observable contract on draining.  On the translation the representation
    invariant (heap order, positions = inverse of heap) is also asserted on the
    internal arrays."""

    name = "pq_step"
    assumptions = ["pre-state satisfies the representation invariant: heap[parent(i)] is not lower than heap[i]; positions maps every item to its index"]
    required_cover = ["sift_down takes right child", "sift_down takes left child", "sift_up at least two levels"]

    def shapes(self, tier):
        ns = [1, 2, 3, 4, 5] if tier == "quick" else [1, 2, 3, 4, 5, 6, 7]
        out = []
        for n in ns:
            for op in ["push", "pop"] + ["change%d" % i for i in range(n)]:
                out.append(dict(n=n, op=op, arity=1))
        for n in ([2, 3] if tier == "quick" else [2, 3, 4]):
            for op in ["push", "pop"] + ["change%d" % i for i in range(n)]:
                out.append(dict(n=n, op=op, arity=2))
        return out

    def bounds(self, tier):
        sh = self.shapes(tier)
        return "arbitrary valid heap with n <= %d entries (scalar scores) / n <= %d (2-tuple scores), one operation out of push / pop / change_score(item at each heap index), then drain" % (max(s["n"] for s in sh if s["arity"] == 1), max(s["n"] for s in sh if s["arity"] == 2))

    def harness(self, e, shape, impl):
        n, op, arity = shape["n"], shape["op"], shape["arity"]
        pq = impl.PriorityQueue()
        scores = [self._score(e, "h%d" % i, arity) for i in range(n)]
        for i in range(1, n):
            e.assume(_lex_ge(scores[(i - 1) // 2], scores[i]))
        model = {}
        for i in range(n):
            pq.push(scores[i], i)  # array order of a valid heap: no sift-up moves anything
            model[i] = scores[i]
        if hasattr(pq, "heap"):
            for i in range(n):
                if pq.heap[i].second != i:
                    raise RuntimeError("harness: pushes in heap-array order did not reproduce the array")
        ctx = lambda: dict(n=n, op=op)
        if op == "push":
            sc = self._score(e, "new", arity)
            pq.push(sc, n)
            model[n] = sc
            lvl, i = 0, n
            while i > 0 and not bool(_lex_ge(scores[(i - 1) // 2], sc)):
                i = (i - 1) // 2
                lvl += 1
            if lvl >= 2:
                e.cover("sift_up at least two levels")
        elif op == "pop":
            score, item = pq.pop()
            e.out("pop_item", item)
            e.out("pop_score", score)
            e.check(item in model, "pop() returned an item that is not queued", ctx)
            e.check(_eq(score, model[item]), "pop() returned a wrong score", ctx)
            for it2, sc2 in model.items():
                e.check(_lex_ge(score, sc2), "pop() did not return a maximum-score item", ctx)
            del model[item]
            if n >= 4:
                # last entry moved to the root and sifts down: which child?
                last = scores[n - 1]
                l, r = scores[1], scores[2]
                if n - 1 > 2:
                    if not bool(_lex_ge(l, r)) and not bool(_lex_ge(last, r)):
                        e.cover("sift_down takes right child")
                    if bool(_lex_ge(l, r)) and not bool(_lex_ge(last, l)):
                        e.cover("sift_down takes left child")
        else:
            k = int(op[6:])
            sc = self._score(e, "new", arity)
            pq.change_score(k, sc)
            model[k] = sc
            if k > 0:
                lvl, i = 0, k
                while i > 0 and not bool(_lex_ge(scores[(i - 1) // 2], sc)):
                    i = (i - 1) // 2
                    lvl += 1
                if lvl >= 2:
                    e.cover("sift_up at least two levels")
        if hasattr(pq, "heap"):
            m = pq.heap.size()
            e.check(m == len(model), "heap size wrong after one operation", ctx)
            for i in range(m):
                ent = pq.heap[i]
                e.check(pq.positions.data.get(ent.second) == i, "representation invariant broken: positions is not the inverse of heap", ctx)
                sc_i = ent.first[0].data
                sc_i = sc_i[0] if arity == 1 else tuple(sc_i)
                e.check(_eq(sc_i, model[ent.second]), "representation invariant broken: heap holds a stale score", ctx)
                if i > 0:
                    par = pq.heap[(i - 1) // 2].first[0].data
                    par = par[0] if arity == 1 else tuple(par)
                    e.check(_lex_ge(par, sc_i), "representation invariant broken: heap order violated after one operation", ctx)
            e.check(len(pq.positions.data) == m, "representation invariant broken: positions has stale entries", ctx)
        self._drain(e, pq, model, ctx)


SUBCHECKS.update({c.name: c for c in [PQHist(), PQStep()]})

if __name__ == "__main__":
    import sys
    from vf import runner

    sys.exit(runner.main("checks.c18", sys.argv[1:]))
