"""run_whatshap as a whole over ONE VCF: the real VcfReader reads it, the real PhasedVcfWriter streams it to the output,
and what lies in between (families, read selection, components) is the code of the working tree.

Shared by C04 (sub-check `run`: the output is the input plus phase information), C09 (`run`: after re-phasing, every phase
statement of a target sample stems from the new run) and C20 (`run`: the changed-genotype list is exactly the GT
difference between input and output VCF).  The three differ in the oracle only.

Stand-ins: PhasedInputReader (solver-chosen: per chromosome and sample no read at all or one read over all usable
variants), readselection (identity), Pedigree / PedigreeDPTable (contract stub: super reads carry, at every position the
solver was given, an allele pair that reproduces the genotype - or, with --distrust-genotypes, a solver-chosen other
genotype at the chromosome's first position), open() (in-memory files).  Symbolic run: pysam = vf/models/pysam_model.py for
reader and writer alike (one document), whatshap.core = vf/models/core_model.py.  Replay: the real whatshap.cli.phase,
whatshap.vcf, pysam and compiled core on a VCF file written from the witness; the output file is parsed back and must
equal the model's output document."""
import io
import os
import shutil
import tempfile
import types

from vf.runner import SubCheck
from vf.pysym.loader import SymWorld

SAMPLES = ["s1", "s2"]
CHROMS = ["chrA", "chrB"]
POS = {"chrA": [100, 200], "chrB": [50]}  # 1-based VCF positions
KINDS = {"snv": ("A", ("C",)), "indel": ("A", ("ATT",)), "multi": ("A", ("C", "G"))}
KIND_SETS = [("snv", "snv", "snv"), ("indel", "snv", "snv"), ("snv", "multi", "snv"), ("snv", "snv", "multi"), ("snv", "indel", "indel")]


CORRUPT = "the written VCF cannot be parsed (NUL bytes)"


class _Ctx:
    def __enter__(self):
        return self

    def __exit__(self, *a):
        return None


class MemFS:
    def __init__(self):
        self.files = {}

    def open(self, path, mode="r", *a, **k):
        fs, key = self, str(path)
        if "r" in mode:
            if key not in fs.files:
                raise FileNotFoundError(key)
            return io.StringIO(fs.files[key])

        class F(io.StringIO):
            def close(s):
                if not s.closed:
                    fs.files[key] = s.getvalue()
                io.StringIO.close(s)

            def __exit__(s, *x):
                s.close()

        f = F()
        if "a" in mode:
            f.write(fs.files.get(key, ""))
        fs.files[key] = f.getvalue()
        return f


class PedScenario:
    """trio f, m, c on one chromosome, no reads at all: records [first kind @100, second kind @100 or @150, snv @200]; the
    parents are homozygous for different alleles at every record, the child heterozygous (genetic haplotyping phases it)"""

    def __init__(self, e, shape):
        self.shape = shape
        self.samples = ["f", "m", "c"]
        self.ped_text = "fam1 c f m 0 1\n"
        self.tag, self.distrust = shape["tag"], False
        self.only_snvs = bool(e.bit("only_snvs"))
        self.sel_samples = self.sel_chroms = None
        self.reads = {}
        self.orient = {s: 0 for s in self.samples}
        self.newgt = {"chrA": "same"}
        kinds = shape["kinds"]
        pos = [100, 100 if shape["same_pos"] else 150, 200]
        header = [("GENERIC", "source", "x"), ("FORMAT", "GT", "1", "String"), ("FORMAT", "DP", "1", "Integer"), ("FORMAT", "PS", "1", "Integer"), ("FORMAT", "HP", ".", "String"), ("contig", "chrA")]
        recs = []
        for k, p in enumerate(pos):
            ref, alts = KINDS[kinds[k]]
            if k == 1 and shape["same_pos"] and alts == KINDS[kinds[0]][1]:
                alts = ("T",) if len(alts) == 1 else ("T", "G")
            fa = e.choice("father_%d" % k, [(1, 1), (0, 0)])
            mo = (0, 0) if fa == (1, 1) else (1, 1)
            calls = [{"GT": g, "phased": False, "DP": 10 + k} for g in (fa, mo, (0, 1))]
            recs.append(dict(chrom="chrA", pos=p, id="rs%d_%d" % (p, k), ref=ref, alts=alts, qual=None, filter=[], info={}, format=["GT", "DP"], calls=calls))
        self.doc = dict(samples=list(self.samples), header=header, records=recs)
        self.given = {}
        self.gtchanges_made = []

    def usable(self, rec):
        return len(rec["alts"]) == 1 and (not self.only_snvs or len(rec["alts"][0]) == 1)


class Scenario:
    samples = SAMPLES
    ped_text = None

    def __init__(self, e, shape):
        self.shape = shape
        old, kinds = shape["old"], shape["kinds"]
        self.tag, self.distrust = shape["tag"], shape["distrust"]
        self.only_snvs = bool(e.bit("only_snvs"))
        self.sel_samples = e.choice("samples", [None, ["s1"]])
        self.sel_chroms = e.choice("chromosomes", [None, ["chrA"]]) if shape.get("chromsel") else None
        s2all = e.choice("s2", ["het", "hom"])
        s2 = {c: s2all for c in CHROMS}
        self.reads = {("chrA", "s1"): e.choice("reads_chrA_s1", ["none", "all"]), ("chrB", "s1"): e.choice("reads_chrB_s1", ["none", "all"])}
        r2 = e.choice("reads_s2", ["none", "all"])
        self.reads[("chrA", "s2")] = self.reads[("chrB", "s2")] = r2
        self.orient = {"s1": e.bit("orient_s1"), "s2": 0}
        self.newgt = {c: (e.choice("newgt_%s" % c, ["same", "hom", "het"]) if self.distrust else "same") for c in CHROMS}
        header = [("GENERIC", "source", "x"), ("FILTER", "q10"), ("INFO", "AN", "1", "Integer"), ("FORMAT", "GT", "1", "String"), ("FORMAT", "DP", "1", "Integer"),
                  ("FORMAT", "PS", "1", "Integer"), ("FORMAT", "HP", ".", "String"), ("contig", "chrA"), ("contig", "chrB")]
        recs, k = [], 0
        for c in CHROMS:
            first = POS[c][0]
            for p in POS[c]:
                ref, alts = KINDS[kinds[k]]
                k += 1
                calls = []
                for s in SAMPLES:
                    het = s == "s1" or s2[c] == "het"
                    call = {"GT": (0, 1) if het else (1, 1), "phased": False, "DP": 10 + len(recs) + (5 if s == "s2" else 0)}
                    if het and old == "PS":
                        call.update({"GT": (1, 0), "phased": True, "PS": first})
                    elif het and old == "HP":
                        call["HP"] = ("%d-2" % first, "%d-1" % first)
                    elif old == "PS":
                        call["PS"] = None
                    elif old == "HP":
                        call["HP"] = (".",)
                    calls.append(call)
                fmt = ["GT"] + ({"PS": ["PS"], "HP": ["HP"]}.get(old, [])) + ["DP"]
                recs.append(dict(chrom=c, pos=p, id="rs%d" % p, ref=ref, alts=alts, qual=None, filter=[], info={"AN": 4}, format=fmt, calls=calls))
        self.doc = dict(samples=list(SAMPLES), header=header, records=recs)
        self.given = {}  # (chrom, sample) -> positions (0-based) the solver stub was given for that sample
        self.gtchanges_made = []

    def usable(self, rec):
        """the records `whatshap phase` (no --mav) loads: one ALT allele; SNVs only under --only-snvs"""
        return len(rec["alts"]) == 1 and (not self.only_snvs or len(rec["alts"][0]) == 1)


def stubs_for(sc, core, e):
    class Input(_Ctx):
        has_vcfs = False
        has_alignments = False

        def __init__(s, paths, ref, nsi, *a, **k):
            s.nsi = nsi

        def read_vcfs(s):
            pass

        def read(s, chromosome, variants, sample, read_vcf=True, **k):
            rs = core.ReadSet()
            pos = [v.position for v in variants]
            if sc.reads.get((chromosome, sample)) == "all" and len(pos) >= 2:
                r = core.Read("read_%s_%s" % (chromosome, sample), 60, 0, s.nsi[sample])
                for p in pos:
                    r.add_variant(p, 0, 30)
                rs.add(r)
            return rs, set()

    class PedStub:
        def __init__(s, nsi):
            s.nsi, s.individuals, s.trios = nsi, [], []

        def add_individual(s, sample, gts, gls=None):
            s.individuals.append((sample, list(gts)))

        def add_relationship(s, father_id, mother_id, child_id):
            s.trios.append((father_id, mother_id, child_id))

    class DPStub:
        def __init__(s, all_reads, recomb, pedigree, distrust, positions):
            s.reads, s.ped, s.positions = list(all_reads), pedigree, list(positions)
            for sample, _ in pedigree.individuals:
                sc.given[(sc.cur_chrom, sample)] = list(positions)

        def get_super_reads(s):
            out = []
            for idx, (sample, gts) in enumerate(s.ped.individuals):
                reads = [core.Read("superread_%d_%d" % (h, idx), -1, -1, s.ped.nsi[sample]) for h in (0, 1)]
                for i, p in enumerate(s.positions):
                    g = sorted(gts[i].as_vector())
                    if i == 0 and sc.newgt[sc.cur_chrom] == "hom":
                        g = [1, 1]
                    elif i == 0 and sc.newgt[sc.cur_chrom] == "het":
                        g = [0, 1]
                    a = (g[0], g[1]) if sc.orient[sample] == 0 else (g[1], g[0])
                    reads[0].add_variant(p, a[0], 10)
                    reads[1].add_variant(p, a[1], 10)
                rs = core.ReadSet()
                rs.add(reads[0])
                rs.add(reads[1])
                out.append(rs)
            return out, [0] * len(s.positions)

        def get_optimal_cost(s):
            return 0

        def get_optimal_partitioning(s):
            return [0] * len(s.reads)

    return Input, PedStub, DPStub


class PhaseRun(SubCheck):
    name = "run"
    encoded = ["whatshap.cli.phase.run_whatshap (whole)", "whatshap.vcf.VcfReader.{__init__,__iter__,_process_single_chromosome,_extract_GT_PS_phase,_extract_HP_phase}", "whatshap.vcf.PhasedVcfWriter.{__init__,setup_header,write,write_unchanged,_remove_existing_phasing,_set_PS,_set_HP}",
               "VcfAugmenter._iterrecords / _record_modifier", "find_phaseable_variants", "setup_families", "create_pedigree", "find_components", "compute_overall_components", "write_changed_genotypes", "ReadList"]
    sources = ["whatshap/cli/phase.py", "whatshap/vcf.py", "whatshap/pedigree.py", "whatshap/graph.py", "whatshap/merge.py"]
    stubs = ["PhasedInputReader (solver-chosen read sets: none / one read over all usable variants, per chromosome and sample)", "readselection (identity)",
             "Pedigree / PedigreeDPTable: contract stub (C01): genotype-reproducing super reads with a solver-chosen orientation per sample; with --distrust-genotypes a solver-chosen other genotype at the chromosome's first position",
             "pysam -> vf/models/pysam_model.py (reader and writer over one document); replay: real pysam on a VCF file written from the witness, output parsed back and compared", "open() -> in-memory files", "whatshap.core -> vf/models/core_model.py (replay: compiled)"]
    assumptions = ["two samples, unrelated (no PED); records sorted, distinct positions; heterozygous calls of an already phased input carry the old phase in ONE encoding (PS or HP) in every record kind"]
    required_cover = ["chromosome without any usable variant", "sample without reads on a chromosome", "input already phased", "--sample restricts the targets", "record skipped by the run (multi-ALT / non-SNV)"]
    replay_every = 1
    max_decisions = 20000
    PROPERTY_COVER = []

    def shapes(self, tier):
        out = []
        for old in (None, "PS", "HP"):
            for tag in ("PS", "HP"):
                for distrust in (False, True):
                    for kinds in KIND_SETS:
                        if tier == "quick" and distrust and kinds not in KIND_SETS[:2]:
                            continue
                        out.append(dict(old=old, tag=tag, distrust=distrust, kinds=list(kinds), chromsel=(tier != "quick" and not distrust)))
        # pedigree shapes (trio, no reads): two records at one position / at different positions, every kind combination
        for tag in ("PS", "HP"):
            for same in (True, False):
                for k0 in ("snv", "multi", "indel"):
                    for k1 in ("snv", "indel"):
                        out.append(dict(ped=True, tag=tag, old=None, distrust=False, same_pos=same, kinds=[k0, k1, "snv"]))
        return self.filter_shapes(out)

    def filter_shapes(self, shapes):
        return [s for s in shapes if not s.get("ped")]

    def bounds(self, tier):
        return ("%d shapes: 2 samples x 2 chromosomes (2 + 1 records; kinds %s), input unphased / PS-phased / HP-phased, --tag PS/HP, --distrust-genotypes on/off; solver-chosen: --only-snvs, --sample s1 or all, "
                "second sample heterozygous or homozygous per chromosome, reads per (chromosome, sample) none/all, orientation of the solver's haplotypes per sample, genotype change at the first position%s"
                % (len(self.shapes(tier)), sorted(set(map(tuple, KIND_SETS))), "" if tier == "quick" else ", --chromosome chrA"))

    def setup(self):
        from vf.models import pysam_model as pm, core_model, vcfdoc
        import logging

        self.pm, self.core_model = pm, core_model
        climod = types.ModuleType("whatshap.cli")
        climod.__path__ = []
        climod.CommandLineError = type("CommandLineError", (Exception,), {})
        climod.log_memory_usage = lambda *a, **k: None
        climod.PhasedInputReader = None
        w = SymWorld(overrides={"pysam": pm, "pysam.libcbcf": pm, "whatshap.core": core_model, "whatshap.cli": climod,
                                "whatshap.readselect": types.SimpleNamespace(readselection=lambda rs, cov, preferred_source_ids=None, bridging=True: set(range(len(rs))))})
        self.sym = dict(phase=w.load("whatshap.cli.phase"), vcf=w.load("whatshap.vcf"), core=core_model, ped=w.load("whatshap.pedigree"))
        for m in ("phase", "vcf"):
            self.sym[m].logger.setLevel(logging.CRITICAL)
        vcfdoc.ensure_real()
        import whatshap.cli.phase as rp, whatshap.vcf as rv, whatshap.core as rc

        logging.getLogger("whatshap").setLevel(logging.CRITICAL)
        self.real = dict(phase=rp, vcf=rv, core=rc)

    def sym_impl(self):
        return "sym"

    def real_impl(self):
        return "real"

    # ------------------------------------------------------------------------------------------------------------------
    def execute(self, e, sc, impl):
        """-> (output document or None, {list name: text}, exception text or None)"""
        from vf.models import materialise

        W = self.sym if impl == "sym" else self.real
        phase, core = W["phase"], W["core"]
        Input, PedStub, DPStub = stubs_for(sc, core, e)
        patches = dict(PhasedInputReader=Input, Pedigree=PedStub, PedigreeDPTable=DPStub)
        if impl == "real":
            patches["readselection"] = lambda rs, cov, preferred_source_ids=None, bridging=True: set(range(len(rs)))
        # the chromosome being processed: VcfReader yields one table per chromosome; find_phaseable_variants sees it first
        orig_fpv = phase.find_phaseable_variants

        def fpv(family, include_homozygous, trios, variant_table):
            sc.cur_chrom = variant_table.chromosome
            return orig_fpv(family, include_homozygous, trios, variant_table)

        patches["find_phaseable_variants"] = fpv
        saved = {k: phase.__dict__.get(k) for k in patches}
        phase.__dict__.update(patches)
        tmp = None
        exc, out, lists = None, None, {}
        try:
            kw = dict(phase_input_files=["reads.bam"], tag=sc.tag, only_snvs=sc.only_snvs, distrust_genotypes=sc.distrust, samples=sc.sel_samples, chromosomes=sc.sel_chroms, write_command_line_header=False)
            if impl == "sym":
                fs = MemFS()
                phase.__dict__["__builtins__"]["open"] = fs.open
                if sc.ped_text:
                    fs.files["ped.txt"] = sc.ped_text
                    W["ped"].__dict__["__builtins__"]["open"] = fs.open
                    kw["ped"] = "ped.txt"
                self.pm.FS.clear()
                self.pm.FS["in.vcf"] = sc.doc
                sink = self.pm.MemFile()
                try:
                    phase.run_whatshap(variant_file="in.vcf", output=sink, read_list_filename="reads.tsv", gtchange_list_filename="gtchanges.tsv", **kw)
                except Exception as ex:  # noqa
                    exc = "%s: %s" % (type(ex).__name__, ex)
                out = sink.doc
                if out is not None and out.get("corrupt"):  # the model's marker for what htslib writes as NUL bytes (C04 known finding)
                    out, exc = None, exc or CORRUPT
                lists = dict(fs.files)
            else:
                tmp = tempfile.mkdtemp(prefix="phase-run-", dir="/var/tmp")
                if sc.ped_text:
                    kw["ped"] = os.path.join(tmp, "ped.txt")
                    open(kw["ped"], "w").write(sc.ped_text)
                vin, vout = materialise.write_vcf(sc.doc, os.path.join(tmp, "in.vcf")), os.path.join(tmp, "out.vcf")
                try:
                    phase.run_whatshap(variant_file=vin, output=vout, read_list_filename=os.path.join(tmp, "reads.tsv"), gtchange_list_filename=os.path.join(tmp, "gtchanges.tsv"), **kw)
                except Exception as ex:  # noqa
                    exc = "%s: %s" % (type(ex).__name__, ex)
                try:
                    out = materialise.read_vcf(vout)
                except Exception as ex:  # noqa
                    out = None
                    exc = exc or (CORRUPT if type(ex).__name__ == "OSError" else "output unreadable: %s" % type(ex).__name__)
                for n in ("reads.tsv", "gtchanges.tsv"):
                    p = os.path.join(tmp, n)
                    if os.path.exists(p):
                        lists[n] = open(p).read()
        finally:
            for k, v in saved.items():
                if v is None:
                    phase.__dict__.pop(k, None)
                else:
                    phase.__dict__[k] = v
            if impl == "sym":
                phase.__dict__["__builtins__"]["open"] = open
                if sc.ped_text:
                    W["ped"].__dict__["__builtins__"]["open"] = open
            if tmp:
                shutil.rmtree(tmp, ignore_errors=True)
        return out, lists, exc

    @staticmethod
    def norm_doc(doc):
        if doc is None:
            return None
        recs = []
        for r in doc["records"]:
            calls = []
            for c in r["calls"]:
                d = {}
                for k, v in c.items():
                    if isinstance(v, list):
                        v = tuple(v)
                    if k == "HP" and v is not None and all(x in (None, ".") for x in (v if isinstance(v, tuple) else (v,))):
                        v = None  # missing HP: '.' / empty field / (None,)
                    d[k] = v
                calls.append(sorted(d.items(), key=lambda kv: kv[0]))
            recs.append([r["chrom"], r["pos"], r["id"], r["ref"], list(r["alts"] or []), list(r["format"]), calls])
        return recs

    def harness(self, e, shape, impl):
        if shape.get("ped"):
            return self.harness_ped(e, shape, impl)
        sc = Scenario(e, shape)
        if shape["old"]:
            e.cover("input already phased")
        if sc.sel_samples:
            e.cover("--sample restricts the targets")
        for c in CHROMS:
            recs = [r for r in sc.doc["records"] if r["chrom"] == c]
            if not any(sc.usable(r) for r in recs):
                e.cover("chromosome without any usable variant")
            if any(not sc.usable(r) for r in recs):
                e.cover("record skipped by the run (multi-ALT / non-SNV)")
        if any(v == "none" for v in sc.reads.values()):
            e.cover("sample without reads on a chromosome")
        out, lists, exc = self.execute(e, sc, impl)
        e.out("exception", exc)
        e.out("out", self.norm_doc(out))
        e.out("gtchanges", lists.get("gtchanges.tsv"))
        info = lambda: dict(options=dict(tag=sc.tag, only_snvs=sc.only_snvs, distrust_genotypes=sc.distrust, samples=sc.sel_samples, chromosomes=sc.sel_chroms), input_phased_with=shape["old"], record_kinds=shape["kinds"],
                            reads={"%s/%s" % k: v for k, v in sc.reads.items()}, new_genotype_at_first_position=sc.newgt, input=[(r["chrom"], r["pos"], r["alts"], [dict(c) for c in r["calls"]]) for r in sc.doc["records"]],
                            output=None if out is None else [(r["chrom"], r["pos"], [dict(c) for c in r["calls"]]) for r in out["records"]], gtchanges=lists.get("gtchanges.tsv"), exception=exc)
        if exc == CORRUPT and sc.tag == "HP":
            # `--tag=HP`: a record that gets the HP key while no sample gets a value is written with NUL bytes - the known C04
            # finding (known_findings.jsonl); reported by C04's sub-checks, not judged again under the other properties
            e.cover("output unreadable: NUL bytes with --tag=HP (C04 known finding)")
            self.unreadable(e, sc, shape, info)
            return
        e.check(exc is None, "whatshap phase failed: %s" % (exc or "")[:80], info)
        e.check(out is not None, "no output VCF", info)
        self.judge(e, sc, shape, out, lists, info)

    def harness_ped(self, e, shape, impl):
        sc = PedScenario(e, shape)
        out, lists, exc = self.execute(e, sc, impl)
        e.out("exception", exc)
        e.out("out", self.norm_doc(out))
        info = lambda: dict(options=dict(tag=sc.tag, only_snvs=sc.only_snvs, ped="trio f, m, c"), record_kinds=shape["kinds"], input=[(r["chrom"], r["pos"], r["alts"], [dict(c) for c in r["calls"]]) for r in sc.doc["records"]],
                            output=None if out is None else [(r["chrom"], r["pos"], r["alts"], [dict(c) for c in r["calls"]]) for r in out["records"]], handed_to_solver=sc.given, exception=exc)
        if exc == CORRUPT and sc.tag == "HP":
            e.cover("output unreadable: NUL bytes with --tag=HP (C04 known finding)")
            return
        e.check(exc is None, "whatshap phase --ped failed: %s" % (exc or "")[:80], info)
        e.check(out is not None, "no output VCF", info)
        self.judge(e, sc, shape, out, lists, info)

    def judge(self, e, sc, shape, out, lists, info):
        raise NotImplementedError

    def unreadable(self, e, sc, shape, info):
        """the output is the NUL-byte file of the known C04 finding: nothing to judge for this property"""

    # helpers for the oracles ------------------------------------------------------------------------------------------
    @staticmethod
    def targets(sc):
        return list(sc.sel_samples or SAMPLES)

    @staticmethod
    def processed(sc):
        return list(sc.sel_chroms or CHROMS)

    @staticmethod
    def phase_statement(call):
        """does the call make a phase statement (phased GT, a PS value, an HP value)?"""
        hp = call.get("HP")
        if isinstance(hp, (list, tuple)) and all(x in (None, ".") for x in hp):
            hp = None
        return bool(call.get("phased")) and len(call.get("GT") or ()) > 1 or call.get("PS") is not None or hp is not None

    def classify(self, shape, v):
        return "%s:%s" % (self.name, v["msg"])
