"""C02 - error-free reads reproduce the true haplotypes.

(a) ef_lemma (LLSym): the solver lemma at the solver interface - for every
    instance whose entries are error-free copies of two complementary true
    haplotypes the real PedigreeDPTable reports cost 0, and on every
    read-connected component its two super reads are the true haplotypes up to
    exchanging them as a whole; no allele is flagged as a tie.
(b) ef_detect (PySym): the input side of the lemma - ReadSetReader (with a
    reference, and without one for SNVs) never records, for a read that is an
    exact copy of a haplotype, the allele that haplotype does not carry; also
    for variants the read covers only in part (C06 is silent about those).
    Harness, models and replay are those of checks/c06.py (sub-check `one`).
The remaining pipeline stages around the solver are covered by their own
properties (C07 selection, C03 components, C04/C09 writer) - see DESIGN.md 4
C02 for what is outside this claim."""
import itertools

import z3

from checks.c01 import DPCheck, single, interval_shapes, decode_outputs

PROPERTY = "C02"


def components(shape):
    """read-connected components of the columns (columns covered by a common read are linked)"""
    C = shape["ncols"]
    comp = list(range(C))

    def find(x):
        while comp[x] != x:
            x = comp[x]
        return x

    for rd in shape["reads"]:
        cs = rd["cols"]
        for c in cs[1:]:
            a, b = find(cs[0]), find(c)
            if a != b:
                comp[max(a, b)] = min(a, b)
    return [find(c) for c in range(C)]


class ErrorFree(DPCheck):
    name = "ef_lemma"
    required_cover = ["symbolic run completed", "state merging exercised", "zero cost", "true haplotypes per component", "two components"]
    assumptions = DPCheck.assumptions + ["every entry is h[column] xor s[read] for arbitrary true haplotype h and read source s; weights >= 1 (a zero weight carries no information); genotypes heterozygous at every column (the sample's true genotype)"]

    def shapes(self, tier):
        out = []
        W = 15 if tier == "quick" else 63
        cov = 2 if tier == "quick" else 3
        for C in (2, 3, 4):
            for R in (1, 2, 3, 4):
                for sh in interval_shapes(C, R, cov):
                    out.append(single(C, sh, W=W, Wmin=1, Rc=0, errorfree=True))
        # gapped / paired reads, two components, chains with column dropping
        out.append(single(4, [(0, 1), (2, 3)], W=W, Wmin=1, Rc=0, errorfree=True))
        out.append(single(4, [(0, 3), (1, 2)], W=W, Wmin=1, Rc=0, errorfree=True))
        out.append(single(4, [(0, 2), (1, 3)], W=W, Wmin=1, Rc=0, errorfree=True))
        out.append(single(5, [(0, 1), (1, 2), (3, 4)], W=W, Wmin=1, Rc=0, errorfree=True))
        out.append(single(6, [(0, 1), (1, 2), (2, 3), (3, 4), (4, 5)], W=W, Wmin=1, Rc=0, errorfree=True))
        if tier != "quick":
            out.append(single(6, [(0, 1, 2), (1, 2, 3), (2, 3, 4), (3, 4, 5)], W=W, Wmin=1, Rc=0, errorfree=True))
            out.append(single(5, [(0, 4), (0, 1, 2), (2, 3, 4)], W=W, Wmin=1, Rc=0, errorfree=True))
        return out

    def bounds(self, tier):
        return "%d single-sample shapes (all interval-read multisets with coverage <= %d, <= 4 reads, <= 4 columns; gapped/nested reads; two components; chains to 6 columns); per shape ALL true haplotypes, ALL read->haplotype assignments and ALL weights in [1,%d] at once" % (len(self.shapes(tier)), 2 if tier == "quick" else 3, 15 if tier == "quick" else 63)

    def obligations(self, run, orc, tier):
        from vf.llsym import dpcheck

        it, shape = run.it, run.shape
        outs = {k: v[1] for k, v in it.outputs.items()}
        C = shape["ncols"]
        cost = dpcheck.to_z3(it, outs[("cost", 0)])
        yield ("cost is zero", cost != 0, "zero cost")
        comp = components(shape)
        if len(set(comp)) > 1:
            yield ("(two components present)", z3.BoolVal(False), "two components")
        h = [z3.Int("h_%d" % c) for c in range(C)]
        s0 = [dpcheck.to_z3(it, outs[("sr_0_0", c)]) for c in range(C)]
        s1 = [dpcheck.to_z3(it, outs[("sr_0_1", c)]) for c in range(C)]
        for root in sorted(set(comp)):
            cols = [c for c in range(C) if comp[c] == root]
            same = z3.And(*[z3.And(s0[c] == h[c], s1[c] == 1 - h[c]) for c in cols])
            swapped = z3.And(*[z3.And(s0[c] == 1 - h[c], s1[c] == h[c]) for c in cols])
            yield ("component %s carries the true haplotypes" % cols, z3.Not(z3.Or(same, swapped)), "true haplotypes per component")

    def judge_concrete(self, shape, inp, native):
        st, exc, outs = native
        if st != "ok":
            return "solver failed on an error-free instance: %s" % (exc or st)
        if outs[("cost", 0)] != 0:
            return "error-free reads but reported cost %d" % outs[("cost", 0)]
        comp = components(shape)
        C = shape["ncols"]
        for root in sorted(set(comp)):
            cols = [c for c in range(C) if comp[c] == root]
            a = [outs[("sr_0_0", c)] for c in cols]
            b = [outs[("sr_0_1", c)] for c in cols]
            h = [inp["h_%d" % c] for c in cols]
            nh = [1 - x for x in h]
            if not ((a == h and b == nh) or (a == nh and b == h)):
                return "component %s: super reads %s / %s are not the true haplotypes %s / %s" % (cols, a, b, h, nh)
        return None


from checks import c06 as _c06


class ErrorFreeDetection(_c06.One):
    """C06's single-variant harness with the stronger claim C02 needs: whatever part of the variant the read covers, the
    recorded allele is the carried one or none."""

    name = "ef_detect"
    partial_claim = True
    required_cover = [
        "fully covered snv carried=alt",
        "fully covered del carried=ref",
        "partially covered del carried=ref",
        "partially covered del carried=alt",
        "partially covered ins carried=alt",
        "partially covered mnp carried=alt",
        "partially covered mnp carried=ref",
        "allele recorded for a partially covered variant",
    ]

    def shapes(self, tier):
        out = []
        for sh in _c06.One.shapes(self, tier):
            if sh["deco"] != "plain":
                continue
            # C02 claims indels/MNPs with a reference only; overhang 0 is a `genotype`-only setting with known C06 findings
            if sh["mode"] == "realign" and sh["ov"] >= 1 or sh["mode"] == "cigar" and sh["kind"] == "snv":
                out.append(sh)
        return out

    def bounds(self, tier):
        return "as C06 `one` without decorations: " + _c06.One.bounds(self, tier) + "; restricted to re-alignment with overhang >= 1 (all variant kinds) and CIGAR-based detection of SNVs"


SUBCHECKS = {c.name: c for c in [ErrorFree(), ErrorFreeDetection()]}
